package c06

import (
	"fmt"
	"sync"
	"sync/atomic"
	"testing"
	"testing/synctest"
	"time"

	"github.com/dapr/kit/events/queue"

	"verifharness/vk"
)

// TestProcessorCallerWindows parks a CALLER of Enqueue/Dequeue at the verif point between its "stopped?" test and
// its work, lets another operation complete meanwhile (Close, an Enqueue/Dequeue of the same or another key), and
// releases it. The parked call takes effect when it is released. What must hold: nothing runs after Close returned
// (also not for a call that had passed the test before Close); otherwise every item that is live when the clock
// reaches its time runs exactly once, not early.
func TestProcessorCallerWindows(t *testing.T) {
	sec := vk.Sec("ProcessorCallerWindows")
	dues := []string{"past", "now", "+300us", "+1s"}
	idx := 0
	for _, parkedOp := range []string{"enq", "deq"} {
		for _, dueA := range dues {
			for _, loopBefore := range []string{"none", "timer"} { // is a loop alive (parked on a far timer) when the call is parked?
				for _, mean := range []string{"close", "enq-same", "enq-other", "deq-same", "close+enq-other"} {
					for _, dueB := range dues {
						if parkedOp == "deq" && dueA != "now" {
							continue
						}
						if (mean == "close" || mean == "deq-same") && dueB != "now" {
							continue
						}
						idx++
						if !vk.Mine(idx) {
							continue
						}
						name := fmt.Sprintf("callerwindow{parked=%s(k0,%s) loopBefore=%s meanwhile=%s(%s)}", parkedOp, dueA, loopBefore, mean, dueB)
						if err := runCallerWindow(t, name, parkedOp, dueA, loopBefore, mean, dueB); err != nil {
							t.Fatalf("C06 queue.Processor violated: %v\ncase: %s", err, name)
						}
						sec.Case(true, vk.FP(name), "callerwindow."+parkedOp+"."+mean)
						sec.Sample(func() any { return name })
					}
				}
			}
		}
	}
	sec.SetExhaustive()
}

func runCallerWindow(t *testing.T, name, parkedOp, dueA, loopBefore, mean, dueB string) error {
	var errs vk.Errs
	berr := vk.Bubble(t, name, func() {
		k := &ctl{hits: map[string]int{}}
		cur.Store(k)
		defer cur.Store(nil)
		var closeRet atomic.Bool
		k.closeRet = &closeRet
		var mu sync.Mutex
		type run struct {
			id         int
			at         time.Time
			afterClose bool
		}
		var runs []run
		proc := queue.NewProcessor[int, *item](func(it *item) {
			mu.Lock()
			runs = append(runs, run{it.id, time.Now(), closeRet.Load()})
			mu.Unlock()
		})
		t0 := time.Now()
		far := &item{key: 9, due: t0.Add(time.Hour), id: 900}
		if loopBefore == "timer" {
			proc.Enqueue(far)
			synctest.Wait()
		}
		a := &item{key: 0, due: t0.Add(offsets[dueA]), id: 1}
		pt := map[string]string{"enq": "enqueue.checked", "deq": "dequeue.checked"}[parkedOp]
		k.mu.Lock()
		k.armed, k.resumeCh = pt, make(chan struct{})
		k.mu.Unlock()
		var wg sync.WaitGroup
		wg.Add(1)
		errs.Go(func() {
			defer wg.Done()
			if parkedOp == "enq" {
				proc.Enqueue(a)
			} else {
				proc.Dequeue(0)
			}
		})
		synctest.Wait()
		k.mu.Lock()
		parked := k.parked
		k.mu.Unlock()
		if !parked {
			errs.Failf("harness: the call did not reach %s", pt)
			return
		}
		b := &item{key: 0, due: t0.Add(offsets[dueB]), id: 2}
		c := &item{key: 1, due: t0.Add(offsets[dueB]), id: 3}
		closed := false
		switch mean {
		case "close":
			_ = proc.Close()
			closeRet.Store(true)
			closed = true
		case "enq-same":
			proc.Enqueue(b)
		case "enq-other":
			proc.Enqueue(c)
		case "deq-same":
			proc.Dequeue(0)
		case "close+enq-other":
			proc.Enqueue(c)
			synctest.Wait()
			_ = proc.Close()
			closeRet.Store(true)
			closed = true
		}
		synctest.Wait()
		k.mu.Lock()
		close(k.resumeCh)
		k.parked, k.armed = false, ""
		k.mu.Unlock()
		synctest.Wait()
		wg.Wait()
		time.Sleep(2 * time.Hour)
		synctest.Wait()
		if !closed {
			_ = proc.Close()
			closeRet.Store(true)
		}
		mu.Lock()
		defer mu.Unlock()
		count := map[int]int{}
		for _, r := range runs {
			count[r.id]++
			if r.afterClose {
				errs.Failf("item %d was handed to the callback after Close had returned (the call that queued it had passed its stopped test before Close)", r.id)
				return
			}
			var it *item
			switch r.id {
			case 1:
				it = a
			case 2:
				it = b
			case 3:
				it = c
			case 900:
				it = far
			}
			if r.at.Before(it.due.Add(-early)) {
				errs.Failf("item %d executed %v before its scheduled time", r.id, it.due.Sub(r.at))
				return
			}
		}
		for id, n := range count {
			if n > 1 {
				errs.Failf("item %d executed %d times", id, n)
				return
			}
		}
		if closed {
			// items that were due before Close may have run; nothing is owed afterwards
			return
		}
		// not closed: expected executions
		want := map[int]bool{}
		if loopBefore == "timer" {
			want[900] = true
		}
		if parkedOp == "enq" {
			want[1] = true // inserted at release, nobody removed it afterwards
		}
		switch mean {
		case "enq-same":
			// B was queued first; it runs only if it was due (within 0.5ms) before A replaced it at the release
			if parkedOp == "enq" {
				if offsets[dueB] < early {
					want[2] = true
				}
			} else {
				// the parked Dequeue(k0) removes B at its release unless B already ran
				if offsets[dueB] < early {
					want[2] = true
				}
			}
		case "enq-other":
			want[3] = true
		}
		for id := range want {
			if count[id] != 1 {
				errs.Failf("item %d was live when the clock reached its time but ran %d times (runs: %v)", id, count[id], runs)
				return
			}
		}
		for id := range count {
			if !want[id] {
				errs.Failf("item %d ran although it was replaced or dequeued before it became due (runs: %v)", id, runs)
				return
			}
		}
	})
	if e := errs.Err(); e != nil {
		return e
	}
	return berr
}
