package c17

import (
	"encoding/asn1"
	"math/big"
	"strings"
	"testing"

	"pgregory.net/rapid"

	"verifharness/refcrypto"
	"verifharness/vk"
)

// Signature encodings. The signature handed to crypto.VerifyPublicKey is a structured input: an ASN.1 SEQUENCE of two
// INTEGERs for ECDSA, an integer of the size of the modulus for RSA, R || S for EdDSA. Signers and transports produce the
// same signature in other encodings than the strict one the standard library accepts (BER length forms, superfluous or
// missing leading zero octets, raw r || s as in JWS / IEEE P1363, the value still inside the BIT STRING / OCTET STRING it
// travelled in, bytes behind it), and a verifier that wants to be tolerant is tempted to normalise what it was given where
// it lies - in the caller's buffer. Whatever the verdict of the verification, the buffer is the caller's: every encoding
// below is a path of VerifyPublicKey ("enc.<name>"), built from a VALID signature, laid out in the arena like any other argument.

type sigEnc struct {
	name string
	fam  string // "es", "rsa" (RS* and PS*), "ed", or "*" for every family
	f    func(sig []byte, s refcrypto.SigSpec, seed uint64) []byte
}

// derLen writes a length with extra octets more than the minimal form has (0: DER).
func derLen(n, extra int) []byte {
	var min []byte
	switch {
	case n < 0x80:
		min = []byte{byte(n)}
	case n < 0x100:
		min = []byte{0x81, byte(n)}
	default:
		min = []byte{0x82, byte(n >> 8), byte(n)}
	}
	if extra == 0 {
		return min
	}
	digits := min
	if n >= 0x80 {
		digits = min[1:]
	}
	out := []byte{byte(0x80 + len(digits) + extra - btoi(n < 0x80))}
	for i := 0; i < extra-btoi(n < 0x80); i++ {
		out = append(out, 0)
	}
	return append(out, digits...)
}

func btoi(b bool) int {
	if b {
		return 1
	}
	return 0
}

func tlv(tag byte, lenExtra int, body ...[]byte) []byte {
	n := 0
	for _, b := range body {
		n += len(b)
	}
	out := append([]byte{tag}, derLen(n, lenExtra)...)
	for _, b := range body {
		out = append(out, b...)
	}
	return out
}

// derIntBody is the content of a DER INTEGER for a non-negative number.
func derIntBody(x *big.Int) []byte {
	b := x.Bytes()
	if len(b) == 0 || b[0]&0x80 != 0 {
		b = append([]byte{0}, b...)
	}
	return b
}

// fixedWidth writes x big-endian in exactly n bytes (the high bytes are cut off if it does not fit).
func fixedWidth(x *big.Int, n int) []byte {
	b := x.Bytes()
	if len(b) > n {
		return b[len(b)-n:]
	}
	return append(make([]byte, n-len(b)), b...)
}

// rs returns the two integers of an ECDSA signature (DER from the reference implementation) - of an EdDSA signature: its two halves.
func rs(sig []byte, s refcrypto.SigSpec) (r, sv *big.Int) {
	if s.Family == "ed" {
		return new(big.Int).SetBytes(sig[:len(sig)/2]), new(big.Int).SetBytes(sig[len(sig)/2:])
	}
	var v struct{ R, S *big.Int }
	if _, err := asn1.Unmarshal(sig, &v); err != nil {
		panic("harness: the reference ECDSA signature is not DER: " + err.Error())
	}
	return v.R, v.S
}

func curveBytes(s refcrypto.SigSpec) int { return (s.Curve.Params().BitSize + 7) / 8 }

// ecInts builds SEQUENCE { r, s } with the given treatment of the integers chosen by which (bit 0: r, bit 1: s; 0 means both).
func ecInts(sig []byte, s refcrypto.SigSpec, which uint64, outerExtra int, treat func(body []byte) []byte) []byte {
	r, sv := rs(sig, s)
	which %= 3 // 0: both, 1: r, 2: s
	ri, si := tlv(0x02, 0, derIntBody(r)), tlv(0x02, 0, derIntBody(sv))
	if which != 2 {
		ri = treat(derIntBody(r))
	}
	if which != 1 {
		si = treat(derIntBody(sv))
	}
	return tlv(0x30, outerExtra, ri, si)
}

var sigEncs = []sigEnc{
	// every family
	{"leading-zero-octet", "*", func(sig []byte, _ refcrypto.SigSpec, _ uint64) []byte { return append([]byte{0}, sig...) }},
	{"trailing-bytes", "*", func(sig []byte, _ refcrypto.SigSpec, seed uint64) []byte {
		return append(append([]byte{}, sig...), expand(seed, 1+int(seed>>40%8))...)
	}},
	{"bit-string-wrapped", "*", func(sig []byte, _ refcrypto.SigSpec, _ uint64) []byte { return tlv(0x03, 0, []byte{0}, sig) }},
	{"octet-string-wrapped", "*", func(sig []byte, _ refcrypto.SigSpec, _ uint64) []byte { return tlv(0x04, 0, sig) }},
	// ECDSA: the SEQUENCE of two INTEGERs
	{"ber-long-length", "es", func(sig []byte, s refcrypto.SigSpec, _ uint64) []byte { // 30 81 NN for NN < 128 (30 82 00 NN from 128 on)
		return ecInts(sig, s, 0, 1, func(b []byte) []byte { return tlv(0x02, 0, b) })
	}},
	{"ber-longer-length", "es", func(sig []byte, s refcrypto.SigSpec, seed uint64) []byte { // 30 82 00 NN, 30 83 00 00 NN
		return ecInts(sig, s, 0, 2+int(seed>>40%2), func(b []byte) []byte { return tlv(0x02, 0, b) })
	}},
	{"ber-indefinite-length", "es", func(sig []byte, s refcrypto.SigSpec, _ uint64) []byte {
		r, sv := rs(sig, s)
		return append(append(append([]byte{0x30, 0x80}, tlv(0x02, 0, derIntBody(r))...), tlv(0x02, 0, derIntBody(sv))...), 0, 0)
	}},
	{"ber-long-length-integer", "es", func(sig []byte, s refcrypto.SigSpec, seed uint64) []byte { // 02 81 NN
		return ecInts(sig, s, seed>>44, 0, func(b []byte) []byte { return tlv(0x02, 1, b) })
	}},
	{"integer-leading-zeros", "es", func(sig []byte, s refcrypto.SigSpec, seed uint64) []byte {
		return ecInts(sig, s, seed>>44, 0, func(b []byte) []byte { return tlv(0x02, 0, make([]byte, 1+int(seed>>48%3)), b) })
	}},
	{"integer-fixed-width-unsigned", "es", func(sig []byte, s refcrypto.SigSpec, _ uint64) []byte {
		// each integer in exactly as many octets as the curve has, without the sign octet DER asks for when the top bit is set
		// (and with the leading zero octets DER forbids when the number is short)
		r, sv := rs(sig, s)
		n := curveBytes(s)
		return tlv(0x30, 0, tlv(0x02, 0, fixedWidth(r, n)), tlv(0x02, 0, fixedWidth(sv, n)))
	}},
	{"integer-minimal-unsigned", "es", func(sig []byte, s refcrypto.SigSpec, _ uint64) []byte {
		// the sign octet left out (three signatures of four have the top bit set in r or s)
		r, sv := rs(sig, s)
		return tlv(0x30, 0, tlv(0x02, 0, r.Bytes()), tlv(0x02, 0, sv.Bytes()))
	}},
	{"trailing-bytes-inside", "es", func(sig []byte, s refcrypto.SigSpec, seed uint64) []byte {
		r, sv := rs(sig, s)
		return tlv(0x30, 0, tlv(0x02, 0, derIntBody(r)), tlv(0x02, 0, derIntBody(sv)), expand(seed, 1+int(seed>>40%8)))
	}},
	{"raw-r-s", "es", func(sig []byte, s refcrypto.SigSpec, _ uint64) []byte { // IEEE P1363 / JWS
		r, sv := rs(sig, s)
		n := curveBytes(s)
		return append(fixedWidth(r, n), fixedWidth(sv, n)...)
	}},
	{"raw-r-s-other-size", "es", func(sig []byte, s refcrypto.SigSpec, seed uint64) []byte { // r || s at the size of another curve
		r, sv := rs(sig, s)
		var sizes []int
		for _, n := range []int{32, 48, 66} {
			if n != curveBytes(s) {
				sizes = append(sizes, n)
			}
		}
		n := sizes[seed>>40%2]
		return append(fixedWidth(r, n), fixedWidth(sv, n)...)
	}},
	// RSA: an integer of the size of the modulus
	{"leading-octets-dropped", "rsa", func(sig []byte, _ refcrypto.SigSpec, seed uint64) []byte { // shorter than the modulus, as a minimal integer encoding is when the value starts with zero octets
		return append([]byte{}, sig[1+int(seed>>40%3):]...)
	}},
	{"asn1-integer", "rsa", func(sig []byte, _ refcrypto.SigSpec, _ uint64) []byte {
		return tlv(0x02, 0, derIntBody(new(big.Int).SetBytes(sig)))
	}},
	// EdDSA: R || S
	{"der-r-s", "ed", func(sig []byte, s refcrypto.SigSpec, _ uint64) []byte {
		r, sv := rs(sig, s)
		return tlv(0x30, 0, tlv(0x02, 0, derIntBody(r)), tlv(0x02, 0, derIntBody(sv)))
	}},
}

func sigEncByName(name string) (sigEnc, bool) {
	for _, e := range sigEncs {
		if e.name == name {
			return e, true
		}
	}
	return sigEnc{}, false
}

func sigEncFam(s refcrypto.SigSpec) string {
	switch s.Family {
	case "rs", "ps":
		return "rsa"
	}
	return s.Family
}

// verifyModesFor: the paths of VerifyPublicKey for an algorithm: the base paths and the encodings of the signature its family has.
func verifyModesFor(alg string) []string {
	s, _ := refcrypto.Sig(alg)
	out := append([]string{}, verifyModes...)
	for _, e := range sigEncs {
		if e.fam == "*" || e.fam == sigEncFam(s) {
			out = append(out, "enc."+e.name)
		}
	}
	return out
}

// TestSigEncMaterial: the encodings are what their names say (a harness check, not a verdict about kit).
func TestSigEncMaterial(t *testing.T) {
	for _, tc := range []struct {
		n, extra int
		want     string
	}{{5, 0, "\x05"}, {5, 1, "\x81\x05"}, {5, 2, "\x82\x00\x05"}, {0x90, 0, "\x81\x90"}, {0x90, 1, "\x82\x00\x90"}, {0x90, 2, "\x83\x00\x00\x90"}, {0x123, 0, "\x82\x01\x23"}, {0x123, 1, "\x83\x00\x01\x23"}} {
		if got := string(derLen(tc.n, tc.extra)); got != tc.want {
			t.Fatalf("harness: derLen(%#x, %d) = %x, want %x", tc.n, tc.extra, got, tc.want)
		}
	}
	for _, alg := range []string{"ES256", "ES384", "ES512"} {
		s, _ := refcrypto.Sig(alg)
		digest := expand(7, s.DigestLen())
		sig, err := s.Sign(stdKey(sigKeyName(s, 0)), digest)
		if err != nil {
			t.Fatalf("harness: %v", err)
		}
		// re-encoding with no variation gives the DER signature back
		if got := ecInts(sig, s, 0, 0, func(b []byte) []byte { return tlv(0x02, 0, b) }); string(got) != string(sig) {
			t.Fatalf("harness: %s: re-encoded signature %x differs from %x", alg, got, sig)
		}
		e, _ := sigEncByName("ber-long-length")
		ber := e.f(sig, s, 0)
		if len(sig) < 0x82 && (len(ber) != len(sig)+1 || ber[0] != 0x30 || ber[1] != 0x81 || int(ber[2]) != len(ber)-3) {
			t.Fatalf("harness: %s: long-form signature %x (from %x)", alg, ber, sig)
		}
		e, _ = sigEncByName("raw-r-s")
		if raw := e.f(sig, s, 0); len(raw) != 2*curveBytes(s) {
			t.Fatalf("harness: %s: raw signature of %d bytes", alg, len(raw))
		}
		for _, e := range sigEncs {
			if (e.fam != "*" && e.fam != "es") || e.name == "integer-minimal-unsigned" || e.name == "integer-fixed-width-unsigned" {
				continue // (the two unsigned forms are the DER encoding when no top bit is set and no octet is missing)
			}
			if v := e.f(sig, s, 0x123456789abcdef); s.Verify(pubOf(stdKey(sigKeyName(s, 0))), digest, v) {
				t.Fatalf("harness: %s: encoding %s is accepted by the strict verifier - it is not a variant", alg, e.name)
			}
		}
	}
}

// TestSigEncRapid: VerifyPublicKey with the signature in a drawn encoding (half of the cases; the others: the base paths), algorithm,
// spare capacities, layout (digest and signature isolated or packed into one buffer in either order) and memory kind drawn.
// The ECDSA algorithms - the structured signatures - are drawn three times as often as the RSA ones.
func TestSigEncRapid(t *testing.T) {
	sec := vk.Sec("SigEncRapid")
	o := opByName("crypto.VerifyPublicKey")
	var algs, rsa []string
	for _, a := range o.Algs {
		if s, _ := refcrypto.Sig(a); s.Family == "es" || s.Family == "ed" {
			algs = append(algs, a, a, a)
		} else {
			rsa = append(rsa, a)
		}
	}
	algs = append(algs, rsa...) // (rapid favours the front of a list)
	oo := o
	oo.Algs = algs
	vk.Check(t, 1200, 400000, func(rt *rapid.T) {
		c := drawCase(rt, oo, 1)
		if rapid.Bool().Draw(rt, "encoding") {
			var encs []string
			for _, m := range o.Modes(c.Alg) {
				if strings.HasPrefix(m, "enc.") {
					encs = append(encs, m)
				}
			}
			c.Mode = rapid.SampledFrom(encs).Draw(rt, "enc")
		}
		msg, st := checkMem(c)
		if msg != "" {
			rt.Fatalf("C17 caller memory violated: %s\ncase: %s", msg, c)
		}
		sec.Case(st.nontrivial, c.fp(), st.classes...)
		sec.Sample(func() any { return c.String() })
	})
}
