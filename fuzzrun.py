"""Native fuzzing campaigns of a check package (thorough tier; see DESIGN.md 1.5, engine E5).

run_fuzz(ROOT, HARNESS, GO, env, pid, cfg) -> (notes, violations)

For every entry {"target": "FuzzXxx", "seconds": N} of cfg["fuzz"] one `go test -fuzz` campaign is run in the
harness module (go accepts one package and one matching target per invocation), 16 workers, with a private fuzz
cache under <ROOT>/.work/<pid>/fuzzcache, against the tree named by VERIF_REPO exactly as ./check builds it
(-modfile of prepare_module). A crasher - go test exits non-zero and has written testdata/fuzz/<target>/<hash>
into the package directory - is a violation: the file is MOVED to <ROOT>/replays/<pid>/<stamp>-fuzz-<target>/
(so the committed corpus is not polluted), stored there a second time as <target>.fail, and the directory is
appended to `violations`.

    ./check <pid> --replay <that directory>

re-runs it: the driver hands <target>.fail to the test binary as -rapid.failfile with -test.run ^<target>$, and
the package's TestMain copies a file in the "go test fuzz v1" format into testdata/fuzz/<target>/ of the run's
scratch directory, where the testing package replays it as a seed. A campaign that cannot start, fails to build
or runs out of time is a note, never a violation.
"""
import glob, json, os, re, shutil, subprocess, sys, time


def _prepare_module(root, repo):
    main = sys.modules.get("__main__")
    pm = getattr(main, "prepare_module", None)
    if pm is None:
        from importlib.machinery import SourceFileLoader
        import importlib.util
        loader = SourceFileLoader("verif_check_driver", os.path.join(root, "check"))
        spec = importlib.util.spec_from_loader("verif_check_driver", loader)
        mod = importlib.util.module_from_spec(spec)
        loader.exec_module(mod)
        pm = mod.prepare_module
    return pm(repo)


def _corpus_files(pkgdir, target):
    d = os.path.join(pkgdir, "testdata", "fuzz", target)
    if not os.path.isdir(d):
        return set()
    return {os.path.join(d, f) for f in os.listdir(d) if os.path.isfile(os.path.join(d, f))}


def run_fuzz(ROOT, HARNESS, GO, env, pid, cfg):
    notes, violations = [], []
    campaigns = cfg.get("fuzz") or []
    if not campaigns:
        return notes, violations
    pkg = cfg.get("pkg", pid.lower())
    pkgdir = os.path.join(HARNESS, pkg)
    repo = os.environ.get("VERIF_REPO", "/repo")
    try:
        modfile = _prepare_module(ROOT, repo)
    except Exception as e:  # noqa: BLE001
        return ["fuzz: cannot prepare the module for %s: %s" % (repo, e)], violations
    cache = os.path.join(ROOT, ".work", pid, "fuzzcache")
    os.makedirs(cache, exist_ok=True)
    logdir = os.path.join(ROOT, ".work", pid, "fuzzlogs")
    os.makedirs(logdir, exist_ok=True)
    env = dict(env)
    for k in ("VERIF_STATS_OUT", "VERIF_SHARD", "VERIF_SHARDS"):
        env.pop(k, None)
    env["VERIF_TIER"] = "thorough"
    env["VERIF_KNOWN"] = os.path.join(ROOT, "KNOWN_FINDINGS.txt")
    workers = str(cfg.get("fuzz_workers", 16))
    budget = cfg.get("fuzz_budget_s", 720)  # total wall time of all campaigns
    t_all = time.time()
    for c in campaigns:
        target, seconds = c["target"], int(c.get("seconds", 30))
        if time.time() - t_all > budget:
            notes.append("fuzz %s: skipped, the fuzzing budget of %ds is used up" % (target, budget))
            continue
        before = _corpus_files(pkgdir, target)
        cmd = [GO, "test", "-tags", "verif,unit"]
        if modfile:
            cmd += ["-modfile", modfile]
        cmd += ["./" + pkg, "-run", "^$", "-fuzz", "^" + target + "$", "-fuzztime", "%ds" % seconds, "-parallel", workers,
                "-test.fuzzcachedir=" + cache]
        t0 = time.time()
        log = os.path.join(logdir, target + ".log")
        try:
            with open(log, "w") as lf:
                p = subprocess.run(cmd, cwd=HARNESS, env=env, stdout=lf, stderr=subprocess.STDOUT, timeout=seconds + 420)
            rc = p.returncode
        except subprocess.TimeoutExpired:
            notes.append("fuzz %s: no result within %ds (inconclusive, not a violation)" % (target, seconds + 420))
            rc = None
        except OSError as e:
            notes.append("fuzz %s: could not start: %s" % (target, e))
            continue
        wall = time.time() - t0
        txt = open(log, errors="replace").read() if os.path.exists(log) else ""
        execs = 0
        for m in re.finditer(r"execs: (\d+)", txt):
            execs = max(execs, int(m.group(1)))
        new = sorted(_corpus_files(pkgdir, target) - before)
        if new:
            stamp = time.strftime("%Y%m%d-%H%M%S")
            d = os.path.join(ROOT, "replays", pid, "%s-fuzz-%s" % (stamp, target))
            os.makedirs(d, exist_ok=True)
            moved = []
            for i, f in enumerate(new):
                dst = os.path.join(d, os.path.basename(f))
                shutil.move(f, dst)
                moved.append(dst)
                # the name the driver's --replay understands (one file: <target>.fail; more: <target>-<timestamp>-<n>.fail)
                alias = target + ".fail" if i == 0 else "%s-%s-%d.fail" % (target, time.strftime("%Y%m%d%H%M%S"), i)
                shutil.copy(dst, os.path.join(d, alias))
            shutil.copy(log, os.path.join(d, "log.txt"))
            essence = [l for l in txt.splitlines() if re.search(r"violated|^\s+case: |panic:|fatal error:|Failing input|deadlocked|hung or terminated", l)][:8]
            meta = dict(property=pid, tier="thorough", kind="native-fuzz-crasher", target=target, failed_tests=[target], crashers=[os.path.basename(x) for x in moved],
                        repo=repo, essence=essence,
                        note="replay: ./check %s --replay %s   (or by hand: copy the crasher into %s/testdata/fuzz/%s/ and run `go test -tags verif,unit ./%s -run '^%s$'` in %s)"
                             % (pid, d, pkgdir, target, pkg, target, HARNESS))
            json.dump(meta, open(os.path.join(d, "replay.json"), "w"), indent=1)
            # an emptied corpus directory that this run created is removed again
            cd = os.path.join(pkgdir, "testdata", "fuzz", target)
            try:
                if not os.listdir(cd):
                    os.rmdir(cd)
                    for up in (os.path.dirname(cd), os.path.dirname(os.path.dirname(cd))):
                        if not os.listdir(up):
                            os.rmdir(up)
            except OSError:
                pass
            for l in essence[:4]:
                print(l[:1500])
            violations.append(d)
            notes.append("fuzz %s: CRASHER after %.0fs, %d execs -> %s" % (target, wall, execs, d))
            continue
        if rc is None:
            continue
        if rc == 0:
            notes.append("fuzz %s: %ds requested, %.0fs wall, %d execs, %s workers, no crasher" % (target, seconds, wall, execs, workers))
        else:
            tail = " | ".join(txt.strip().splitlines()[-3:])[:400]
            notes.append("fuzz %s: go test exited %d without writing a crasher (build problem, failing seed or timeout; inconclusive): %s" % (target, rc, tail))
    return notes, violations
