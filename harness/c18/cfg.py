CFG = dict(
     claimed=True,
     level="fault_enumeration",
     rule="Cases: (history of 1..4 Writes of one Dir with file sets over names {a..d} - empty, disjoint, overlapping; body lengths "
          "0/8/100/5000, contents tagged with the write - on an existing or a missing base directory) x EVERY crash point of the "
          "history (write index x ordinal of the verif hook point before/after each filesystem step of Write: mkdir base, mkdir version "
          "directory, each file, symlink, rename, removal of the previous version; the crash is a panic thrown from the hook and "
          "recovered, the Dir value is dropped) x recovery by a fresh Dir with 1..2 Writes (optionally dying again inside its first "
          "Write, then a third fresh Dir). One case = one (history, crash point) run on a real scratch directory in real time; the "
          "run without a crash is counted too. At every hook point of every Write the target is resolved like a concurrent reader "
          "(Lstat/Stat/ReadDir/ReadFile through the target path). Non-trivial: the crash is strictly inside a Write (at least one "
          "filesystem step done, at least one to go) that follows a committed Write, and the recovering Write succeeded. Distinct by "
          "(full history, crash point). Exhaustive sweeps: all histories of 1..2 (thorough 1..3) Writes over subsets of {a,b} x both "
          "base states x all crash points x all recovery sequences of 1 (thorough 1..2) Writes over the same subsets; and all those "
          "1..2-Write histories x all crash points x all second crash points of the recovering Write.",
     technique="crash-point enumeration: property-based histories (rapid) x exhaustive enumeration of the crash points of each history, "
               "with a reader-side state invariant checked at every intermediate filesystem state; exhaustive small-scope sweeps",
     level_text="Fault enumeration: for every generated history every crash point between two filesystem steps of Write is injected "
                "once (complete for that dimension; `exhaustive` is claimed only for the small-scope sweep sections, whose history "
                "space is enumerated completely as well). Oracle at every hook point: target absent (only before the first commit) or "
                "a directory whose listing and contents are exactly the last committed Write's set, or the in-flight one once its "
                "rename happened; after a crash a fresh Dir must Write without error and the target must show its set; without "
                "crashes the base directory holds exactly the target link and the version directory it points to after each Write.",
     level_note="A crash is modelled at the granularity of Go-level filesystem calls (os.MkdirAll, os.WriteFile, os.Symlink, os.Rename, "
                "os.RemoveAll are not split further) and as a process death, not a power loss: what the kernel has accepted is "
                "visible afterwards (no lost or reordered page-cache writes; dir.Write never calls fsync, so durability across a "
                "machine crash is outside this check). The order in which Write walks its file map is the Go runtime's. Real time: "
                "version directories are named by UnixNano and the harness waits for the clock to advance between Writes.",
     assumptions=["the scratch file system (os.TempDir) implements POSIX rename/symlink atomicity",
                  "process death loses only in-memory state (Dir.prev); completed system calls persist in order",
                  "time.Now() advances between two Writes of one case (enforced by the harness)",
                  "Go runtime and rapid v1.3.0 are correct"],
     timeout_quick=300, timeout_thorough=2400)
