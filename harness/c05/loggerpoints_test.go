package c05

import (
	"fmt"
	"runtime"
	"sync"
	"sync/atomic"
	"testing"
	"testing/synctest"
	"time"

	"github.com/dapr/kit/cron"
	clocktesting "k8s.io/utils/clock/testing"

	"verifharness/vk"
)

// The logger as a schedule point. The scheduler reports what it does to the Logger the caller configured ("stop" when it
// has taken a stop request and is about to return, "wake", "run", "added", "removed"). A Logger of the harness uses the
// "stop" report - the scheduler goroutine is on its way out, the Run call that started it has not returned yet - to
// wait until the Stop call has returned and then restart the cron at once (Start or Run). From there on the restarted
// cron is an ordinary running cron: its entries are started at their activations, and after the NEXT Stop returns
// nothing is started any more - whatever the previous Run call still does while it returns.
type pointLogger struct {
	on func(msg string)
}

func (l pointLogger) Info(msg string, _ ...interface{}) { l.on(msg) }
func (pointLogger) Error(error, string, ...interface{}) {}

func TestCronLoggerPoints(t *testing.T) {
	sec := vk.Sec("CronLoggerPoints")
	for _, first := range []string{"run", "start"} {
		for _, restart := range []string{"start", "run"} {
			for _, entries := range []int{1, 3} {
				name := fmt.Sprintf("cron.loggerpoint{firstStartVia=%s; at the scheduler's \"stop\" report: wait for Stop to return, then restart via %s; entries=%d}", first, restart, entries)
				for rep := 0; rep < vk.Pick(5, 100); rep++ {
					if err := runCronLoggerPoint(t, name, first, restart, entries); err != nil {
						t.Fatalf("C05 cron runner violated: %v\ncase: %s", err, name)
					}
				}
				sec.Case(true, vk.FP(name), "loggerpoint.restart-while-previous-run-returns")
				sec.Sample(func() any { return name })
			}
		}
	}
	sec.SetExhaustive()
}

func runCronLoggerPoint(t *testing.T, name, first, restart string, entries int) error {
	var errs vk.Errs
	berr := vk.Bubble(t, name, func() {
		base := time.Date(2024, 1, 1, 0, 0, 0, 0, time.UTC)
		fake := clocktesting.NewFakeClock(base)
		var cr *cron.Cron
		var stopReturned, restarted atomic.Bool
		var armed atomic.Bool
		var wg sync.WaitGroup
		lg := pointLogger{on: func(msg string) {
			if msg != "stop" || !armed.CompareAndSwap(true, false) {
				return
			}
			for i := 0; i < 5000 && !stopReturned.Load(); i++ {
				runtime.Gosched()
			}
			if !stopReturned.Load() {
				return // Stop has not returned although the scheduler took its request: nothing to do at this point
			}
			if restart == "start" {
				cr.Start()
			} else {
				wg.Add(1)
				go func() { defer wg.Done(); cr.Run() }()
				for i := 0; i < 200; i++ {
					runtime.Gosched()
				}
			}
			restarted.Store(true)
		}}
		cr = cron.New(cron.WithClock(fake), cron.WithLocation(time.UTC), cron.WithLogger(lg))
		var mu sync.Mutex
		starts := make([]int, entries)
		for i := 0; i < entries; i++ {
			cr.Schedule(cron.Every(time.Second), cron.FuncJob(func() { mu.Lock(); starts[i]++; mu.Unlock() }))
		}
		if first == "run" {
			wg.Add(1)
			go func() { defer wg.Done(); cr.Run() }()
		} else {
			cr.Start()
		}
		synctest.Wait()
		fake.Step(time.Second)
		synctest.Wait()
		armed.Store(true)
		cr.Stop()
		stopReturned.Store(true)
		synctest.Wait()
		snap := func() []int { mu.Lock(); defer mu.Unlock(); return append([]int(nil), starts...) }
		if restarted.Load() {
			// the restarted cron runs: every entry is started at the next activations
			before := snap()
			for k := 0; k < 2; k++ {
				fake.Step(time.Second)
				synctest.Wait()
			}
			after := snap()
			for i := range after {
				if after[i]-before[i] != 2 {
					errs.Failf("after the restart entry %d was started %d times in two activation instants, want 2", i, after[i]-before[i])
				}
			}
		}
		// the final Stop: after it returns nothing is started
		cr.Stop()
		synctest.Wait()
		before := snap()
		for k := 0; k < 3; k++ {
			fake.Step(time.Second)
			synctest.Wait()
		}
		after := snap()
		for i := range after {
			if after[i] != before[i] {
				errs.Failf("entry %d was started %d more time(s) after the last Stop had returned (the cron had been restarted while the previous Run call was still returning: %v)", i, after[i]-before[i], restarted.Load())
				break
			}
		}
		// leave nothing behind: whatever scheduler is still alive takes a stop request
		for k := 0; k < 3; k++ {
			cr.Start()
			cr.Stop()
			synctest.Wait()
		}
		wg.Wait()
	})
	if e := errs.Err(); e != nil {
		return e
	}
	return berr
}
