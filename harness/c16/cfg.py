CFG = dict(
     claimed=True,
     rule="Cases: (limit N, source length, read-chunk script incl. zero-length reads, EOF-with-data or EOF-alone, optional sticky "
          "source error at an offset, consumer = buffer-size script | io.ReadAll | io.Copy/WriteTo) for LimitReadCloser, "
          "MultiReaderCloser (0..4 sources, closable or not) and TeeReadCloser (recording / failing writer); exhaustive sweeps for "
          "N<=5(7) x all compositions, rapid for the rest. Non-trivial: source length >= 2 split into >= 2 chunks, or length > N, or "
          "the WriteTo path. Distinct by the full case encoding.",
     assumptions=["sources obey the io.Reader contract (sticky errors, n<=len(p))", "Go runtime and rapid v1.3.0 are correct"],
     technique="property-based testing (rapid) + exhaustive small-scope enumeration against a byte-level reference oracle",
     level_text="Generated-input search: every case runs the real streams code and is judged by an explicit oracle (expected bytes, "
                "terminal error class, close counts). Exhaustive for limits 0..5 x all chunk compositions; sampled beyond. No absence claim.",
     level_note="Trusts the Go runtime, rapid, and the harness' scripted reader (which obeys the io.Reader contract).",
     timeout_quick=300, timeout_thorough=1800)
CFG["rule"] += ' Added after independently written breaking changes: Source errors are sticky or one-shot (reported by one Read call only), alone or with data.'
CFG["rule"] += ' After ErrStreamTooLarge three more Reads must each return (0, ErrStreamTooLarge). Source style "HTTP body already read and closed by its owner" (Read reports http.ErrBodyReadAfterClose) in the Read-path cases of MultiReaderCloser: no bytes, and the stream must not close it a second time.'
CFG["rule"] += ' The way a stream is closed is part of the case: the Close of a source (all three stream types) or of the tee writer (on its first call only, or on every call) may report an error, Close is called one to three times whatever the earlier calls returned, optionally with a Read after each call: after EVERY Close call each closable source has been closed exactly once, and a closed source is not read again.'
CFG["rule"] += ' TeePending (synctest bubble, no clock): Stop() or Close() from another goroutine while a Read of the consumer is pending inside the source (a source whose k-th Read waits on a gate of the harness; the harness lets it go on only when every goroutine of the bubble is parked - on a channel or on the stream mutex - or gone, or, in a quarter of the cases, at once). After Stop the caller goes on reading the source itself: tee-delivered bytes + the rest read from the source == the source, writer bytes == tee-delivered bytes; after Close consumer and writer hold the same prefix and the source was closed exactly once. Non-trivial there: the gated Read was reached and returned data.'
