package c14

// Part (a) of C14: linearizability of cmap.Map, cmap.Atomic (+AtomicValue) and
// slice.Slice. This file holds what the three structures share: the program
// generator, the concurrent runner that records a stamped history, the overlap
// measure used for the evidence and the rapid property around porcupine.

import (
	"flag"
	"fmt"
	"runtime"
	"sort"
	"strings"
	"sync"
	"sync/atomic"
	"testing"

	"github.com/anishathalye/porcupine"
	"pgregory.net/rapid"

	"verifharness/vk"
)

// opSpec is one drawn operation. Kind indexes the structure's kind table; the
// meaning of Key/Val/Aux depends on the kind. Yield and Spin shift the
// operation in time: Yield calls of runtime.Gosched() and Spin iterations of a
// register-only loop are executed before the invocation stamp is taken.
type opSpec struct {
	Kind  int
	Key   int
	Val   int
	Aux   int
	Yield int
	Spin  int
}

// program is a whole concurrent program, drawn up front.
type program struct {
	NKeys int
	G     [][]opSpec
}

func (p program) encode(kinds []string) string {
	var b strings.Builder
	fmt.Fprintf(&b, "keys=%d", p.NKeys)
	for g, ops := range p.G {
		fmt.Fprintf(&b, " | g%d:", g)
		for _, o := range ops {
			fmt.Fprintf(&b, " %s(k%d,v%d,a%d;y%d,s%d)", kinds[o.Kind], o.Key, o.Val, o.Aux, o.Yield, o.Spin)
		}
	}
	return b.String()
}

// genProgram draws 2..4 goroutines x 1..5 operations over 1..3 keys. Half of
// the programs are "focused": the kinds are restricted to a drawn subset of 1..3
// kinds, which concentrates the collisions on few code paths.
func genProgram(rt *rapid.T, kinds []string) (program, bool) {
	nk := rapid.IntRange(1, 3).Draw(rt, "keys")
	ng := rapid.IntRange(2, 4).Draw(rt, "goroutines")
	allowed := make([]int, len(kinds))
	for i := range allowed {
		allowed[i] = i
	}
	focus := rapid.Bool().Draw(rt, "focus")
	if focus {
		allowed = rapid.SliceOfNDistinct(rapid.IntRange(0, len(kinds)-1), 1, 3, rapid.ID[int]).Draw(rt, "focusKinds")
	}
	p := program{NKeys: nk}
	for g := 0; g < ng; g++ {
		n := rapid.IntRange(1, 5).Draw(rt, fmt.Sprintf("g%d.len", g))
		ops := make([]opSpec, n)
		for i := range ops {
			ops[i] = opSpec{
				Kind:  rapid.SampledFrom(allowed).Draw(rt, "kind"),
				Key:   rapid.IntRange(0, nk-1).Draw(rt, "key"),
				Val:   rapid.IntRange(0, 9).Draw(rt, "val"),
				Aux:   rapid.IntRange(0, 7).Draw(rt, "aux"),
				Yield: rapid.SampledFrom([]int{0, 0, 0, 0, 1, 2}).Draw(rt, "yield"),
				Spin:  rapid.IntRange(0, 300).Draw(rt, "spin"),
			}
		}
		p.G = append(p.G, ops)
	}
	return p, focus
}

// rec is one completed operation of a recorded history.
type rec struct {
	G, I      int
	In, Out   any
	Call, Ret int64
	Res       int // what the operation touched: resKey+key, resObj+object or resAll (whole structure)
}

const (
	resAll = -1
	resKey = 0
	resObj = 100
)

// structure describes one container under test.
type structure struct {
	name  string
	kinds []string
	// fresh creates a new object under test and returns, per goroutine, the
	// function that executes one drawn operation and returns the model input and
	// output. It is called once per repetition.
	fresh func(p program) func(g int) func(i int, sp opSpec) (in, out any)
	// finish post-processes a complete history (pointer identities -> ids) and
	// fills rec.Res.
	finish   func(recs []rec)
	model    porcupine.Model
	describe func(in, out any) string
}

var spinSink atomic.Uint64

func spin(n int) {
	x := uint64(n)
	for i := 0; i < n; i++ {
		x = x*6364136223846793005 + 1442695040888963407
	}
	if x == 42 {
		spinSink.Add(1)
	}
}

// runReps executes the program reps times, each time on a fresh object, with one
// real goroutine per program goroutine. The goroutines live for all repetitions
// and meet at a briefly spinning (every 8th repetition: then blocking) barrier before every repetition, so the repetitions
// start aligned and cost microseconds (spawning goroutines per repetition costs
// a thread wake-up each, which limits the number of schedules that can be
// sampled). The drawn yields and spins then shift the operations against each
// other.
//
// Invocation and response stamps come from one atomic counter per repetition:
// the invocation stamp is taken before the call and the response stamp after it
// returned, so "Ret(a) < Call(b)" implies that a really returned before b was
// invoked (the recorded intervals contain the real ones; that only weakens the
// real-time constraint, never strengthens it).
func runReps(p program, st *structure, reps int) [][]rec {
	n := len(p.G)
	execs := make([][]func(i int, sp opSpec) (any, any), reps)
	for r := range execs {
		perG := st.fresh(p)
		execs[r] = make([]func(i int, sp opSpec) (any, any), n)
		for g := range execs[r] {
			execs[r][g] = perG(g)
		}
	}
	clocks := make([]atomic.Int64, reps)
	out := make([][][]rec, reps)
	for r := range out {
		out[r] = make([][]rec, n)
	}
	const syncEvery = 8
	arrivals := make([]struct {
		v atomic.Int32
		_ [60]byte // one cache line per counter
	}, reps)
	gates := make([]chan struct{}, (reps+syncEvery-1)/syncEvery)
	for i := range gates {
		gates[i] = make(chan struct{})
	}
	var wg sync.WaitGroup
	for g := range p.G {
		wg.Add(1)
		go func(g int) {
			defer wg.Done()
			ops := p.G[g]
			for r := 0; r < reps; r++ {
				do := execs[r][g]
				clock := &clocks[r]
				recs := make([]rec, 0, len(ops))
				// Barrier. The last arriver opens the gate; the others spin briefly: on an idle
				// machine everybody arrives within a microsecond and the repetition starts aligned.
				// If the spin runs out (busy machine: some thread is not on a processor), every
				// syncEvery-th repetition blocks on the gate - handing the processor back and
				// re-aligning everybody - and the others just proceed unaligned (their object and
				// clock are their own, so running ahead is harmless; the history is simply less
				// likely to overlap). A thread wake-up costs ~100 microseconds, a repetition ~5.
				cnt := &arrivals[r].v
				if cnt.Add(1) == int32(n) {
					if r%syncEvery == 0 {
						close(gates[r/syncEvery])
					}
				} else {
					open := false
					for i := 0; i < 400 && !open; i++ {
						open = cnt.Load() == int32(n)
					}
					if !open && r%syncEvery == 0 {
						<-gates[r/syncEvery]
					}
				}
				for i, sp := range ops {
					for y := 0; y < sp.Yield; y++ {
						runtime.Gosched()
					}
					spin(sp.Spin)
					c := clock.Add(1)
					in, o := do(i, sp)
					t := clock.Add(1)
					recs = append(recs, rec{G: g, I: i, In: in, Out: o, Call: c, Ret: t})
				}
				out[r][g] = recs
				vk.Progress()
			}
		}(g)
	}
	wg.Wait()
	hist := make([][]rec, reps)
	for r := range hist {
		var all []rec
		for _, recs := range out[r] {
			all = append(all, recs...)
		}
		sort.Slice(all, func(i, j int) bool { return all[i].Call < all[j].Call })
		st.finish(all)
		hist[r] = all
	}
	return hist
}

// checkAll asks porcupine about every history (in parallel: the checks are
// independent) and returns the index of the first non-linearizable one, or -1.
func checkAll(st *structure, hist [][]rec) int {
	workers := min(4, max(1, runtime.GOMAXPROCS(0)/vk.Shards()))
	bad := make([]bool, len(hist))
	var next atomic.Int64
	var wg sync.WaitGroup
	for w := 0; w < workers; w++ {
		wg.Add(1)
		go func() {
			defer wg.Done()
			for {
				i := int(next.Add(1)) - 1
				if i >= len(hist) {
					return
				}
				bad[i] = !linearizable(st, hist[i])
			}
		}()
	}
	wg.Wait()
	for i, b := range bad {
		if b {
			return i
		}
	}
	return -1
}

// overlapped reports whether two operations of different goroutines that touch
// the same key/object (or of which one is a whole-structure operation) overlapped
// in real time according to the stamps - the non-triviality rule of C14 (a).
func overlapped(recs []rec) bool {
	for i := range recs {
		for j := i + 1; j < len(recs); j++ {
			a, b := &recs[i], &recs[j]
			if a.G == b.G {
				continue
			}
			if a.Call < b.Ret && b.Call < a.Ret && (a.Res == b.Res || a.Res == resAll || b.Res == resAll) {
				return true
			}
		}
	}
	return false
}

// linearizable decides whether the history has a sequential witness. Fast path:
// the operations in order of their invocation stamps (and, failing that, of their
// response stamps) are tried as the witness - both orders respect real time
// (Ret(a) < Call(b) implies Call(a) < Call(b) and Ret(a) < Ret(b)), so if the model
// accepts one of them it IS a sequential witness. Every other history, and in
// particular every negative verdict, is decided by porcupine.
func linearizable(st *structure, recs []rec) bool {
	if witness(st, recs, func(a, b *rec) bool { return a.Call < b.Call }) ||
		witness(st, recs, func(a, b *rec) bool { return a.Ret < b.Ret }) {
		return true
	}
	return porcupineSays(st, recs)
}

func witness(st *structure, recs []rec, less func(a, b *rec) bool) bool {
	order := make([]*rec, len(recs))
	for i := range recs {
		order[i] = &recs[i]
	}
	sort.Slice(order, func(i, j int) bool { return less(order[i], order[j]) })
	state := st.model.Init()
	for _, r := range order {
		ok, next := st.model.Step(state, r.In, r.Out)
		if !ok {
			return false
		}
		state = next
	}
	return true
}

func porcupineSays(st *structure, recs []rec) bool {
	ops := make([]porcupine.Operation, len(recs))
	for i, r := range recs {
		ops[i] = porcupine.Operation{ClientId: r.G, Input: r.In, Call: r.Call, Output: r.Out, Return: r.Ret}
	}
	return porcupine.CheckOperations(st.model, ops)
}

func historyString(st *structure, recs []rec) string {
	var b strings.Builder
	for _, r := range recs {
		fmt.Fprintf(&b, "  g%d#%d [%3d,%3d] %s\n", r.G, r.I, r.Call, r.Ret, st.describe(r.In, r.Out))
	}
	return b.String()
}

func replaying() bool {
	f := flag.Lookup("rapid.failfile")
	return f != nil && f.Value.String() != ""
}

// linProperty is the rapid property shared by the three structures. Each drawn
// program is executed reps times (fresh object each time) to sample schedules;
// every recorded history must have a sequential witness in the model.
//
// Schedules are not a function of the seed. To keep rapid's shrinking and its
// final re-run meaningful, a program that once produced a non-linearizable
// history fails again immediately with the recorded (real) history, and after
// the first failure - and when replaying a fail file - every program is repeated
// 10 times more often.
func linProperty(t *testing.T, st *structure, quickN, thoroughN, reps int) {
	sec := vk.Sec(t.Name())
	var mu sync.Mutex
	sticky := map[string]string{}
	boosted := replaying()
	vk.Check(t, quickN, thoroughN, func(rt *rapid.T) {
		p, focus := genProgram(rt, st.kinds)
		enc := p.encode(st.kinds)
		mu.Lock()
		failure := sticky[enc]
		n := reps
		if boosted {
			n *= 10
		}
		mu.Unlock()
		nOverlap := 0
		var sample []rec // a checked history of this program, preferably an overlapping one
		if failure == "" {
			// The operations of these structures do not wait for anything but each other: a program none of whose
			// goroutines ever comes back has no history at all, let alone one with a sequential witness (the
			// watchdog reports it when every goroutine is blocked; it does not judge slowness).
			var hist [][]rec
			vk.Guard(fmt.Sprintf("C14 %s linearizability violated: the program never completed - every goroutine is blocked inside an operation of the structure (or waiting for one that is)\nprogram: %s", st.name, enc), func() {
				hist = runReps(p, st, n)
			})
			if r := checkAll(st, hist); r >= 0 {
				failure = fmt.Sprintf("C14 %s linearizability violated: no sequential witness for this history (repetition %d of %d)\nprogram: %s\nhistory ([invocation,response] stamps of one atomic counter):\n%s",
					st.name, r+1, n, enc, historyString(st, hist[r]))
				mu.Lock()
				if !boosted {
					fmt.Println(failure) // first failure, before shrinking
				}
				sticky[enc] = failure
				boosted = true
				mu.Unlock()
			}
			sample = hist[0]
			for _, recs := range hist {
				if overlapped(recs) {
					nOverlap++
					sample = recs
				}
			}
		}
		if failure != "" {
			rt.Fatalf("%s", failure) // the only failure site, so rapid sees one traceback
		}
		cls := "unfocused"
		if focus {
			cls = "focused"
		}
		sec.Case(nOverlap > 0, vk.FP(enc), st.name+".programs."+cls, fmt.Sprintf("%s.goroutines=%d", st.name, len(p.G)))
		sec.ClassN(st.name+".histories", int64(n))
		sec.ClassN(st.name+".histories.overlapping", int64(nOverlap))
		sec.Sample(func() any {
			return map[string]any{"program": enc, "overlapping_histories": nOverlap, "of": n, "history": strings.Split(strings.TrimRight(historyString(st, sample), "\n"), "\n")}
		})
	})
}

// Tier sizes of part (a): programs per structure and repetitions per program.
func linPrograms() int         { return 2000 }
func linProgramsThorough() int { return 60000 }
func linReps() int             { return vk.Pick(60, 100) }
