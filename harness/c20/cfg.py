CFG = dict(
     claimed=True,
     rule="Cases: pools of 0..4 initial contexts (each live or already ended) x histories of up to 10 operations {end member i, "
          "Add(live|ended context), Cancel, Size, race(end member i || Add from two goroutines at one instant)} x finish "
          "{end all members | Cancel}, run inside a synctest bubble with a settle (synctest.Wait) after every step and compared "
          "with a reference model of tracked members (pool done <=> all tracked ended or Cancel; Size = tracked, 0 after Cancel; "
          "late contexts ignored; watcher goroutine gone at bubble exit). Exhaustive sweep of all histories of <=4 (thorough 5) ops "
          "from a 9-op menu. Non-trivial: an Add accepted while the pool was live, a raced Add, a member that ended while NewPool / "
          "Add was looking at it, or a member ended by the clock. Distinct by full history.",
     technique="model-based property testing (rapid, scripted histories in testing/synctest bubbles) + exhaustive short-history enumeration",
     level_text="Generated histories against a reference model with exact equality at every settled point; when an Add races the end "
                "of the last live member both outcomes the statement allows are accepted and told apart through Size. Schedule "
                "coverage of the racing pair is the Go scheduler's (statistical); everything else is deterministic.",
     level_note="Trusts testing/synctest (go1.26.8), the Go runtime and rapid. The watcher's exit is observed through the bubble's "
                "leftover-goroutine detection.",
     assumptions=["testing/synctest virtual time and Wait() are correct", "member contexts are the context package's own (WithCancel / WithCancelCause / WithDeadline / Background / WithValue / "
                  "WithoutCancel) or a wrapper of the harness's own type around one of them that answers every method as the wrapped context does"],
     timeout_quick=300, timeout_thorough=2400)
CFG["rule"] += ' One case in four is a large pool (up to 40 initial members, 70 operations).'
CFG["rule"] += (' One case in three hands every cancellable member over as a context of the harness\'s OWN TYPE (a wrapper whose '
                'Done / Err / Deadline / Value calls are counted and are schedule points): at the n-th call (1..4) of a method on '
                'member i another member, or the member itself, is ended before / after the method computes its result - so members '
                'end WHILE NewPool / Add are looking at them. A member that was live when such a call began and ended during it may or '
                'may not be counted by Size (a range, resolved once); if it was the last live member during an Add, the Add may go '
                'either way as in a race; everything else stays exact (all members ended => pool done, never earlier; watcher gone). '
                'Half of the cases have members that end by DEADLINE (context.WithDeadline; unit ms / s / h of the bubble\'s virtual '
                'clock; deadlines at odd, clock readings at even multiples of the unit): any member may have one, or EVERY initial '
                'context has one while contexts added later may have none or a later one; "tick" operations advance the clock, and '
                'the "members" finish first lets the clock pass every deadline and compares before ending what is left. '
                'TestPoolCallSchedules enumerates every single schedule point on pools of 1..3 initial contexts (NewPool) and on an '
                'Add to pools of 0..2; TestPoolDeadlineSweep enumerates pools of 0..3 initial contexts of {live, ended, deadline +1, '
                'deadline +3} x histories of <=3 (thorough 4) operations from {Add(no deadline | +1 | +5), tick +2 | +4, end 0 | 1}.')
