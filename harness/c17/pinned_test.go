package c17

import (
	"testing"

	"verifharness/vk"
)

// TestPinnedFindings re-runs the minimal cases of the defects this check found on
// the tree as it was pinned (repaired by "fix:" commits, see KNOWN_FINDINGS.txt).
func TestPinnedFindings(t *testing.T) {
	sec := vk.Sec("PinnedFindings")
	if vk.Shard() != 0 {
		return // deterministic and tiny: one shard runs them
	}
	for _, c := range []memCase{
		// PadPKCS7 appended into the caller's buffer; reached through CBC encryption and aescbcaead.Seal
		{Op: "padding.PadPKCS7", Alg: "block-16", Mode: "ok", Len: 0, Spare: []int{16}},
		{Op: "padding.PadPKCS7", Alg: "block-8", Mode: "ok", Len: 7, Spare: []int{1}},
		{Op: "crypto.EncryptSymmetric", Alg: "A128CBC", Mode: "ok", Len: 0, Spare: []int{16}},
		{Op: "crypto.Encrypt", Alg: "A256CBC", Mode: "ok", Len: 15, Spare: []int{1}},
		{Op: "crypto.EncryptSymmetric", Alg: "A128CBC-HS256", Mode: "ok", Len: 0, Spare: []int{64}},
		{Op: "aescbcaead.Seal", Alg: "A128CBC-HS256", Mode: "ok", Len: 0, Spare: []int{0, 64}, Dst: "nil"},
		{Op: "aescbcaead.Seal", Alg: "A256CBC-HS512", Mode: "ok", Len: 17, Spare: []int{0, 8, 15}, Dst: "sep"},
		// the AEAD decryption helpers appended the tag to the caller's ciphertext
		{Op: "crypto.DecryptSymmetric", Alg: "A128GCM", Mode: "ok", Len: 0, Spare: []int{64}},
		{Op: "crypto.DecryptSymmetric", Alg: "A128GCM", Mode: "badtag", Len: 16, Spare: []int{1}},
		{Op: "crypto.Decrypt", Alg: "A128CBC-HS256", Mode: "badpad", Len: 0, Spare: []int{64}},
		{Op: "crypto.DecryptSymmetric", Alg: "A192CBC-HS384", Mode: "tamper", Len: 33, Spare: []int{24}},
		{Op: "crypto.DecryptSymmetric", Alg: "C20P", Mode: "ok", Len: 5, Spare: []int{16}},
		{Op: "crypto.Decrypt", Alg: "XC20PKW", Mode: "tamper", Len: 32, Spare: []int{3}},
	} {
		for _, c.Mem = range memKinds {
			msg, st := checkMem(c)
			if msg != "" {
				t.Fatalf("C17 caller memory violated: %s\ncase: %s", msg, c)
			}
			sec.Case(st.nontrivial, c.fp(), st.classes...)
			sec.Sample(func() any { return c.String() })
		}
	}
}
