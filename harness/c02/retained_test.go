package c02

import (
	"bytes"
	"fmt"
	"testing"

	enc "github.com/dapr/kit/schemes/enc/v1"

	"verifharness/enckit"
	"verifharness/refenc"
	"verifharness/vk"
)

// A vault client that caches unwrapped keys hands Decrypt the SAME slice on every call. The slice is the vault's: after
// any number of decryptions it still holds the file key, genuine documents keep decrypting, and a document fabricated
// without any secret (header and segments under 32 zero bytes, genuine manifest) is still refused - a Decrypt that
// clears "its" copy of the key turns the cache into the all-zero key and makes that forgery verify.
func TestRetainedUnwrapKey(t *testing.T) {
	sec := vk.Sec("RetainedUnwrapKey")
	for _, cipher := range []int{refenc.CipherAESGCM, refenc.CipherChaCha20} {
		for _, L := range []int{0, 11, refenc.SegmentSize + 5} {
			for _, byKit := range []bool{false, true} {
				spec := docSpec{Len: L, Seed: uint64(L + cipher), Cipher: cipher, ByKit: byKit}
				d, err := spec.build()
				if err != nil {
					t.Fatalf("C02 harness: %v", err)
				}
				cache := bytes.Clone(d.fileKey)
				calls := 0
				unwrap := func(wrappedKey []byte, algorithm, keyName string, nonce, tag []byte) ([]byte, error) {
					calls++
					return cache, nil // the cached slice itself
				}
				name := fmt.Sprintf("retained{%s}", spec)
				forged := refenc.Encode([]byte("attacker chosen text"), make([]byte, 32), d.man, refenc.ManifestStyle{})
				for round := 0; round < 3; round++ {
					out, callErr, streamErr := enckit.Decrypt(name, bytes.NewReader(d.all), enc.DecryptOptions{UnwrapKeyFn: unwrap}, nil)
					if callErr != nil || streamErr != nil || !bytes.Equal(out, d.plain) {
						t.Fatalf("C02 round trip violated: decryption %d of the genuine document with a vault that hands out its cached key slice failed: callErr=%v streamErr=%v, %d of %d bytes\ncase: %s", round+1, callErr, streamErr, len(out), len(d.plain), name)
					}
					if !bytes.Equal(cache, d.fileKey) {
						t.Fatalf("C02 violated: after decryption %d the key slice returned by UnwrapKeyFn (owned by the callback) no longer holds the file key: %x\ncase: %s", round+1, cache, name)
					}
					fout, fcall, fstream := enckit.Decrypt(name+" forged", bytes.NewReader(forged), enc.DecryptOptions{UnwrapKeyFn: unwrap}, nil)
					if fcall == nil && fstream == nil {
						t.Fatalf("C02 violated: after %d genuine decryption(s) a document fabricated under the all-zero key was accepted and released %q\ncase: %s", round+1, fout, name)
					}
					if len(fout) > 0 {
						t.Fatalf("C02 no unauthenticated release violated: the fabricated document released %q before its error\ncase: %s", fout, name)
					}
				}
				sec.Case(true, vk.FP(name), "retained-unwrap-key")
				sec.Sample(func() any { return name })
			}
		}
	}
	sec.SetExhaustive()
}
