package c09

import (
	"context"
	"fmt"
	"runtime"
	"sync"
	"sync/atomic"
	"testing"
	"testing/synctest"
	"time"

	"github.com/dapr/kit/events/ratelimiting"
	"k8s.io/utils/clock"
	clocktesting "k8s.io/utils/clock/testing"
	"pgregory.net/rapid"

	"verifharness/vk"
)

// Clock calls as schedule points. The limiter asks its (injected) clock for a timer and stops / resets that timer from
// inside its run loop: every such call is a place where the harness, which owns the clock, can let something else
// happen - here an Add from another goroutine, issued just before or just after the clock call returns. The Add is given
// a bounded number of scheduler yields to get through (if the limiter holds its lock across the clock call the Add
// parks on it and takes effect afterwards: that is fine too). The oracle is timing-free: no Add is lost (after quiet
// steps a signal at or after the instant of the injected Add exists) and signals never exceed Adds.
type probeClock struct {
	clock.WithTicker
	on func(string)
}

func (p probeClock) NewTimer(d time.Duration) clock.Timer {
	p.on("NewTimer.before")
	t := probeTimer{p.WithTicker.NewTimer(d), p.on}
	p.on("NewTimer.after")
	return t
}

type probeTimer struct {
	clock.Timer
	on func(string)
}

func (t probeTimer) Stop() bool {
	t.on("Stop.before")
	r := t.Timer.Stop()
	t.on("Stop.after")
	return r
}

func (t probeTimer) Reset(d time.Duration) bool {
	t.on("Reset.before")
	r := t.Timer.Reset(d)
	t.on("Reset.after")
	return r
}

type cpCase struct {
	InitMS, MaxMul, Cap int
	MaxExtra            int
	Adds                int    // Adds before the clock is stepped to the window's end
	Point               string // which clock call
	Nth                 int    // which occurrence of it (1-based)
	Step                string // end | end+1ms | half-then-end
	StepFirst           bool   // the injected goroutine steps the clock beyond MaxDelay before its Add
}

func (c cpCase) String() string { return fmt.Sprintf("coalescing.clockpoint%+v", cpPlain(c)) }

type cpPlain cpCase

func runClockPoint(t *testing.T, c cpCase) (fired bool, err error) {
	var errs vk.Errs
	berr := vk.Bubble(t, c.String(), func() {
		init := time.Duration(c.InitMS) * time.Millisecond
		max := init*time.Duration(c.MaxMul) + time.Duration(c.MaxExtra)*time.Millisecond
		opts := ratelimiting.OptionsCoalescing{InitialDelay: &init, MaxDelay: &max}
		if c.Cap > 0 {
			cp := c.Cap
			opts.MaxPendingEvents = &cp
		}
		rl, nerr := ratelimiting.NewCoalescing(opts)
		if nerr != nil {
			errs.Failf("NewCoalescing: %v", nerr)
			return
		}
		base := time.Date(2024, 1, 1, 0, 0, 0, 0, time.UTC)
		fake := clocktesting.NewFakeClock(base)
		var mu sync.Mutex
		var got []time.Time
		var nadds int
		var injectedAt time.Time
		seen := 0
		var injected atomic.Bool
		var iwg sync.WaitGroup
		on := func(point string) {
			if point != c.Point || injected.Load() {
				return
			}
			mu.Lock()
			seen++
			hit := seen == c.Nth
			mu.Unlock()
			if !hit {
				return
			}
			injected.Store(true)
			mu.Lock()
			nadds++
			injectedAt = fake.Now()
			mu.Unlock()
			done := make(chan struct{})
			iwg.Add(1)
			go func() {
				defer iwg.Done()
				if c.StepFirst {
					// the loop is inside a handler (it is making this clock call): fire whatever timer is armed AND let
					// an Add arrive, so that the loop finds both its timer and its input ready when it selects again
					fake.Step(max + time.Millisecond)
				}
				rl.Add()
				close(done)
			}()
			for i := 0; i < 3000; i++ {
				select {
				case <-done:
					return
				default:
					runtime.Gosched()
				}
			}
		}
		rl.(ratelimiting.RateLimiterWithTicker).WithTicker(probeClock{fake, on})
		ctx, cancel := context.WithCancel(context.Background())
		defer cancel()
		ch := make(chan struct{})
		stop := make(chan struct{})
		var wg sync.WaitGroup
		wg.Add(1)
		errs.Go(func() {
			defer wg.Done()
			for {
				select {
				case <-ch:
					mu.Lock()
					got = append(got, fake.Now())
					mu.Unlock()
				case <-stop:
					return
				}
			}
		})
		wg.Add(1)
		errs.Go(func() { defer wg.Done(); _ = rl.Run(ctx, ch) })
		synctest.Wait()
		for i := 0; i < c.Adds; i++ {
			if injected.Load() {
				break // the injected Add stays the LAST one: a later Add's signal would cover a lost one (coalescing), and nobody could tell
			}
			mu.Lock()
			nadds++
			mu.Unlock()
			rl.Add()
			synctest.Wait()
		}
		switch c.Step {
		case "end":
			fake.Step(max)
		case "end+1ms":
			fake.Step(max + time.Millisecond)
		default:
			fake.Step(init / 2)
			synctest.Wait()
			fake.Step(max)
		}
		synctest.Wait()
		for i := 0; i < 4; i++ {
			fake.Step(max + time.Millisecond)
			synctest.Wait()
		}
		iwg.Wait()
		mu.Lock()
		sig, n, at := append([]time.Time(nil), got...), nadds, injectedAt
		mu.Unlock()
		fired = injected.Load()
		if len(sig) > n {
			errs.Failf("%d signals for %d Adds", len(sig), n)
			return
		}
		if fired && (len(sig) == 0 || sig[len(sig)-1].Before(at)) {
			errs.Failf("an Add issued from another goroutine while the limiter was inside the clock call %s (occurrence %d, at +%v) was never followed by a signal although the clock was stepped far beyond MaxDelay (%d Adds, signals at %v)", c.Point, c.Nth, at.Sub(base), n, relTo(sig, base))
			return
		}
		rl.Close()
		synctest.Wait()
		close(stop)
		wg.Wait()
	})
	if e := errs.Err(); e != nil {
		return fired, e
	}
	return fired, berr
}

func TestCoalescingClockCallPoints(t *testing.T) {
	sec := vk.Sec("CoalescingClockCallPoints")
	points := []string{"NewTimer.before", "NewTimer.after", "Stop.before", "Stop.after", "Reset.before", "Reset.after"}
	vk.Check(t, 3000, 300000, func(rt *rapid.T) {
		c := cpCase{InitMS: rapid.SampledFrom([]int{2, 10}).Draw(rt, "initMS"), MaxMul: rapid.SampledFrom([]int{1, 2, 4}).Draw(rt, "maxMul"), Cap: rapid.SampledFrom([]int{0, 0, 2, 3}).Draw(rt, "cap"),
			Adds: rapid.IntRange(1, 4).Draw(rt, "adds"), Point: rapid.SampledFrom(points).Draw(rt, "point"), Nth: rapid.IntRange(1, 4).Draw(rt, "nth"),
			Step: rapid.SampledFrom([]string{"end", "end+1ms", "half-then-end"}).Draw(rt, "step")}
		c.MaxExtra = genMaxExtra(rt, c.InitMS)
		c.StepFirst = rapid.Bool().Draw(rt, "stepFirst")
		fired, err := runClockPoint(t, c)
		if err != nil {
			rt.Fatalf("C09 coalescing rate limiter violated: %v\ncase: %s", err, c)
		}
		cls := "clockpoint.not-reached"
		if fired {
			cls = "clockpoint." + c.Point
		}
		sec.Case(fired, vk.FP(c.String()), cls)
		sec.Sample(func() any { return c.String() })
	})
}
