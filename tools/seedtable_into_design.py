#!/usr/bin/env python3
"""Regenerates the table of DESIGN.md 7.7 between the SEEDTABLE markers."""
import os, re, subprocess
ROOT = os.path.dirname(os.path.dirname(os.path.abspath(__file__)))
tab = subprocess.check_output(["python3", os.path.join(ROOT, "tools", "seedtable.py")], text=True)
p = os.path.join(ROOT, "DESIGN.md")
s = open(p).read()
s = re.sub(r"<!-- SEEDTABLE BEGIN -->.*<!-- SEEDTABLE END -->", lambda m: "<!-- SEEDTABLE BEGIN -->\n" + tab + "<!-- SEEDTABLE END -->", s, flags=re.S)
open(p, "w").write(s)
