package c05

import (
	"fmt"
	"sync"
	"testing"
	"time"

	"github.com/dapr/kit/cron"
	clocktesting "k8s.io/utils/clock/testing"
	"pgregory.net/rapid"

	"verifharness/vk"
)

// A cron with a job-wrapper chain (WithChain: DelayIfStillRunning, SkipIfStillRunning, Recover) and entries whose jobs
// run for a while (each run blocks until the harness releases it). The wrappers are documented per job: a still-running
// job delays or skips the later runs OF THAT JOB. What other entries do must not change when an entry's job is started:
// an entry whose own previous run has finished is started at every one of its activation instants, whatever the other
// entries' jobs are doing. Model per entry: at an activation the run starts at once if the entry has no unfinished run;
// otherwise it is skipped (Skip), queued behind it (Delay), or started anyway (no serialising wrapper).
type chainCase struct {
	Chain   string // none | recover | delay | skip | recover+delay
	Entries int
	Steps   []chainStep
}

type chainStep struct {
	Kind  string // tick (one activation instant for every entry) | finish (entry E's oldest running job returns)
	Entry int
}

func (c chainCase) String() string {
	s := ""
	for _, st := range c.Steps {
		if st.Kind == "tick" {
			s += " tick"
		} else {
			s += fmt.Sprintf(" finish(e%d)", st.Entry)
		}
	}
	return fmt.Sprintf("cron.chain{chain=%s entries=%d steps=[%s ]}", c.Chain, c.Entries, s)
}

type chainOut struct{ blockedOther, delayed, skipped int }

func runChain(t *testing.T, c chainCase) (out chainOut, err error) {
	var errs vk.Errs
	berr := vk.Bubble(t, c.String(), func() {
		fake := clocktesting.NewFakeClock(time.Date(2024, 1, 1, 0, 0, 0, 0, time.UTC))
		var ws []cron.JobWrapper
		switch c.Chain {
		case "recover":
			ws = append(ws, cron.Recover(quietLogger{}))
		case "delay":
			ws = append(ws, cron.DelayIfStillRunningWithClock(quietLogger{}, fake))
		case "skip":
			ws = append(ws, cron.SkipIfStillRunning(quietLogger{}))
		case "recover+delay":
			ws = append(ws, cron.Recover(quietLogger{}), cron.DelayIfStillRunningWithClock(quietLogger{}, fake))
		}
		opts := []cron.Option{cron.WithClock(fake), cron.WithLocation(time.UTC), cron.WithLogger(quietLogger{})}
		if len(ws) > 0 {
			opts = append(opts, cron.WithChain(ws...))
		}
		cr := cron.New(opts...)
		var mu sync.Mutex
		started := make([]int, c.Entries)           // runs of the entry's own job that have begun
		gates := make([][]chan struct{}, c.Entries) // one gate per begun, unfinished run
		for i := 0; i < c.Entries; i++ {
			cr.Schedule(cron.Every(time.Second), cron.FuncJob(func() {
				g := make(chan struct{})
				mu.Lock()
				started[i]++
				gates[i] = append(gates[i], g)
				mu.Unlock()
				<-g
			}))
		}
		// (a run queued by DelayIfStillRunning waits on a mutex, which the bubble does not count as durably blocked:
		// quiescence is established from stack snapshots instead of synctest.Wait)
		settle := func() {
			if p, e := vk.SettleStacks(); e != nil {
				errs.Failf("%v\n%s", e, p.Dump)
			}
		}
		cr.Start()
		settle()
		// model
		want := make([]int, c.Entries)    // runs that must have begun
		running := make([]int, c.Entries) // begun and unfinished
		queued := make([]int, c.Entries)  // Delay: activations waiting behind the running one
		serial := c.Chain == "delay" || c.Chain == "recover+delay"
		check := func(step string) bool {
			settle()
			mu.Lock()
			defer mu.Unlock()
			for i := range want {
				if started[i] != want[i] {
					others := ""
					for j := range running {
						if j != i && running[j] > 0 {
							others += fmt.Sprintf(" e%d(%d running)", j, running[j])
						}
					}
					errs.Failf("after %s: the job of entry %d has been started %d times, want %d (its own runs still unfinished: %d; other entries with unfinished runs:%s)", step, i, started[i], want[i], running[i], others)
					return false
				}
			}
			return true
		}
		for n, st := range c.Steps {
			step := fmt.Sprintf("step %d", n)
			switch st.Kind {
			case "tick":
				step += " tick"
				anyRunning := false
				for i := range running {
					if running[i] > 0 {
						anyRunning = true
					}
				}
				for i := range want {
					switch {
					case running[i] == 0:
						want[i]++
						running[i]++
						if anyRunning {
							out.blockedOther++
						}
					case serial:
						queued[i]++
						out.delayed++
					case c.Chain == "skip":
						out.skipped++
					default:
						want[i]++
						running[i]++
					}
				}
				fake.Step(time.Second)
			case "finish":
				i := st.Entry % c.Entries
				step += fmt.Sprintf(" finish(e%d)", i)
				mu.Lock()
				var g chan struct{}
				if len(gates[i]) > 0 {
					g = gates[i][0]
					gates[i] = gates[i][1:]
				}
				mu.Unlock()
				if g == nil {
					continue
				}
				close(g)
				running[i]--
				if serial && queued[i] > 0 {
					queued[i]--
					want[i]++
					running[i]++
				}
			}
			if !check(step) {
				break
			}
		}
		// release everything (queued runs begin one after the other as their predecessors return)
		for round := 0; round < 200; round++ {
			settle()
			mu.Lock()
			n := 0
			for i := range gates {
				for _, g := range gates[i] {
					close(g)
					n++
				}
				gates[i] = nil
			}
			mu.Unlock()
			if n == 0 {
				break
			}
		}
		<-cr.Stop().Done()
	})
	if e := errs.Err(); e != nil {
		return out, e
	}
	return out, berr
}

func TestCronChainsPerEntry(t *testing.T) {
	sec := vk.Sec("CronChainsPerEntry")
	vk.Check(t, 600, 60000, func(rt *rapid.T) {
		c := chainCase{Chain: rapid.SampledFrom([]string{"none", "recover", "delay", "delay", "skip", "skip", "recover+delay"}).Draw(rt, "chain"), Entries: rapid.IntRange(1, 3).Draw(rt, "entries")}
		n := rapid.IntRange(1, 14).Draw(rt, "steps")
		for i := 0; i < n; i++ {
			if rapid.IntRange(0, 2).Draw(rt, "kind") == 0 {
				c.Steps = append(c.Steps, chainStep{Kind: "finish", Entry: rapid.IntRange(0, c.Entries-1).Draw(rt, "entry")})
			} else {
				c.Steps = append(c.Steps, chainStep{Kind: "tick"})
			}
		}
		out, err := runChain(t, c)
		if err != nil {
			rt.Fatalf("C05 cron runner violated: %v\ncase: %s", err, c)
		}
		cls := []string{"chain." + c.Chain}
		if out.blockedOther > 0 {
			cls = append(cls, "chain.started-while-another-entry-runs")
		}
		if out.delayed > 0 {
			cls = append(cls, "chain.delayed-behind-own-run")
		}
		if out.skipped > 0 {
			cls = append(cls, "chain.skipped-behind-own-run")
		}
		sec.Case(out.blockedOther > 0, vk.FP(c.String()), cls...)
		sec.Sample(func() any { return c.String() })
	})
}
