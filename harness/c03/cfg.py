CFG = dict(
     claimed=True,
     rule="draft",
     assumptions=["draft"],
     technique="draft", level_text="draft", level_note="draft",
     timeout_quick=600, timeout_thorough=2400)
