CFG = dict(
     claimed=True,
     rule="Cases: histories of up to 25 steps over {Schedule(custom periodic schedule with period 1..10 s and phase | @every Ns | "
          "'*/N * * * * *' | one-shot; job returns at once or blocks until released), Remove(i), Entries/Entry, Start, Stop, restart, "
          "release(i), clock step}. Settled mode: k8s FakeClock inside a synctest bubble, steps exactly to / 1 ns before / halfway to "
          "the next activation or jumping 13 s / 61 s beyond it (several activations), settle after every step; oracle = reference "
          "scheduler (next/prev per entry; on a wake at T every entry with next <= T starts once): the multiset of (entry, start "
          "instant) and every Entries()/Entry() snapshot must equal the model after every step, nothing starts after Stop, the "
          "context returned by Stop is done only when the jobs started before it have returned. Racy mode: real (virtual) clock; "
          "the controller sleeps to exactly an activation instant and issues its next call without settling, so call and wake-up "
          "race; oracle: activations strictly inside (added, removed) x running intervals are started exactly once at exactly that "
          "instant, those at the instant of a call may or may not be, nothing else ever starts, prev = last start, next = next "
          "activation. Non-trivial: >= 1 start and an add/remove while running, a jump, a blocked job at Stop, or a restart. "
          "Distinct by history.",
     technique="model-based property testing (rapid; scripted histories in testing/synctest bubbles against a reference scheduler; racing calls placed at activation instants)",
     level_text="Exact model equality at every settled step (complete set of job starts vs. activation instants, snapshots), plus "
                "order-insensitive accounting for calls racing a wake-up. Which side wins a race is the Go scheduler's choice.",
     level_note="Trusts testing/synctest, the k8s FakeClock (settled mode only, where a fired timer is always consumed before the next "
                "operation) and rapid. API calls are issued from one goroutine (happens-before ordered, as doc.go requires).",
     assumptions=["testing/synctest virtual time is correct", "k8s.io/utils/clock/testing FakeClock fires timers on Step"],
     timeout_quick=300, timeout_thorough=2400)
CFG["rule"] += ' Added after independently written breaking changes: The scheduler is started through Start() or the blocking Run(); entries are added through Schedule or, as spec text, through AddFunc/AddJob (seconds-enabled parser, Cron location).'
CFG["rule"] += ' Callback points with two callers: Stop (or Entries) is already waiting for the scheduler when Remove is called from a third goroutine; a Remove that returns inside the wake-up is judged like any returned Remove.'
CFG["rule"] += ' TestCronLoggerPoints: the scheduler\'s "stop" report as a schedule point (wait for Stop to return, restart through Start or Run, then the next Stop must hold). TestCronChainsPerEntry: WithChain(Recover / DelayIfStillRunning / SkipIfStillRunning) with jobs that run until released, per-entry model (non-trivial: an entry started while another entry\'s job runs). Callback points with Entries and Stop both waiting: both return.'
CFG["rule"] += ' TestCronParallelSchedule: 8 goroutines add entries at once (stopped and running cron): all ids differ, Entries lists all, removing one leaves the others started.'
CFG["rule"] += ' TestCronPanicUnderChain: WithChain(Recover outermost, alone or with DelayIfStillRunning / SkipIfStillRunning inside), 1..3 entries (Every / "@every Ns" / "*/N * * * * *") whose jobs return at once and panic on drawn activations (always one panic that is followed by a later activation): after every virtual second each entry has one start per activation that was due, also after a recovered panic, and the context returned by Stop is done (only accepted deviation, recorded as a class: SkipIfStillRunning keeps its token when the job panics, so Recover+Skip skips the activations after a panic).'
CFG["rule"] += ' Since fix 1af4e5c (SkipIfStillRunning hands its token back when the job panics) no deviation is accepted under Recover+Skip either.'
