CFG = dict(
     claimed=True,
     race=True,
     rule="Case = one drawn cast of 8..32 workers (drawn up front: kind, repetitions 1..6, seed, yields, microsecond sleeps and the kind's "
          "parameters): enc/v1 Encrypt->Decrypt pipelines (message length classes 0, 1, small, 64 KiB x {1,2,3} -1/0/+1, up to 200000; own "
          "message, cipher, key name 1..330 characters and wrapped-key padding 0..1500 bytes so that every header has a different size; xor or "
          "real A256KW wrap callbacks; kit Encrypt -> kit Decrypt, or a document of the independent reference encoder under the worker's own "
          "32-byte file key -> kit Decrypt; tampered MAC / failing or wrong unwrap / damaged last segment, whose FAILURES are results too; "
          "chunked sources and consumers; an unwrap callback that yields and sleeps between header parsing and MAC verification), "
          "byteslicepool Get/fill/verify/Resize/Put cycles on the cast's shared pool (styles append and resize; style keep = a caller that goes on "
          "using slices it never put back: it fills the slice from Get, passes it to a chain of 0..2 GROWING Resize calls (size = capacity + 0..5000, "
          "so a new slice must be allocated; Resize does not consume its argument), writes into each new slice, optionally takes a SECOND slice "
          "with Get while all earlier ones are still held, waits (the other users' window), then verifies that every held slice still contains "
          "exactly what the worker wrote, and finally puts the outgrown slices back - the `defer pool.Put(buf)` idiom - or leaves them to the "
          "garbage collector, each slice put at most once), crypto.Encrypt/Decrypt over the 19 symmetric "
          "algorithms, SignPrivateKey/VerifyPublicKey over the 10 signature algorithms (Ed25519 keys of the worker's own), RSA "
          "EncryptPublicKey/DecryptPrivateKey, cron.ParseStandard (package-level parser) or an own cron.Parser + chained Next + "
          "cron.PrintfLogger, logger.NewLogger by distinct names with own output buffers plus same-name and cast-wide shared-name look-ups. "
          "EXTRA class, outside the letter of the statement and labelled EXTRA(object-level) in the class counters: aead workers - all aead workers "
          "of a cast with the same variant (the four aescbcaead.NewAESCBC*SHA* constructors, key expanded from the cast's aeadkey) call Seal/Open, "
          "1..40 times per repetition, on ONE shared cipher.AEAD object, each with its own nonce, additional data, plaintexts and dst prefix, and "
          "also Open a damaged tag and other additional data (must be rejected); in the solo phase the worker has an AEAD object of its own with the same key. "
          "Every worker first runs ALONE; then all run at once behind a start barrier (1..3 rounds, GOMAXPROCS 16; thorough also 2, 4, 8) "
          "in a binary built with -race. Non-trivial: at least two state-sharing pipelines (two enc pipelines on BufPool, two "
          "byteslicepool workers, or - EXTRA class - two aead workers on the same AEAD object) were inside a repetition at the same time, "
          "measured with an active-counter. Distinct by the full cast "
          "encoding. Section TestPinnedHeaderBufferReuse: rounds of a fixed cast of 24 enc workers (counted as one distinct case).",
     assumptions=["Go runtime, sync/atomic, the race detector (a data race report anywhere in the process is a violation) and rapid v1.3.0 are correct",
                  "which interleavings occur is decided by the Go scheduler and the hardware: schedule coverage is statistical, a failing cast may not fail again "
                  "(replay re-runs the saved cast up to 40 times; the cast printed before the concurrent phase is the artefact)",
                  "independent objects: each worker owns its message, keys, jwk.Key objects, callbacks, parser, output buffers and its named logger; "
                  "logger-wide settings that are shared by design (ApplyOptionsToLoggers) are not exercised; the cast-wide shared logger name is only looked up",
                  "byteslicepool: the doc comment of Get does not promise an empty slice, so len(Get()) is only compared with the worker's own solo run; "
                  "no zeroing claim; a slice is the worker's own between Get and Put; no claim about the capacity Get returns (the size of a growing Resize is "
                  "derived from the capacity at hand and never enters a result)",
                  "byteslicepool.Resize does not take ownership of its argument: its comment says that the old, too small slice is discarded 'so it can be garbage "
                  "collected', and the pool has no other way of knowing when the caller is done with it; a caller may therefore read the slice it passed in, put it "
                  "back later (once) or drop it. A growing Resize returns the requested length with the old content first (the only reading of 'resize'); nothing "
                  "is asserted about the bytes beyond the old length. Slices above 128 KiB are not put back by the keep workers (harness resource bound)",
                  "EXTRA class (shared AEAD): C08 speaks of independent objects and package-level state; one AEAD object used by several goroutines is object-level "
                  "shared state. It is included because crypto/cipher's AEADs (GCM, ChaCha20-Poly1305) are safe for concurrent use, callers keep and share the value "
                  "returned by aescbcaead.NewAESCBC*SHA*, and the effect is the one the statement names - one caller's bytes in another caller's result or failure. "
                  "Its counters are prefixed EXTRA(object-level); a violation of this class alone says 'shared-AEAD' in the failing worker's result",
                  "results that are random by specification (file key, PSS/ECDSA signatures, RSA ciphertexts) are compared through their verification / decryption, not byte for byte"],
     technique="property-based stress-differential testing (rapid-drawn casts, real goroutines, race detector): each worker's concurrent results "
               "are compared with its own solo run; an independent reference decoder (refenc) and the standard library verify what kit produced concurrently",
     level_text="Generated-input search over casts of concurrent pipelines on the real code, under the race detector. Oracle: per-repetition "
                "result (plaintext digest, error text, ciphertext length, reference-decoder verdict, signature verification, Next instants, log lines, "
                "Get length and slice content, content of every pooled slice still held after growing Resize / second Get, shared-AEAD round trips "
                "and rejections) equal to the same worker's solo result; no panic in any worker; no data race report. "
                "Schedules are sampled (yields and sleeps at the points where pooled buffers are outstanding, 16 processors), not enumerated: no absence claim.",
     level_note="Trusts the Go runtime, the race detector, rapid and the harness' reference encoder/decoder (refenc, self-checked against the repository's fixtures).",
     timeout_quick=900, timeout_thorough=3000)
CFG["rule"] += " One cast in three runs its first concurrent phase COLD, before anything of it has run alone (first use of every lazily built table or cache entry happens under concurrency); time-zone names are drawn from the whole tz database; sym/sig/rsa workers carry key IDs, the same ID on different keys; results are also compared with the reference result under the worker's own key (mark BROKEN). TestSymHammer: every symmetric algorithm name, 4-16 goroutines with own keys, thousands of calls each, exact per-call reference oracle."
CFG["rule"] += (" FAILING pipelines next to pipelines that must succeed: an enc worker may carry a failure kind (about one worker in seven; "
                "in the failure-heavy casting style, 2 casts in 13, two enc workers in three), i.e. its pipeline fails at its caller's own doing "
                "in one of the ways the API documents, and the failure text is its result: key name, decryption key name or wrapped key so long "
                "that the header cannot fit in 64 KiB (key names of 66000..90000 characters, and key names within 450 characters of the bound, "
                "which fit or not), unknown Algorithm / Cipher names, missing KeyName / WrapKeyFn / UnwrapKeyFn, a wrap callback that returns an "
                "error or an empty key, OmitKeyName without a key name for Decrypt, a plaintext or document source that fails with an error of its "
                "own after 0..1000 permille of its bytes, a document cut at 0..1000 permille (truncated input). sym workers likewise: unknown "
                "algorithm name, nonce one byte too long, key eight bytes too long, damaged tag / ciphertext given to Decrypt; sig and rsa workers: "
                "unknown algorithm name. Already in the SOLO phase (workers run one after the other in cast order) every enc worker without "
                "failure kind and tamper must round-trip, whatever failed before it. OWN workers (kind own): a caller keeps what a package "
                "function returned to it and scribbles over it in place (sort, reverse, overwrite every element, in-place filter list[:0]+append, "
                "delete the first element, clear) - targets: crypto.SupportedSymmetricAlgorithms / SupportedAsymmetricAlgorithms / "
                "SupportedSignatureAlgorithms ([]string), enc.KeyAlgorithm.MarshalJSON / enc.Cipher.MarshalJSON ([]byte), cron.ParseStandard and an "
                "own Parser's Parse of fixed descriptors and field lists (*cron.SpecSchedule: the fields are swapped, overwritten, masked, zeroed). "
                "Its result is the content of a FRESH call before and after the scribbling, marked BROKEN when it is not what the first call of "
                "the process returned (captured for every target before any worker has scribbled over anything), and marked BROKEN when the "
                "worker's own scribbled result changes while the worker holds it.")
CFG["assumptions"].append("what a call returned is the caller's to keep and modify: none of crypto.Supported*Algorithms, KeyAlgorithm/Cipher.MarshalJSON, "
                          "cron.ParseStandard / Parser.Parse documents that its result is shared or read-only, and SpecSchedule's fields are exported")
CFG["assumptions"].append("failing pipelines: only failures the caller provokes through documented inputs (options, callbacks, streams); which of the borderline key names "
                          "fit in the header is not asserted, only that the outcome equals the worker's solo outcome")
CFG["rule"] += ' Cron workers also log through a sink that keeps format and arguments and renders them after the repetition; month and day names come in spellings of their own per worker, and families of such specs run cold.'
