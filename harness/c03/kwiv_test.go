package c03

import (
	"fmt"
	"testing"

	kit "github.com/dapr/kit/crypto"

	"verifharness/refcrypto"
	"verifharness/vk"
)

// The integrity value of RFC 3394 is internal to the wrapped key: flipping ciphertext bytes scrambles all of it at
// once, so a check that compares only PART of it survives every byte-flip sweep. Here an independent implementation
// wraps under initial values that differ from A6A6A6A6A6A6A6A6 in exactly one byte (every position, several masks) or
// in one half: the unwrapped integrity value then differs from the expected one in just those bytes, and Unwrap -
// directly and through the A*KW algorithm names - must reject every one of them.
func TestKeyWrapForeignInitialValue(t *testing.T) {
	sec := vk.Sec("KeyWrapForeignInitialValue")
	def := [8]byte{0xA6, 0xA6, 0xA6, 0xA6, 0xA6, 0xA6, 0xA6, 0xA6}
	var ivs [][8]byte
	for pos := 0; pos < 8; pos++ {
		for _, mask := range []byte{0x01, 0x80, 0xFF, 0xA6} {
			iv := def
			iv[pos] ^= mask
			ivs = append(ivs, iv)
		}
	}
	hi, lo := def, def
	for i := 0; i < 4; i++ {
		hi[i], lo[4+i] = 0, 0
	}
	ivs = append(ivs, hi, lo, [8]byte{}, [8]byte{0xA6, 0x59, 0x59, 0xA6, 0xA6, 0xA6, 0xA6, 0xA6})
	for _, kl := range []int{16, 24, 32} {
		alg := map[int]string{16: "A128KW", 24: "A192KW", 32: "A256KW"}[kl]
		for _, n := range []int{2, 3, 4, 8, 50} {
			kek := vk.Expand(uint64(kl*100+n), kl)
			pt := vk.Expand(uint64(kl*1000+n), 8*n)
			for i, iv := range ivs {
				ct, err := refcrypto.KeyWrapIV(kek, pt, iv)
				if err != nil {
					t.Fatalf("harness: reference wrap: %v", err)
				}
				name := fmt.Sprintf("kwiv{kek=%d blocks=%d iv=%x}", kl, n, iv)
				if out, uerr, pnc := kwUnwrap(kek, ct); pnc != nil || uerr == nil {
					t.Fatalf("C03 tamper rejection violated: aeskw.Unwrap accepted a key wrapped under the initial value %x (returned %d bytes, err=%v, panic=%v)\ncase: %s", iv, len(out), uerr, pnc, name)
				}
				if out, derr := kit.DecryptSymmetric(ct, alg, octKey(kek), nil, nil, nil); derr == nil {
					t.Fatalf("C03 tamper rejection violated: DecryptSymmetric(%s) accepted a key wrapped under the initial value %x (returned %d bytes)\ncase: %s", alg, iv, len(out), name)
				}
				sec.Case(true, vk.FP(name), "kw.foreign-initial-value")
				if i == 0 {
					sec.Sample(func() any { return name })
				}
			}
		}
	}
	sec.SetExhaustive()
}
