package c07

import (
	"fmt"
	"strings"
	"testing"
	"time"
	_ "time/tzdata" // zones are embedded: the check works offline from a fresh restore

	"github.com/dapr/kit/cron"
	"pgregory.net/rapid"

	"verifharness/vk"
)

// ---------------------------------------------------------------- entry points: cron Parse (every option set), Next

const cronStarBit = 1 << 63

// cronCase is one input of the cron group.
type cronCase struct {
	Std      bool // cron.ParseStandard; otherwise cron.NewParser(Opt).Parse
	Opt      int
	Spec     string
	Instants []time.Time
	// Budget bounds the number of Next calls on a schedule whose seconds set is
	// empty (the slow legitimate search: seconds of five years, second by second).
	SlowBudget int
}

func (c cronCase) String() string {
	var ts []string
	for _, t := range c.Instants {
		ts = append(ts, t.Format(time.RFC3339Nano)+"["+t.Location().String()+"]")
	}
	p := fmt.Sprintf("NewParser(%#x)", c.Opt)
	if c.Std {
		p = "ParseStandard"
	}
	return fmt.Sprintf("cron{parser=%s spec=%q instants=%v}", p, c.Spec, ts)
}

// twoOptionals is the documented programmer-misuse panic of NewParser.
func twoOptionals(opt int) bool {
	return cron.ParseOption(opt)&cron.SecondOptional != 0 && cron.ParseOption(opt)&cron.DowOptional != 0
}

// runCron parses the spec and, if a schedule comes back, asks it for the next
// activation from every instant.
func runCron(c cronCase) *report {
	r := newReport(c.String)
	var (
		s   cron.Schedule
		err error
	)
	ok := r.call("cron.Parse", func() {
		if c.Std {
			s, err = cron.ParseStandard(c.Spec)
		} else {
			s, err = cron.NewParser(cron.ParseOption(c.Opt)).Parse(c.Spec)
		}
	})
	if !ok {
		return r
	}
	if err != nil || s == nil {
		r.class("cron:refused")
		return r
	}
	r.nontrivial()
	r.class("cron:accepted")
	instants := c.Instants
	if ss, isSpec := s.(*cron.SpecSchedule); isSpec {
		if ss.Location != time.Local && ss.Location != time.UTC {
			r.class("cron:zone-prefix")
		}
		if ss.Second&^cronStarBit == 0 {
			r.class("cron:empty-seconds-set")
			if len(instants) > c.SlowBudget {
				instants = instants[:c.SlowBudget]
			}
		} else if ss.Minute&^cronStarBit == 0 || ss.Hour&^cronStarBit == 0 || ss.Dom&^cronStarBit == 0 || ss.Month&^cronStarBit == 0 || ss.Dow&^cronStarBit == 0 {
			r.class("cron:empty-set")
			// an empty minutes set is searched minute by minute through five years (about half a second): one instant
			if ss.Minute&^cronStarBit == 0 && len(instants) > 1 {
				instants = instants[:1]
			}
		}
	} else {
		r.class("cron:constant-delay")
	}
	for _, t := range instants {
		var next time.Time
		if !r.call("Schedule.Next", func() { next = s.Next(t) }) {
			return r
		}
		if next.IsZero() {
			r.class("cron:next-none")
		} else {
			r.class("cron:next-found")
		}
	}
	return r
}

// ---------------------------------------------------------------- generator

var (
	cronBounds = [6][2]int{{0, 59}, {0, 59}, {0, 23}, {1, 31}, {1, 12}, {0, 6}}
	cronMonths = []string{"jan", "feb", "mar", "apr", "may", "jun", "jul", "aug", "sep", "oct", "nov", "dec"}
	cronDows   = []string{"sun", "mon", "tue", "wed", "thu", "fri", "sat"}
	// zones of a TZ=/CRON_TZ= prefix: real ones (with the transitions that broke the search before
	// 7b1d61c), the special names, and names that must be refused
	cronZones = []string{"UTC", "America/New_York", "Pacific/Apia", "Australia/Lord_Howe", "Europe/Dublin", "Asia/Kathmandu",
		"Pacific/Kiritimati", "America/Asuncion", "Africa/Casablanca", "Antarctica/Troll", "Etc/GMT+12", "Local", "",
		"Nowhere/Land", "utc", "../etc/passwd", "/etc/localtime", "America", "posixrules", "UTC\x00", "Europe/Berlin/", strings.Repeat("Z", 300)}
	cronDescriptors = []string{"@yearly", "@annually", "@monthly", "@weekly", "@daily", "@midnight", "@hourly",
		"@every 1s", "@every 1h30m", "@every 90m", "@every 1ns", "@every 0", "@every -5s", "@every 1.5h", "@every 2540400h", "@every 9223372036854775807ns",
		"@every 9223372036854775808ns", "@every", "@every ", "@every  1s", "@every\t1s", "@every 1", "@every 1d", "@every 1h1", "@every .5s", "@every 1e3s",
		"@", "@@daily", "@Daily", "@daily ", "@daily x", "@dailyx", "@every 1s 1s", "@reboot"}
	cronHostileNumbers = []string{"60", "61", "99", "100", "-1", "-0", "+1", "007", "0x10", "1e1", "1.0", "2147483648", "4294967296", "9223372036854775807",
		"9223372036854775808", "18446744073709551616", "99999999999999999999999999", "", " ", "٣", "１"}
	cronHostileTerms = []string{"-", "/", "1-", "-1", "1/", "/2", "1-2-3", "1/2/3", "*-5", "*/*", "*/0", "*/-1", "5-1", "?/2", "?-3", "**", "*?", "L", "1W", "5#3",
		"mon-fri", "jan-dec/2", "foo", "mond", "sunday", "1-foo", "*/99999999999999999999", "0-59/18446744073709551615", "1-2/9223372036854775807"}
	cronAlphabet = []byte("*/-,?@ \t\n0123456789abcdefjmnostuvyTZCRON_=.:+")
)

func genCronNumber(rt *rapid.T, f int) string {
	lo, hi := cronBounds[f][0], cronBounds[f][1]
	switch k := rapid.IntRange(0, 39).Draw(rt, "numKind"); {
	case k == 0:
		return rapid.SampledFrom(cronHostileNumbers).Draw(rt, "hostileNumber")
	case k == 1:
		return fmt.Sprint(rapid.SampledFrom([]int{lo - 1, hi + 1, 0, lo, hi}).Draw(rt, "edgeNumber"))
	case k <= 8 && f == 4:
		return recase(rt, rapid.SampledFrom(cronMonths).Draw(rt, "monthName"))
	case k <= 8 && f == 5:
		return recase(rt, rapid.SampledFrom(cronDows).Draw(rt, "dowName"))
	case k == 9:
		return fmt.Sprintf("%03d", rapid.IntRange(lo, hi).Draw(rt, "n"))
	}
	return fmt.Sprint(rapid.IntRange(lo, hi).Draw(rt, "n"))
}

func recase(rt *rapid.T, s string) string {
	switch rapid.IntRange(0, 2).Draw(rt, "case") {
	case 0:
		return s
	case 1:
		return strings.ToUpper(s)
	}
	return strings.ToUpper(s[:1]) + s[1:]
}

// genCronRange draws "a-b", ordered most of the time.
func genCronRange(rt *rapid.T, f int) string {
	if rapid.IntRange(0, 5).Draw(rt, "rangeKind") == 0 {
		return genCronNumber(rt, f) + "-" + genCronNumber(rt, f)
	}
	a := rapid.IntRange(cronBounds[f][0], cronBounds[f][1]).Draw(rt, "lo")
	b := rapid.IntRange(a, cronBounds[f][1]).Draw(rt, "hi")
	return fmt.Sprintf("%d-%d", a, b)
}

func genCronTerm(rt *rapid.T, f int) string {
	switch k := rapid.IntRange(0, 47).Draw(rt, "termKind") / 2; {
	case k == 0:
		if rapid.Bool().Draw(rt, "hostile") {
			return rapid.SampledFrom(cronHostileTerms).Draw(rt, "hostileTerm")
		}
		return genCronNumber(rt, f)
	case k <= 6:
		return genCronNumber(rt, f)
	case k <= 9:
		return genCronRange(rt, f)
	case k <= 12:
		return rapid.SampledFrom([]string{"*", "*", "?"}).Draw(rt, "star")
	case k <= 15:
		return rapid.SampledFrom([]string{"*", "?"}).Draw(rt, "star") + "/" + genCronNumber(rt, 0)
	case k <= 18:
		return genCronNumber(rt, f) + "/" + genCronNumber(rt, 0)
	}
	return genCronRange(rt, f) + "/" + genCronNumber(rt, 0)
}

func genCronField(rt *rapid.T, f int) string {
	switch k := rapid.IntRange(0, 39).Draw(rt, "fieldKind"); {
	case k == 0:
		// a field of separators only: accepted with an EMPTY value set. In the seconds field that is the slow
		// legitimate search (4 s per Next), so it is drawn rarely there; TestCronEmptySets pins it.
		if f != 0 || rapid.IntRange(0, 19).Draw(rt, "emptySeconds") == 0 {
			return rapid.SampledFrom([]string{",", ",,", ",,,"}).Draw(rt, "commas")
		}
		return genCronTerm(rt, f)
	case k == 1:
		return rapid.SampledFrom([]string{"1,,2", ",1", "1,", "*,", ",*"}).Draw(rt, "commaEdge")
	case k <= 30:
		return genCronTerm(rt, f)
	}
	n := rapid.IntRange(2, 4).Draw(rt, "listLen")
	terms := make([]string, n)
	for i := range terms {
		terms[i] = genCronTerm(rt, f)
	}
	return strings.Join(terms, ",")
}

// placesOf lists the fields a parser option set reads, in order.
func placesOf(opt int, std bool) []int {
	if std {
		return []int{1, 2, 3, 4, 5}
	}
	o := cron.ParseOption(opt)
	var out []int
	if o&(cron.Second|cron.SecondOptional) != 0 {
		out = append(out, 0)
	}
	for i, p := range []cron.ParseOption{cron.Minute, cron.Hour, cron.Dom, cron.Month} {
		if o&p != 0 {
			out = append(out, i+1)
		}
	}
	if o&(cron.Dow|cron.DowOptional) != 0 {
		out = append(out, 5)
	}
	return out
}

var namedCronOpts = []int{
	int(cron.Minute | cron.Hour | cron.Dom | cron.Month | cron.Dow | cron.Descriptor),                       // the standard parser
	int(cron.Minute | cron.Hour | cron.Dom | cron.Month | cron.Dow),                                         // ... without descriptors
	int(cron.Second | cron.Minute | cron.Hour | cron.Dom | cron.Month | cron.Dow | cron.Descriptor),         // cron.WithSeconds
	int(cron.SecondOptional | cron.Minute | cron.Hour | cron.Dom | cron.Month | cron.Dow | cron.Descriptor), // doc.go "Alternative Formats"
	int(cron.Second | cron.Minute | cron.Hour | cron.Dom | cron.Month | cron.DowOptional | cron.Descriptor),
	int(cron.Minute | cron.Hour | cron.Dom | cron.Month | cron.DowOptional | cron.Descriptor),
	int(cron.Dom | cron.Month | cron.Dow),         // NewParser doc example
	int(cron.Dom | cron.Month | cron.DowOptional), // NewParser doc example
	int(cron.SecondOptional),                // only an optional field: zero to one fields
	int(cron.DowOptional | cron.Descriptor), // likewise
	0,                                       // no field at all
	int(cron.Descriptor),                    // descriptors only
	int(cron.Second | cron.SecondOptional | cron.Minute), // both flags of one field
	int(cron.Dow | cron.DowOptional | cron.Hour),         // both flags of one field
	1 << 9, 1<<9 | int(cron.Minute|cron.Hour), 1<<30 | 63, // bits the package does not define
}

// genCronOpt draws a parser: ParseStandard, a named option set or any bit
// combination. NewParser with both optional fields panics by documentation:
// that is the caller's program text, not an input, and is excluded here.
func genCronOpt(rt *rapid.T, sec *vk.Section) (std bool, opt int) {
	switch k := rapid.IntRange(0, 9).Draw(rt, "parserKind"); {
	case k < 2:
		return true, 0
	case k < 7:
		opt = rapid.SampledFrom(namedCronOpts).Draw(rt, "namedOpt")
	default:
		opt = rapid.IntRange(0, 1023).Draw(rt, "optBits")
	}
	if twoOptionals(opt) {
		sec.Exclude("NewParser-two-optionals(documented)")
		if rapid.Bool().Draw(rt, "dropOptional") {
			opt &^= int(cron.SecondOptional)
		} else {
			opt &^= int(cron.DowOptional)
		}
	}
	return false, opt
}

func genCronZone(rt *rapid.T) string {
	if rapid.IntRange(0, 3).Draw(rt, "zoneKind") > 0 {
		return rapid.SampledFrom(cronZones[:11]).Draw(rt, "zone")
	}
	return rapid.SampledFrom(cronZones).Draw(rt, "zone")
}

func genCronSpec(rt *rapid.T, std bool, opt int) string {
	var body string
	switch k := rapid.IntRange(0, 19).Draw(rt, "specKind"); {
	case k < 2:
		body = rapid.SampledFrom(cronDescriptors).Draw(rt, "descriptor")
	case k == 2:
		body = rapid.SampledFrom([]string{"", " ", "\t", "\n", "  \t ", "\x00", "\xff\xfe", "*", "* * * * * * * * * * * *", strings.Repeat("* ", 4000), strings.Repeat("1,", 5000) + "1 * * * *"}).Draw(rt, "degenerate")
	default:
		places := placesOf(opt, std)
		// the right number of fields most of the time (one less is right for an omitted optional field)
		switch rapid.IntRange(0, 15).Draw(rt, "fieldCount") {
		case 0:
			if len(places) > 0 {
				places = places[1:]
			}
		case 1:
			if len(places) > 0 {
				places = places[:len(places)-1]
			}
		case 2:
			places = append(places, 5)
		case 3:
			places = append([]int{0}, places...)
		}
		sep := rapid.SampledFrom([]string{" ", " ", " ", "  ", "\t", " \t ", "\n"}).Draw(rt, "separator")
		fields := make([]string, len(places))
		for i, f := range places {
			fields[i] = genCronField(rt, f)
		}
		body = strings.Join(fields, sep)
		if rapid.IntRange(0, 9).Draw(rt, "pad") == 0 {
			body = " " + body + " "
		}
	}
	prefix := ""
	switch k := rapid.IntRange(0, 19).Draw(rt, "tzKind"); {
	case k < 5:
		prefix = "TZ=" + genCronZone(rt) + " "
	case k < 7:
		prefix = "CRON_TZ=" + genCronZone(rt) + " "
	case k == 7:
		// damaged prefixes; "TZ=UTC" alone panicked before f49076e
		prefix = rapid.SampledFrom([]string{"TZ=UTC", "CRON_TZ=UTC", "TZ=", "CRON_TZ=", "TZ= ", "TZ", "TZ =UTC ", "tz=UTC ", "TZ==UTC ", "TZ=UTC\t", "TZ=UTC  ",
			"TZ=UTC TZ=UTC ", "CRON_TZ=UTC TZ=Asia/Tokyo ", " TZ=UTC ", "TZ=UTC=x ", "TZ=\x00 "}).Draw(rt, "damagedPrefix")
	}
	spec := prefix + body
	if rapid.IntRange(0, 3).Draw(rt, "mutate") == 0 {
		spec = string(applyEdits([]byte(spec), genEdits(rt, "spec", 2, cronAlphabet), cronAlphabet))
	}
	return spec
}

var cronLocNames = []string{"UTC", "America/New_York", "Pacific/Apia", "Australia/Lord_Howe", "Asia/Tokyo", "Europe/London"}

func mustLoc(name string) *time.Location {
	l, err := time.LoadLocation(name)
	if err != nil {
		panic("C07 harness: zone " + name + ": " + err.Error())
	}
	return l
}

// fixedInstants are start instants every accepted schedule is asked from.
func fixedInstants() []time.Time {
	apia := mustLoc("Pacific/Apia")
	ny := mustLoc("America/New_York")
	return []time.Time{
		time.Date(2024, 2, 28, 23, 59, 59, 999999999, time.UTC),
		time.Date(2011, 12, 29, 12, 0, 0, 0, apia), // the day Apia skipped
		time.Date(2021, 3, 14, 1, 59, 59, 0, ny),   // before a DST gap
		time.Date(2099, 12, 31, 23, 59, 59, 0, time.UTC),
		{}, // the zero time
		time.Date(9999, 12, 31, 23, 59, 59, 0, time.UTC),
		time.Unix(0, 0).In(time.FixedZone("", -(11*3600 + 1800))),
	}
}

func genInstants(rt *rapid.T) []time.Time {
	fixed := fixedInstants()
	n := rapid.IntRange(1, 3).Draw(rt, "instants")
	out := make([]time.Time, 0, n)
	for i := 0; i < n; i++ {
		if rapid.Bool().Draw(rt, "fixedInstant") {
			out = append(out, fixed[rapid.IntRange(0, len(fixed)-1).Draw(rt, "which")])
			continue
		}
		sec := rapid.Int64Range(631152000, 2208988800).Draw(rt, "unix") // 1990 .. 2040
		ns := rapid.SampledFrom([]int64{0, 1, 999999999, 500000000}).Draw(rt, "ns")
		var loc *time.Location
		if rapid.IntRange(0, 4).Draw(rt, "locKind") == 0 {
			loc = time.FixedZone("", rapid.IntRange(-14*4, 14*4).Draw(rt, "quarterHours")*900)
		} else {
			loc = mustLoc(rapid.SampledFrom(cronLocNames).Draw(rt, "loc"))
		}
		out = append(out, time.Unix(sec, ns).In(loc))
	}
	return out
}

func TestCronParseNext(t *testing.T) {
	sec := vk.Sec(t.Name())
	vk.Check(t, 15000, 120000, func(rt *rapid.T) {
		c := cronCase{SlowBudget: 1}
		c.Std, c.Opt = genCronOpt(rt, sec)
		c.Spec = genCronSpec(rt, c.Std, c.Opt)
		c.Instants = genInstants(rt)
		r := runCron(c)
		settle(rt, sec, r, vk.FP("cron", c.Std, c.Opt, c.Spec))
	})
}

// TestCronEmptySets pins the slowest legitimate search (an accepted schedule
// whose seconds set is empty) under the deadline, for every field in turn.
func TestCronEmptySets(t *testing.T) {
	sec := vk.Sec(t.Name())
	opt := namedCronOpts[2]
	for f := 0; f < 6; f++ {
		fields := []string{"*", "*", "*", "*", "*", "*"}
		fields[f] = ","
		for i, at := range fixedInstants()[:3] {
			if f == 0 && i > 0 && !vk.Thorough() {
				continue
			}
			if !vk.Mine(f*3 + i) {
				continue
			}
			c := cronCase{Opt: opt, Spec: strings.Join(fields, " "), Instants: []time.Time{at}, SlowBudget: 1}
			t0 := time.Now()
			r := runCron(c)
			r.class(fmt.Sprintf("empty-field-%d", f))
			settle(t, sec, r, vk.FP("emptyset", f, i))
			if d := time.Since(t0); d > 2*time.Second {
				t.Logf("slow legitimate search: %v for %s", d, c)
			}
		}
	}
}

// ---------------------------------------------------------------- native fuzz target

func FuzzCronParse(f *testing.F) {
	std := uint16(1 << 15)
	for _, s := range []string{"* * * * *", "0 0 1 1 *", "*/15 0-6,18-23 * jan-mar mon", "TZ=UTC", "CRON_TZ=UTC", "TZ=UTC * * * * *", "TZ=Pacific/Apia 0 12 31 12 *",
		"@every 1h30m", "@daily", "@every", "", " ", ",", ", * * * *", "1,,2 * * * *", "*/0 * * * *", "60 * * * *", "5-1 * * * *", "* * * * * *", "? ? ? ? ?",
		"99999999999999999999 * * * *", "*/99999999999999999999 * * * *", "TZ= * * * * *", "TZ=Local * * * * *", "TZ=Nowhere/Land * * * * *"} {
		f.Add(std, s)
		f.Add(uint16(namedCronOpts[2]), "0 "+s)
		f.Add(uint16(namedCronOpts[3]), s)
		f.Add(uint16(namedCronOpts[7]), s)
	}
	f.Add(uint16(0), " ")
	f.Add(uint16(cron.SecondOptional), "")
	f.Add(uint16(cron.DowOptional|cron.Descriptor), "@hourly")
	sec := fuzzSec("FuzzCronParse")
	instants := fixedInstants()
	f.Fuzz(func(t *testing.T, opt uint16, spec string) {
		c := cronCase{Std: opt&(1<<15) != 0, Opt: int(opt &^ (1 << 15)), Spec: spec, Instants: instants[:5]}
		if !c.Std && twoOptionals(c.Opt) {
			c.Opt &^= int(cron.SecondOptional) // documented misuse panic of NewParser: not an input
		}
		// The fuzzing engine declares a target that runs for 10 s deadlocked. The slow legitimate search
		// (empty seconds set, seconds of five years) is therefore left to the rapid property and its 60 s bound.
		c.SlowBudget = 0
		if !fuzzing() {
			c.SlowBudget = 1
		}
		r := runCron(c)
		settle(t, sec, r, vk.FP("cron", c.Std, c.Opt, c.Spec))
	})
}

// TestCronManyZones: a process that parses expressions for MANY distinct time zones (more than any plausible cache in
// front of the zone database holds), several times over, in both prefix forms and through both kinds of parser; every
// call must return. (A history-dependent hang or crash needs the history.)
func TestCronManyZones(t *testing.T) {
	sec := vk.Sec(t.Name())
	loadable := 0
	for round := 0; round < 3; round++ {
		for i, z := range allZoneNames {
			if _, err := time.LoadLocation(z); err != nil {
				continue
			}
			if round == 0 {
				loadable++
			}
			prefix := []string{"TZ=", "CRON_TZ="}[(i+round)%2]
			spec := prefix + z + " " + []string{"0 12 * * *", "@daily", "*/5 * 1 * MON"}[(i+round)%3]
			c := cronCase{Std: (i+round)%2 == 0, Opt: int(namedCronOpts[0]), Spec: spec, Instants: []time.Time{time.Date(2024, 3, 9, 23, 59, 30, 0, time.UTC)}, SlowBudget: 1}
			settle(t, sec, runCron(c), vk.FP("manyzones", round, z))
		}
	}
	if loadable < 300 {
		t.Fatalf("C07 harness: only %d loadable zones", loadable)
	}
}
