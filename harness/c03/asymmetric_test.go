package c03

import (
	"bytes"
	"crypto/rsa"
	"fmt"
	"strings"
	"testing"

	kit "github.com/dapr/kit/crypto"
	"pgregory.net/rapid"

	"verifharness/refcrypto"
	"verifharness/vk"
)

func baseName(n string) string { return strings.TrimSuffix(n, ".pub") }

// ------------------------------------------------------------------ RSA encryption

type rsaCase struct {
	API      string // pub: EncryptPublicKey/DecryptPrivateKey; generic: Encrypt/Decrypt
	Alg      string
	EncKey   string
	DecKey   string
	PtLen    int
	LabelLen int
	Seed     uint64
	Mut      *mutation // ct, aad (the OAEP label)
}

func (c rsaCase) String() string {
	m := "none"
	if c.Mut != nil {
		m = c.Mut.String()
	}
	return fmt.Sprintf("rsaenc{api=%s alg=%s encKey=%s decKey=%s pt=%d label=%d seed=%#x mut=%s}", c.API, c.Alg, c.EncKey, c.DecKey, c.PtLen, c.LabelLen, c.Seed, m)
}

func (c rsaCase) fp() uint64 {
	m := "none"
	if c.Mut != nil {
		m = c.Mut.String()
	}
	return vk.FP("rsaenc", c.API, c.Alg, c.EncKey, c.DecKey, c.PtLen, c.LabelLen, m)
}

func checkRSA(c rsaCase) (string, caseStat) {
	var st caseStat
	spec, ok := refcrypto.RSAEnc(c.Alg)
	if !ok {
		return "harness: no specification for " + c.Alg, st
	}
	rnd := vk.Expand(c.Seed, c.PtLen+c.LabelLen)
	pt, label := rnd[:c.PtLen], rnd[c.PtLen:]
	ek, dk := keyByName(c.EncKey), keyByName(c.DecKey)

	// ---- encryption (a private RSA key is fine too: kit derives the public key)
	enc := kitEncrypt(c.API, pt, c.Alg, ek.JWK, nil, label)
	if enc.pnc != nil {
		return fmt.Sprintf("encryption panicked: %v", enc.pnc), st
	}
	if enc.err != nil && len(enc.ct) != 0 || len(enc.tag) != 0 {
		return "encryption returned output alongside an error (or a tag): " + enc.String(), st
	}
	var exp expectErr
	if ek.Kind != "rsa" {
		exp.add("key kind", kit.ErrKeyTypeMismatch)
	} else if c.PtLen > spec.MaxMessage(ek.Pub.(*rsa.PublicKey).Size()) {
		exp.add("plaintext too long", nil)
	}
	if exp.any() {
		if msg := exp.check(enc.err); msg != "" {
			return "ill-formed encryption: " + msg + "; got " + enc.String(), st
		}
		st.classes = append(st.classes, "rsa.illformed."+exp.wrong[0])
	} else {
		if enc.err != nil {
			return "well-formed encryption failed: " + enc.String(), st
		}
		// kit encrypts -> peer decrypts
		back, err := spec.Decrypt(ek.Priv.(*rsa.PrivateKey), enc.ct, label)
		if err != nil || !bytes.Equal(back, pt) {
			return fmt.Sprintf("the independent implementation cannot decrypt kit's output %x: %x, %v", enc.ct, back, err), st
		}
		st.classes = append(st.classes, "rsa.kit-to-peer")
		st.nontrivial = c.PtLen > 0
	}

	// ---- decryption
	var dexp expectErr
	if dk.Kind != "rsa" || !dk.Private {
		dexp.add("key kind", kit.ErrKeyTypeMismatch)
	}
	if dexp.any() {
		ct := vk.Expand(c.Seed^0xdec, 256)
		if !exp.any() {
			ct = enc.ct
		}
		dec := kitDecrypt(c.API, ct, c.Alg, dk.JWK, nil, nil, label)
		if dec.pnc != nil {
			return fmt.Sprintf("decryption with a key of the wrong kind panicked: %v", dec.pnc), st
		}
		if msg := dexp.check(dec.err); msg != "" {
			return "decryption with a key of the wrong kind: " + msg + "; got " + dec.String(), st
		}
		if len(dec.pt) != 0 {
			return "decryption returned output alongside an error: " + dec.String(), st
		}
		st.classes = append(st.classes, "rsa.dec.wrongkind")
		return "", st
	}
	priv := dk.Priv.(*rsa.PrivateKey)
	if c.PtLen > spec.MaxMessage(priv.Size()) {
		return "", st
	}
	// peer encrypts -> kit decrypts
	peerCt, err := spec.Encrypt(&priv.PublicKey, pt, label)
	if err != nil {
		return "harness: peer encryption failed: " + err.Error(), st
	}
	dec := kitDecrypt(c.API, peerCt, c.Alg, dk.JWK, nil, nil, label)
	if dec.pnc != nil || dec.err != nil || !bytes.Equal(dec.pt, pt) {
		return fmt.Sprintf("kit cannot decrypt the independent implementation's output: %s want %x", dec, pt), st
	}
	st.classes = append(st.classes, "rsa.peer-to-kit")
	st.nontrivial = st.nontrivial || c.PtLen > 0
	// kit -> kit when the keys match
	if !exp.any() && baseName(c.EncKey) == baseName(c.DecKey) {
		dec = kitDecrypt(c.API, enc.ct, c.Alg, dk.JWK, nil, nil, label)
		if dec.pnc != nil || dec.err != nil || !bytes.Equal(dec.pt, pt) {
			return fmt.Sprintf("decryption does not invert encryption: %s want %x", dec, pt), st
		}
		st.classes = append(st.classes, "rsa.roundtrip")
	}
	if c.Mut == nil {
		return "", st
	}
	comps := map[string][]byte{"ct": peerCt, "aad": label}
	if !c.Mut.feasible(len(comps[c.Mut.Comp])) {
		return "", st
	}
	comps[c.Mut.Comp] = c.Mut.apply(comps[c.Mut.Comp])
	dec = kitDecrypt(c.API, comps["ct"], c.Alg, dk.JWK, nil, nil, comps["aad"])
	if dec.pnc != nil {
		return fmt.Sprintf("decryption of a changed input panicked: %v", dec.pnc), st
	}
	if dec.err != nil && len(dec.pt) != 0 {
		return "decryption returned output alongside an error: " + dec.String(), st
	}
	if !spec.OAEP() {
		// PKCS#1 v1.5 encryption is not authenticated and ignores the label
		st.classes = append(st.classes, "rsa.mut.unasserted")
		return "", st
	}
	if dec.err == nil {
		return fmt.Sprintf("changed %s accepted by %s: %s (original plaintext %x)", c.Mut.Comp, c.Alg, dec, pt), st
	}
	st.nontrivial = true
	st.classes = append(st.classes, "rsa.reject."+c.Mut.Comp+"."+c.Mut.Kind)
	return "", st
}

var rsaPrivNames = []string{"rsa2048", "rsa3072", "rsa2047", "rsa2055"}

// TestRSAEncSweep: 5 algorithms x entry point x RSA key x message length {0, 1, max-1,
// max, max+1, modulus size} x label {none, 7 bytes} (encrypting with the public and the
// private form of the key); every key of a wrong kind on either side; for OAEP every
// 8th byte of the ciphertext changed, truncations, extensions and label changes.
func TestRSAEncSweep(t *testing.T) {
	sec := vk.Sec("RSAEncSweep")
	idx := 0
	run := func(c rsaCase) {
		idx++
		if !vk.Mine(idx) {
			return
		}
		msg, st := checkRSA(c)
		if msg != "" {
			t.Fatalf("C03 RSA encryption violated: %s\ncase: %s", msg, c)
		}
		sec.Case(st.nontrivial, c.fp(), st.classes...)
		sec.Sample(func() any { return c.String() })
	}
	for _, s := range refcrypto.RSAEncSpecs {
		for _, api := range []string{"pub", "generic"} {
			for _, kn := range rsaPrivNames {
				k := keyByName(kn).Priv.(*rsa.PrivateKey).Size()
				mx := s.MaxMessage(k)
				for _, pl := range []int{0, 1, mx - 1, mx, mx + 1, k} {
					for li, ll := range []int{0, 7} {
						encKey := kn + ".pub"
						if li == 1 {
							encKey = kn
						}
						run(rsaCase{API: api, Alg: s.Name, EncKey: encKey, DecKey: kn, PtLen: pl, LabelLen: ll, Seed: uint64(pl + ll)})
					}
				}
			}
			for _, k := range keysAll() {
				if k.Kind != "rsa" {
					run(rsaCase{API: api, Alg: s.Name, EncKey: k.Name, DecKey: "rsa2048", PtLen: 20, Seed: 5})
				}
				if k.Kind != "rsa" || !k.Private {
					run(rsaCase{API: api, Alg: s.Name, EncKey: "rsa2048.pub", DecKey: k.Name, PtLen: 20, LabelLen: 2, Seed: 6})
				}
			}
		}
		for _, kn := range rsaPrivNames {
			k := keyByName(kn).Priv.(*rsa.PrivateKey).Size()
			var muts []mutation
			for p := 0; p < k; p += 8 {
				muts = append(muts, mutation{Comp: "ct", Kind: "flip", Pos: p, Mask: 1 << (p / 8 % 8)})
			}
			muts = append(muts, mutation{Comp: "ct", Kind: "flip", Pos: k - 1, Mask: 1})
			for _, n := range []int{1, 2, k / 2, k - 1, k} {
				muts = append(muts, mutation{Comp: "ct", Kind: "trunc", N: n})
			}
			for _, n := range []int{1, 8, k} {
				muts = append(muts, mutation{Comp: "ct", Kind: "ext", N: n})
			}
			for p := 0; p < 7; p++ {
				muts = append(muts, mutation{Comp: "aad", Kind: "flip", Pos: p, Mask: 0x10})
			}
			muts = append(muts, mutation{Comp: "aad", Kind: "trunc", N: 1}, mutation{Comp: "aad", Kind: "trunc", N: 7}, mutation{Comp: "aad", Kind: "ext", N: 1})
			for i, m := range muts {
				mm := m
				run(rsaCase{API: []string{"pub", "generic"}[i%2], Alg: s.Name, EncKey: kn + ".pub", DecKey: kn, PtLen: 24, LabelLen: 7, Seed: uint64(i), Mut: &mm})
			}
			run(rsaCase{API: "pub", Alg: s.Name, EncKey: kn + ".pub", DecKey: kn, PtLen: 24, LabelLen: 0, Seed: 1, Mut: &mutation{Comp: "aad", Kind: "ext", N: 1}})
		}
	}
}

func TestRSAEncRapid(t *testing.T) {
	sec := vk.Sec("RSAEncRapid")
	names := keyNames()
	vk.Check(t, 400, 60000, func(rt *rapid.T) {
		s := rapid.SampledFrom(refcrypto.RSAEncSpecs).Draw(rt, "alg")
		c := rsaCase{API: rapid.SampledFrom([]string{"pub", "generic"}).Draw(rt, "api"), Alg: s.Name, Seed: rapid.Uint64().Draw(rt, "seed")}
		kn := rapid.SampledFrom(rsaPrivNames).Draw(rt, "rsaKey")
		c.EncKey, c.DecKey = kn+".pub", kn
		if rapid.Bool().Draw(rt, "encWithPrivate") {
			c.EncKey = kn
		}
		switch rapid.IntRange(0, 11).Draw(rt, "keyClass") {
		case 0:
			c.EncKey = rapid.SampledFrom(names).Draw(rt, "encKey")
		case 1:
			c.DecKey = rapid.SampledFrom(names).Draw(rt, "decKey")
		}
		mx := s.MaxMessage(keyByName(kn).Priv.(*rsa.PrivateKey).Size())
		c.PtLen = rapid.OneOf(rapid.IntRange(0, mx), rapid.IntRange(0, 40), rapid.IntRange(mx-2, mx+3)).Draw(rt, "ptLen")
		c.LabelLen = rapid.OneOf(rapid.Just(0), rapid.IntRange(0, 40)).Draw(rt, "labelLen")
		c.Mut = genMutation(rt, []string{"ct", "ct", "aad"})
		msg, st := checkRSA(c)
		if msg != "" {
			rt.Fatalf("C03 RSA encryption violated: %s\ncase: %s", msg, c)
		}
		sec.Case(st.nontrivial, c.fp(), st.classes...)
		sec.Sample(func() any { return c.String() })
	})
}

// ------------------------------------------------------------------ signatures

type sigCase struct {
	Alg       string
	SignKey   string
	VerifyKey string
	MsgLen    int // EdDSA: message length; otherwise the digest has the length the algorithm names
	Seed      uint64
	Mut       *mutation // digest, sig
}

func (c sigCase) String() string {
	m := "none"
	if c.Mut != nil {
		m = c.Mut.String()
	}
	return fmt.Sprintf("sig{alg=%s signKey=%s verifyKey=%s msg=%d seed=%#x mut=%s}", c.Alg, c.SignKey, c.VerifyKey, c.MsgLen, c.Seed, m)
}

func (c sigCase) fp() uint64 {
	m := "none"
	if c.Mut != nil {
		m = c.Mut.String()
	}
	return vk.FP("sig", c.Alg, c.SignKey, c.VerifyKey, c.MsgLen, m)
}

func sigKindOK(s refcrypto.SigSpec, k keyInfo) bool {
	switch s.Family {
	case "rs", "ps":
		return k.Kind == "rsa"
	case "es":
		return k.Kind == "ec"
	case "ed":
		return k.Kind == "okp-ed"
	}
	return false
}

// sigKeyExpect: what is wrong with key k for algorithm s (needPrivate: signing).
func sigKeyExpect(s refcrypto.SigSpec, k keyInfo, needPrivate bool) (exp expectErr) {
	switch {
	case !sigKindOK(s, k):
		exp.add("key kind", kit.ErrKeyTypeMismatch)
	case needPrivate && !k.Private:
		exp.add("public key where a private key is needed", kit.ErrKeyTypeMismatch)
	case !s.KeyOK(k.Pub):
		// right kind, wrong size (curve): the statement asks for an error; which one is not defined
		exp.add("key size (curve "+k.Curve+")", nil)
	}
	return exp
}

func checkSig(c sigCase) (string, caseStat) {
	var st caseStat
	spec, ok := refcrypto.Sig(c.Alg)
	if !ok {
		return "harness: no specification for " + c.Alg, st
	}
	n := spec.DigestLen()
	if n == 0 {
		n = c.MsgLen
	}
	digest := vk.Expand(c.Seed, n)
	sk, vkey := keyByName(c.SignKey), keyByName(c.VerifyKey)

	// ---- signing
	so := kitSign(digest, c.Alg, sk.JWK)
	if so.pnc != nil {
		return fmt.Sprintf("signing panicked: %v", so.pnc), st
	}
	if so.err != nil && len(so.sig) != 0 {
		return "signing returned output alongside an error: " + so.String(), st
	}
	sexp := sigKeyExpect(spec, sk, true)
	if sexp.any() {
		if msg := sexp.check(so.err); msg != "" {
			return "signing with an unsuitable key (" + sexp.String() + "): " + msg + "; got " + so.String(), st
		}
		st.classes = append(st.classes, "sig.sign.illformed")
	} else {
		if so.err != nil {
			return "signing failed: " + so.String(), st
		}
		// kit signs -> peer verifies
		if !spec.Verify(sk.Pub, digest, so.sig) {
			return fmt.Sprintf("the independent implementation rejects kit's signature %x over %x", so.sig, digest), st
		}
		if spec.Family == "rs" || spec.Family == "ed" {
			want, err := spec.Sign(sk.Priv, digest)
			if err != nil || !bytes.Equal(want, so.sig) {
				return fmt.Sprintf("deterministic signature differs from the independent implementation: kit %x peer %x (%v)", so.sig, want, err), st
			}
		}
		st.nontrivial = len(digest) > 0
		st.classes = append(st.classes, "sig.kit-to-peer."+spec.Family)
	}

	// ---- verification
	vexp := sigKeyExpect(spec, vkey, false)
	if vexp.any() {
		sig := so.sig
		if len(sig) == 0 {
			sig = vk.Expand(c.Seed^0x516, 64)
		}
		vo := kitVerify(digest, sig, c.Alg, vkey.JWK)
		if vo.pnc != nil {
			return fmt.Sprintf("verification with an unsuitable key panicked: %v", vo.pnc), st
		}
		if vo.ok {
			return "verification with an unsuitable key (" + vexp.String() + ") returned true: " + vo.String(), st
		}
		if msg := vexp.check(vo.err); msg != "" {
			return "verification with an unsuitable key (" + vexp.String() + "): " + msg + "; got " + vo.String(), st
		}
		st.classes = append(st.classes, "sig.verify.illformed")
		return "", st
	}
	// the verification key is suitable. Which signature do we present?
	var sig []byte
	matching := false
	if !sexp.any() {
		sig, matching = so.sig, baseName(c.SignKey) == baseName(c.VerifyKey)
	}
	// peer signs with the verification key's own private half -> kit verifies
	peerSig, err := spec.Sign(vkey.Priv, digest)
	if err != nil {
		return "harness: peer signing failed: " + err.Error(), st
	}
	vo := kitVerify(digest, peerSig, c.Alg, vkey.JWK)
	if vo.pnc != nil || vo.err != nil || !vo.ok {
		return fmt.Sprintf("kit rejects the independent implementation's signature %x over %x: %s", peerSig, digest, vo), st
	}
	st.nontrivial = st.nontrivial || len(digest) > 0
	st.classes = append(st.classes, "sig.peer-to-kit."+spec.Family)
	if sig != nil {
		vo = kitVerify(digest, sig, c.Alg, vkey.JWK)
		if vo.pnc != nil {
			return fmt.Sprintf("verification panicked: %v", vo.pnc), st
		}
		if matching && (vo.err != nil || !vo.ok) {
			return fmt.Sprintf("verification rejects the signature made by the matching private key: %s", vo), st
		}
		if !matching && vo.ok {
			return fmt.Sprintf("verification accepts a signature made by another key (%s): %s", c.SignKey, vo), st
		}
		if matching {
			st.classes = append(st.classes, "sig.roundtrip")
		} else {
			st.classes = append(st.classes, "sig.reject.otherkey")
		}
	}
	if c.Mut == nil {
		return "", st
	}
	comps := map[string][]byte{"digest": digest, "sig": peerSig}
	if !c.Mut.feasible(len(comps[c.Mut.Comp])) {
		return "", st
	}
	if spec.Family == "es" && c.Mut.Comp == "digest" && c.Mut.Kind == "ext" {
		// ECDSA uses the leftmost bits of an over-long digest (FIPS 186-4 §6.4), so bytes appended to a
		// full-size digest are ignored by every implementation; an over-long digest is not a sound input
		// and its rejection is not part of the statement
		st.classes = append(st.classes, "sig.mut.unasserted")
		return "", st
	}
	comps[c.Mut.Comp] = c.Mut.apply(comps[c.Mut.Comp])
	vo = kitVerify(comps["digest"], comps["sig"], c.Alg, vkey.JWK)
	if vo.pnc != nil {
		return fmt.Sprintf("verification of a changed input panicked: %v", vo.pnc), st
	}
	if vo.ok {
		return fmt.Sprintf("changed %s accepted: digest %x signature %x -> %s", c.Mut.Comp, comps["digest"], comps["sig"], vo), st
	}
	st.nontrivial = true
	st.classes = append(st.classes, "sig.reject."+c.Mut.Comp+"."+c.Mut.Kind)
	return "", st
}

// TestSigSweep: 10 algorithms x every fixed key (private and public form, every kind
// and curve) as signing key x a matching and a non-matching verification key; every
// fixed key as verification key; every single-byte change of digest and signature,
// truncations and extensions.
func TestSigSweep(t *testing.T) {
	sec := vk.Sec("SigSweep")
	idx := 0
	run := func(c sigCase) {
		idx++
		if !vk.Mine(idx) {
			return
		}
		msg, st := checkSig(c)
		if msg != "" {
			t.Fatalf("C03 signature violated: %s\ncase: %s", msg, c)
		}
		sec.Case(st.nontrivial, c.fp(), st.classes...)
		sec.Sample(func() any { return c.String() })
	}
	natural := map[string][]string{"rs": {"rsa2048", "rsa3072"}, "ps": {"rsa2048", "rsa3072"}, "ES256": {"p256"}, "ES384": {"p384"}, "ES512": {"p521"}, "ed": {"ed25519"}}
	other := map[string]string{"rsa2048": "rsa2048b", "rsa3072": "rsa2048", "p256": "p256b", "ed25519": "ed25519b"}
	for _, s := range refcrypto.SigSpecs {
		nat := natural[s.Family]
		if s.Family == "es" {
			nat = natural[s.Name]
		}
		for _, k := range keysAll() {
			for _, ml := range []int{0, 33} {
				if s.Family != "ed" && ml != 0 {
					continue
				}
				run(sigCase{Alg: s.Name, SignKey: k.Name, VerifyKey: nat[0] + ".pub", MsgLen: ml, Seed: uint64(ml) + 3})
				run(sigCase{Alg: s.Name, SignKey: nat[0], VerifyKey: k.Name, MsgLen: ml, Seed: uint64(ml) + 4})
			}
		}
		for ki, kn := range nat {
			run(sigCase{Alg: s.Name, SignKey: kn, VerifyKey: kn, MsgLen: 10, Seed: 9})
			if o, ok := other[kn]; ok {
				run(sigCase{Alg: s.Name, SignKey: kn, VerifyKey: o + ".pub", MsgLen: 10, Seed: 10})
				run(sigCase{Alg: s.Name, SignKey: o, VerifyKey: kn + ".pub", MsgLen: 10, Seed: 11})
			}
			dl := s.DigestLen()
			if dl == 0 {
				dl = 40
			}
			// RSA private-key operations cost milliseconds: every 8th signature byte and every 4th digest
			// byte there (all of them for the first key in the thorough tier); every byte for ECDSA / Ed25519
			sigN, sigStep, dStep := 140, 1, 1
			if s.Family == "ed" {
				sigN = 64
			}
			if s.Family == "rs" || s.Family == "ps" {
				sigN, sigStep, dStep = keyByName(kn).Pub.(*rsa.PublicKey).Size(), 8, 4
				if vk.Thorough() && ki == 0 {
					sigStep, dStep = 1, 1
				} else if ki > 0 {
					sigStep, dStep = 64, 16
				}
			}
			var muts []mutation
			for p := 0; p < dl; p += dStep {
				muts = append(muts, mutation{Comp: "digest", Kind: "flip", Pos: p, Mask: 0x01}, mutation{Comp: "digest", Kind: "flip", Pos: p, Mask: 0x80})
			}
			for p := 0; p < sigN; p += sigStep { // positions beyond the signature length wrap around (Pos mod len)
				muts = append(muts, mutation{Comp: "sig", Kind: "flip", Pos: p, Mask: 1 << (p / sigStep % 8)})
			}
			muts = append(muts, mutation{Comp: "sig", Kind: "flip", Pos: sigN - 1, Mask: 0x01})
			for _, n := range []int{1, 2, 8, 31, 32, 33, 63, 64} {
				muts = append(muts, mutation{Comp: "sig", Kind: "trunc", N: n}, mutation{Comp: "sig", Kind: "ext", N: n})
				if ki == 0 {
					muts = append(muts, mutation{Comp: "digest", Kind: "trunc", N: n}, mutation{Comp: "digest", Kind: "ext", N: n})
				}
			}
			for i, m := range muts {
				mm := m
				run(sigCase{Alg: s.Name, SignKey: kn, VerifyKey: kn + ".pub", MsgLen: dl, Seed: uint64(i), Mut: &mm})
			}
		}
	}
}

func TestSigRapid(t *testing.T) {
	sec := vk.Sec("SigRapid")
	names := keyNames()
	suit := map[string][]string{"rs": {"rsa2048", "rsa2048b", "rsa3072"}, "ps": {"rsa2048", "rsa2048b", "rsa3072"}, "ES256": {"p256", "p256b"}, "ES384": {"p384"}, "ES512": {"p521"}, "ed": {"ed25519", "ed25519b"}}
	vk.Check(t, 1500, 150000, func(rt *rapid.T) {
		s := rapid.SampledFrom(refcrypto.SigSpecs).Draw(rt, "alg")
		c := sigCase{Alg: s.Name, Seed: rapid.Uint64().Draw(rt, "seed"), MsgLen: rapid.IntRange(0, 200).Draw(rt, "msgLen")}
		pool := suit[s.Family]
		if s.Family == "es" {
			pool = suit[s.Name]
		}
		c.SignKey = rapid.SampledFrom(pool).Draw(rt, "signKey")
		c.VerifyKey = c.SignKey
		if rapid.Bool().Draw(rt, "verifyWithPublic") {
			c.VerifyKey += ".pub"
		}
		switch rapid.IntRange(0, 9).Draw(rt, "keyClass") {
		case 0:
			c.SignKey = rapid.SampledFrom(names).Draw(rt, "anySignKey")
		case 1:
			c.VerifyKey = rapid.SampledFrom(names).Draw(rt, "anyVerifyKey")
		case 2:
			c.VerifyKey = rapid.SampledFrom(pool).Draw(rt, "otherVerifyKey") + ".pub"
		}
		c.Mut = genMutation(rt, []string{"digest", "sig", "sig"})
		msg, st := checkSig(c)
		if msg != "" {
			rt.Fatalf("C03 signature violated: %s\ncase: %s", msg, c)
		}
		sec.Case(st.nontrivial, c.fp(), st.classes...)
		sec.Sample(func() any { return c.String() })
	})
}

// ------------------------------------------------------------------ algorithm names

// registry: every name of consts.go (the JOSE / dapr registry), supported or not.
var registry = []string{
	"A128CBC", "A192CBC", "A256CBC", "A128CBC-NOPAD", "A192CBC-NOPAD", "A256CBC-NOPAD", "A128GCM", "A192GCM", "A256GCM",
	"A128CBC-HS256", "A192CBC-HS384", "A256CBC-HS512", "A128KW", "A192KW", "A256KW", "A128GCMKW", "A192GCMKW", "A256GCMKW",
	"C20P", "XC20P", "C20PKW", "XC20PKW", "ECDH-ES", "ECDH-ES+A128KW", "ECDH-ES+A192KW", "ECDH-ES+A256KW",
	"RSA1_5", "RSA-OAEP", "RSA-OAEP-256", "RSA-OAEP-384", "RSA-OAEP-512",
	"ES256", "ES384", "ES512", "EdDSA", "HS256", "HS384", "HS512", "PS256", "PS384", "PS512", "RS256", "RS384", "RS512",
}

var oddNames = []string{
	"", " ", "A", "A1", "A12", "A128", "A128C", "a128cbc", "A128cbc", "A128CBC ", " A128CBC", "A128CBC-", "A128CBC-NOPAD-", "A128CBC_NOPAD", "A512GCM", "A064GCM",
	"A128CBC-HS512", "A256CBC-HS256", "A128GCM\x00", "\x00", "RSA", "RSA-OAEP-1", "RSA-OAEP-224", "RSA-OAEP-SHA256", "RSA1-5", "rsa-oaep", "RS128", "RS", "PS", "ES",
	"ES257", "ES521", "eddsa", "Ed25519", "none", "dir", "AES", "C20", "XC20PKW2", "ECDH", "256", "384", "512", "-256", "X256", "Å128GCM",
}

type nameCase struct {
	Entry string // EncryptSymmetric, DecryptSymmetric, Encrypt, Decrypt, EncryptPublicKey, DecryptPrivateKey, SignPrivateKey, VerifyPublicKey
	Alg   string
	Key   string
}

func (c nameCase) String() string {
	return fmt.Sprintf("name{entry=%s alg=%q key=%s}", c.Entry, c.Alg, c.Key)
}

var entries = []string{"EncryptSymmetric", "DecryptSymmetric", "Encrypt", "Decrypt", "EncryptPublicKey", "DecryptPrivateKey", "SignPrivateKey", "VerifyPublicKey"}

func supportedBy(entry, alg string) bool {
	_, sym := refcrypto.Spec(alg)
	_, enc := refcrypto.RSAEnc(alg)
	_, sig := refcrypto.Sig(alg)
	switch entry {
	case "EncryptSymmetric", "DecryptSymmetric":
		return sym
	case "EncryptPublicKey", "DecryptPrivateKey":
		return enc
	case "Encrypt", "Decrypt":
		return sym || enc
	}
	return sig
}

// checkName: a name the entry point does not support yields an error and no output;
// the error is ErrUnsupportedAlgorithm (when the key is also of a kind the entry point
// cannot use, ErrKeyTypeMismatch is accepted too: the order of the two checks is not specified).
func checkName(c nameCase) (string, bool) {
	if supportedBy(c.Entry, c.Alg) {
		return "", false
	}
	k := keyByName(c.Key)
	arg := vk.Expand(7, 32)
	var err error
	var out []byte
	var okFlag bool
	var pnc any
	switch c.Entry {
	case "EncryptSymmetric":
		o := kitEncrypt("sym", arg, c.Alg, k.JWK, arg[:12], nil)
		err, out, pnc = o.err, append(o.ct, o.tag...), o.pnc
	case "Encrypt":
		o := kitEncrypt("generic", arg, c.Alg, k.JWK, arg[:12], nil)
		err, out, pnc = o.err, append(o.ct, o.tag...), o.pnc
	case "EncryptPublicKey":
		o := kitEncrypt("pub", arg, c.Alg, k.JWK, nil, nil)
		err, out, pnc = o.err, o.ct, o.pnc
	case "DecryptSymmetric":
		o := kitDecrypt("sym", arg, c.Alg, k.JWK, arg[:12], arg[:16], nil)
		err, out, pnc = o.err, o.pt, o.pnc
	case "Decrypt":
		o := kitDecrypt("generic", arg, c.Alg, k.JWK, arg[:12], arg[:16], nil)
		err, out, pnc = o.err, o.pt, o.pnc
	case "DecryptPrivateKey":
		o := kitDecrypt("pub", arg, c.Alg, k.JWK, nil, nil, nil)
		err, out, pnc = o.err, o.pt, o.pnc
	case "SignPrivateKey":
		o := kitSign(arg, c.Alg, k.JWK)
		err, out, pnc = o.err, o.sig, o.pnc
	case "VerifyPublicKey":
		o := kitVerify(arg, vk.Expand(8, 64), c.Alg, k.JWK)
		err, okFlag, pnc = o.err, o.ok, o.pnc
	}
	if pnc != nil {
		return fmt.Sprintf("panicked: %v", pnc), false
	}
	if len(out) != 0 || okFlag {
		return fmt.Sprintf("output for an unsupported algorithm name: %x valid=%v err=%v", out, okFlag, err), false
	}
	var exp expectErr
	exp.add("algorithm name", kit.ErrUnsupportedAlgorithm)
	usable := k.Kind == "rsa"
	if strings.Contains(c.Entry, "Symmetric") || c.Entry == "Encrypt" || c.Entry == "Decrypt" {
		usable = k.Kind == "oct"
	}
	if !usable {
		exp.add("key kind", kit.ErrKeyTypeMismatch)
	}
	if msg := exp.check(err); msg != "" {
		return msg, false
	}
	return "", true
}

// TestAlgorithmNames: 8 entry points x (every registry name + a list of near-miss
// strings) x five kinds of key.
func TestAlgorithmNames(t *testing.T) {
	sec := vk.Sec("AlgorithmNames")
	idx := 0
	for _, e := range entries {
		for _, alg := range append(append([]string{}, registry...), oddNames...) {
			for _, k := range []string{"oct32", "rsa2048", "rsa2048.pub", "p256", "ed25519"} {
				idx++
				if !vk.Mine(idx) {
					continue
				}
				c := nameCase{e, alg, k}
				msg, asserted := checkName(c)
				if msg != "" {
					t.Fatalf("C03 algorithm name violated: %s\ncase: %s", msg, c)
				}
				if asserted {
					sec.Case(true, vk.FP("name", e, alg, k), "name.rejected")
					sec.Sample(func() any { return c.String() })
				}
			}
		}
	}
}

func TestAlgorithmNamesRapid(t *testing.T) {
	sec := vk.Sec("AlgorithmNamesRapid")
	vk.Check(t, 5000, 300000, func(rt *rapid.T) {
		var alg string
		switch rapid.IntRange(0, 2).Draw(rt, "nameClass") {
		case 0: // a registry name with one edit
			b := []byte(rapid.SampledFrom(registry).Draw(rt, "base"))
			p := rapid.IntRange(0, len(b)).Draw(rt, "pos")
			ch := byte(rapid.IntRange(0x20, 0x7e).Draw(rt, "char"))
			switch rapid.IntRange(0, 2).Draw(rt, "edit") {
			case 0:
				b = append(b[:p:p], append([]byte{ch}, b[p:]...)...)
			case 1:
				if p < len(b) {
					b = append(b[:p:p], b[p+1:]...)
				}
			default:
				if p < len(b) {
					b[p] = ch
				}
			}
			alg = string(b)
		case 1:
			alg = rapid.StringN(0, 24, 40).Draw(rt, "name")
		default:
			alg = rapid.SampledFrom(registry).Draw(rt, "registryName")
		}
		c := nameCase{rapid.SampledFrom(entries).Draw(rt, "entry"), alg, rapid.SampledFrom([]string{"oct32", "rsa2048", "rsa2048.pub", "p256", "p384.pub", "ed25519", "x25519"}).Draw(rt, "key")}
		msg, asserted := checkName(c)
		if msg != "" {
			rt.Fatalf("C03 algorithm name violated: %s\ncase: %s", msg, c)
		}
		sec.Case(asserted, vk.FP("name", c.Entry, c.Alg, c.Key), "name.rapid")
		sec.Sample(func() any { return c.String() })
	})
}
