package c15

import (
	"fmt"
	"reflect"
	"runtime"
	"strings"
	"sync"
	"sync/atomic"
	"testing"
	"testing/synctest"
	"time"
	"unsafe"

	"github.com/dapr/kit/ttlcache"
	kclock "k8s.io/utils/clock"
	"pgregory.net/rapid"

	"verifharness/vk"
)

// THE CLOCK MOVES WHILE A CALL IS IN PROGRESS.
//
// Everywhere else in this package the cache's clock stands still while a call runs: inside a synctest bubble virtual
// time only advances when every goroutine is durably blocked, and a goroutine that waits for a sync.Mutex is not (a
// bubble in which a Set waits for the writers' lock while somebody sleeps simply hangs - tried). In production time
// passes between any two instructions: a call can be descheduled, or wait for the writers' lock behind a bulk deletion,
// for longer than a TTL. What the statement promises does not depend on that: Get returns a value only if it is the one
// most recently Set - a Set that has returned supersedes every earlier value of its key, whatever the clock did while
// it ran - and a value is live for less than its TTL counted from its Set.
//
// The clock is the cache's own test seam (CacheOptions' unexported "Internal clock property, used for testing", which
// the repository's unit tests set from inside the package; here it is set through reflection, the build is unchanged).
// movingClock moves forward by a scripted amount right after every read, so two reads of the clock - in two calls or
// inside one - differ by that amount: exactly what a call sees that was held up between them.
//
// Oracle. A call spans the clock interval [in, out] (the clock before and after the call); whatever instant the
// implementation takes for "when the value was Set" or "when Get looked" lies in its call's span. So for the most
// recent Set of a key (span [sIn, sOut], capped TTL eff) and a Get with span [gIn, gOut]:
//   - a hit returns that Set's value - never an older (superseded) or a deleted one, whatever the clock did;
//   - gOut - sIn < eff (less than the TTL has elapsed, however the instants are chosen): must hit;
//   - gIn - sOut >= eff (at least the TTL has elapsed, however the instants are chosen): must miss;
//   - in between both answers are accepted.
//
// When the clock does not move inside the Set and the Get the band is empty and the oracle is the exact one of
// TestTTLHistories.
type movingClock struct {
	kclock.RealClock // only Now and NewTicker are used by the cache
	base             time.Time
	ns               atomic.Int64 // offset from base
	after            atomic.Int64 // the clock moves by this much right after every read
	reads            atomic.Int64
	tick             chan time.Time // the periodic cleaner's ticker, fired by the case
}

func newMovingClock() *movingClock {
	return &movingClock{base: time.Unix(1700000000, 0), tick: make(chan time.Time, 1)}
}

func (c *movingClock) Now() time.Time {
	a := c.after.Load()
	n := c.ns.Add(a) - a
	c.reads.Add(1)
	return c.base.Add(time.Duration(n))
}
func (c *movingClock) Since(t time.Time) time.Duration { return c.Now().Sub(t) }
func (c *movingClock) NewTicker(time.Duration) kclock.Ticker {
	return manualTicker{c.tick}
}

// peek reads the clock without moving it (the harness' own look at the clock).
func (c *movingClock) peek() time.Time      { return c.base.Add(time.Duration(c.ns.Load())) }
func (c *movingClock) add(d time.Duration)  { c.ns.Add(int64(d)) }
func (c *movingClock) move(d time.Duration) { c.after.Store(int64(d)) }

type manualTicker struct{ c chan time.Time }

func (t manualTicker) C() <-chan time.Time { return t.c }
func (t manualTicker) Stop()               {}

// newCacheWithClock makes a cache that runs on clk. ok is false when this build of the package has no such seam
// (then the tests below record that and check nothing: they assert nothing about the seam itself).
func newCacheWithClock[V any](o ttlcache.CacheOptions, clk *movingClock) (c *ttlcache.Cache[V], ok bool) {
	f := reflect.ValueOf(&o).Elem().FieldByName("clock")
	if !f.IsValid() || f.Kind() != reflect.Interface || !reflect.TypeOf(clk).Implements(f.Type()) {
		return nil, false
	}
	reflect.NewAt(f.Type(), unsafe.Pointer(f.UnsafeAddr())).Elem().Set(reflect.ValueOf(clk))
	c = ttlcache.NewCache[V](o)
	before := clk.reads.Load()
	c.Set("\x00probe", *new(V), 1)
	c.Delete("\x00probe")
	if clk.reads.Load() == before {
		c.Stop()
		return nil, false
	}
	return c, true
}

func clockSeamAvailable() bool {
	c, ok := newCacheWithClock[int](ttlcache.CacheOptions{}, newMovingClock())
	if ok {
		c.Stop()
	}
	return ok
}

type mvOp struct {
	Kind string // set get del cleanup reset adv tick
	Key  int
	TTL  int64
	Mid  string        // how far the clock moves after each read made during the call: 0 | 1ns | ttl-1ns | ttl | ttl+1ns | dur
	Dur  time.Duration // Mid == dur; adv without a target
	Adv  string        // adv: lo-1ns | lo | hi-1ns | hi | hi+1ns (bounds of key's expiry) | dur
}

type mvCase struct {
	MaxTTL int64
	Ops    []mvOp
}

func (o mvOp) String() string {
	mid := ""
	if o.Mid != "" && o.Mid != "0" {
		mid = ",clock+=" + o.Mid
		if o.Mid == "dur" {
			mid = fmt.Sprintf(",clock+=%v", o.Dur)
		}
		mid += "/read"
	}
	switch o.Kind {
	case "set":
		return fmt.Sprintf("set(k%d,ttl=%d%s)", o.Key, o.TTL, mid)
	case "get", "del":
		return fmt.Sprintf("%s(k%d%s)", o.Kind, o.Key, mid)
	case "adv":
		if o.Adv == "dur" {
			return fmt.Sprintf("adv(%v)", o.Dur)
		}
		return fmt.Sprintf("adv(k%d:%s|%v)", o.Key, o.Adv, o.Dur)
	}
	return o.Kind + "(" + strings.TrimPrefix(mid, ",") + ")"
}

func (c mvCase) String() string {
	var p []string
	for _, o := range c.Ops {
		p = append(p, o.String())
	}
	return fmt.Sprintf("moving-clock{maxTTL=%d ops=[%s]}", c.MaxTTL, strings.Join(p, " "))
}

type mvOutcome struct {
	setBeyondTTLOverLive bool // the clock moved by at least the (capped) TTL inside a Set of a key that held a live older value
	setBeyondTTL         bool
	setWithinTTL         bool // the clock moved inside a Set, by less than the TTL
	getMoved             bool
	cleanupMoved         bool
	periodic             bool
	band                 bool // a read fell between "must hit" and "must miss"
	boundary             bool
	hits, misses         int
}

const mvKeys = 4

func runMoving(t *testing.T, c mvCase) (out mvOutcome, err error) {
	var errs vk.Errs
	berr := vk.Bubble(t, c.String(), func() {
		clk := newMovingClock()
		cache, ok := newCacheWithClock[int](ttlcache.CacheOptions{MaxTTL: c.MaxTTL, CleanupInterval: time.Second}, clk)
		if !ok {
			errs.Failf("the clock seam disappeared between two cases")
			return
		}
		defer cache.Stop()
		eff := func(ttl int64) time.Duration {
			if c.MaxTTL > 0 && ttl > c.MaxTTL {
				ttl = c.MaxTTL
			}
			return time.Duration(ttl) * time.Second
		}
		type ent struct {
			val    int
			ttl    time.Duration
			lo, hi time.Time // the expiry lies in [lo, hi]: the span of the Set call + TTL
		}
		model := map[string]ent{}
		judge := func(step, k string, got int, ok bool, gIn, gOut time.Time) bool {
			e, have := model[k]
			switch {
			case ok && !have:
				errs.Failf("after %s: Get(%q)=%d but the key must miss (never set / deleted / reset)", step, k, got)
			case ok && got != e.val:
				errs.Failf("after %s: Get(%q)=%d but the most recent Set of that key (a call that has returned) wrote %d: a superseded value came back", step, k, got, e.val)
			case ok && !gIn.Before(e.hi):
				errs.Failf("after %s: Get(%q)=%d, but the Get began %v after the Set had returned and the (capped) TTL is %v: at least the TTL has elapsed", step, k, got, gIn.Sub(e.hi.Add(-e.ttl)), e.ttl)
			case !ok && have && gOut.Before(e.lo):
				errs.Failf("after %s: Get(%q) missed, but %d was Set, nobody deleted or reset it, and when the Get returned only %v had passed since that Set was CALLED ((capped) TTL %v)", step, k, e.val, gOut.Sub(e.lo.Add(-e.ttl)), e.ttl)
			default:
				if have && !gOut.Before(e.lo) && gIn.Before(e.hi) {
					out.band = true
				}
				if ok {
					out.hits++
				} else {
					out.misses++
				}
				return true
			}
			return false
		}
		sweep := func(step string) bool {
			now := clk.peek()
			for i := 0; i < mvKeys; i++ {
				got, ok := cache.Get(key(i))
				if !judge(step, key(i), got, ok, now, now) {
					return false
				}
			}
			return true
		}
		nextVal := 0
		for n, o := range c.Ops {
			step := fmt.Sprintf("op %d %s", n, o)
			k := key(o.Key)
			mid := o.Dur
			switch o.Mid {
			case "", "0":
				mid = 0
			case "1ns":
				mid = 1
			case "ttl-1ns":
				mid = eff(o.TTL) - 1
			case "ttl":
				mid = eff(o.TTL)
			case "ttl+1ns":
				mid = eff(o.TTL) + 1
			}
			in := clk.peek()
			clk.move(mid)
			switch o.Kind {
			case "set":
				old, had := model[k]
				nextVal++
				cache.Set(k, nextVal, o.TTL)
				clk.move(0)
				outT := clk.peek()
				model[k] = ent{nextVal, eff(o.TTL), in.Add(eff(o.TTL)), outT.Add(eff(o.TTL))}
				switch {
				case mid >= eff(o.TTL):
					out.setBeyondTTL = true
					if had && in.Before(old.lo) {
						out.setBeyondTTLOverLive = true
					}
				case mid > 0:
					out.setWithinTTL = true
				}
			case "get":
				got, ok := cache.Get(k)
				clk.move(0)
				if mid > 0 {
					out.getMoved = true
				}
				if !judge(step, k, got, ok, in, clk.peek()) {
					return
				}
			case "del":
				cache.Delete(k)
				delete(model, k)
			case "cleanup":
				cache.Cleanup()
				if mid > 0 {
					out.cleanupMoved = true
				}
			case "reset":
				cache.Reset()
				model = map[string]ent{}
			case "tick": // a periodic pass of the background cleaner, with the clock moving under it as well
				select {
				case clk.tick <- in:
				default:
				}
				synctest.Wait()
				out.periodic = true
			case "adv":
				d := o.Dur
				if e, have := model[k]; have && o.Adv != "dur" {
					target := e.lo
					if strings.HasPrefix(o.Adv, "hi") {
						target = e.hi
					}
					switch {
					case strings.HasSuffix(o.Adv, "-1ns"):
						target = target.Add(-1)
					case strings.HasSuffix(o.Adv, "+1ns"):
						target = target.Add(1)
					}
					if t := target.Sub(in); t > 0 {
						d = t
						out.boundary = true
					}
				}
				clk.add(d)
			}
			clk.move(0)
			if !sweep(step) {
				return
			}
		}
	})
	if e := errs.Err(); e != nil {
		return out, e
	}
	return out, berr
}

func genMoving(rt *rapid.T) mvCase {
	c := mvCase{MaxTTL: rapid.SampledFrom([]int64{0, 0, 0, -1, 1, 2, 5, 1000000}).Draw(rt, "maxTTL")}
	n := rapid.IntRange(1, 16).Draw(rt, "nops")
	durs := []time.Duration{1, time.Millisecond, 999 * time.Millisecond, time.Second, time.Second + 1, 2 * time.Second, 3500 * time.Millisecond, 10 * time.Second, 200 * time.Second}
	for i := 0; i < n; i++ {
		o := mvOp{Key: rapid.IntRange(0, mvKeys-1).Draw(rt, "key")}
		o.Mid = rapid.SampledFrom([]string{"0", "0", "0", "0", "1ns", "ttl-1ns", "ttl", "ttl", "ttl+1ns", "dur", "dur"}).Draw(rt, "mid")
		o.Dur = rapid.SampledFrom(durs).Draw(rt, "dur")
		switch k := rapid.IntRange(0, 19).Draw(rt, "kind"); {
		case k <= 7:
			o.Kind = "set"
			o.TTL = rapid.SampledFrom([]int64{1, 1, 2, 3, 5, 100, 100, 1000000}).Draw(rt, "ttl")
		case k <= 9:
			o.Kind = "get"
			o.TTL = 1 // for a Mid relative to a TTL
		case k == 10:
			o.Kind, o.Mid = "del", "0"
		case k <= 12:
			o.Kind, o.TTL = "cleanup", 1
		case k == 13:
			o.Kind, o.Mid = "reset", "0"
		case k == 14:
			o.Kind, o.TTL = "tick", 1
		default:
			o.Kind, o.Mid = "adv", "0"
			o.Adv = rapid.SampledFrom([]string{"lo-1ns", "lo", "hi-1ns", "hi", "hi+1ns", "dur", "dur"}).Draw(rt, "adv")
		}
		c.Ops = append(c.Ops, o)
	}
	return c
}

// TestClockMovesDuringCalls: sequential histories on a clock that moves forward between any two reads, also between
// two reads made by one call (a Set / Get / Cleanup that was held up for longer than a TTL).
func TestClockMovesDuringCalls(t *testing.T) {
	sec := vk.Sec("ClockMovesDuringCalls")
	if !clockSeamAvailable() {
		sec.Class("moving-clock.seam-unavailable-nothing-checked")
		t.Log("the package's clock option is not there in this build: nothing checked")
		return
	}
	vk.Check(t, 4000, 600000, func(rt *rapid.T) {
		c := genMoving(rt)
		out, err := runMoving(t, c)
		if err != nil {
			rt.Fatalf("C15 ttlcache violated: %v\ncase: %s", err, c)
		}
		var cls []string
		for name, b := range map[string]bool{
			"moving-clock.inside-Set.by-at-least-the-TTL.key-held-a-live-older-value": out.setBeyondTTLOverLive,
			"moving-clock.inside-Set.by-at-least-the-TTL":                             out.setBeyondTTL,
			"moving-clock.inside-Set.by-less-than-the-TTL":                            out.setWithinTTL,
			"moving-clock.inside-Get":                                                 out.getMoved,
			"moving-clock.inside-Cleanup":                                             out.cleanupMoved,
			"moving-clock.periodic-pass":                                              out.periodic,
			"moving-clock.read-between-must-hit-and-must-miss":                        out.band,
			"moving-clock.boundary-advance":                                           out.boundary,
		} {
			if b {
				cls = append(cls, name)
			}
		}
		sec.Case(out.setBeyondTTLOverLive && out.hits > 0 && out.misses > 0, vk.FP(c.String()), cls...)
		sec.Sample(func() any { return c.String() })
	})
}

// A Set that really waits for the writers' lock (real threads) while the clock moves. Each read of the clock - by
// anybody - moves it by Step, so while a Set waits behind a Cleanup that is deleting Junk expired entries (or behind
// other writers) the reads of the other goroutines carry the clock past the Set's TTL.
//
// Every setter owns its keys. A round is Set(k, old, TTL of many years); Set(k, new, TTL 1..3 s); Get(k). The oracle is
// one-sided and needs no timing:
//   - a hit returns new (the most recent Set of the key, a call that has returned) - never old, which was superseded;
//   - a hit is not accepted when the Get began at least the TTL after that Set had returned;
//   - a miss is always accepted here (the clock runs, and the concurrent Cleanup may take a refreshed key: documented);
//   - a reader never sees a key's values go backwards (an older value after a newer one has been superseded);
//   - after the join every key holds its last value or nothing.
type lockWaitCase struct {
	MaxTTL   int64
	Junk     int
	Setters  int
	Getters  int
	Writers  int // goroutines setting and deleting keys of their own all the time
	Passes   int // the race lasts until the cleaner has finished this many passes
	Step     time.Duration
	NewTTL   int64
	GoMaxPro int
}

func (c lockWaitCase) String() string {
	return fmt.Sprintf("moving-clock.lock-wait%+v", lockWaitPlain(c))
}

type lockWaitPlain lockWaitCase

type lockWaitStats struct{ rounds, hits, beyond, waited int64 }

func runLockWait(c lockWaitCase) (st lockWaitStats, err error) {
	if c.GoMaxPro > 0 {
		defer runtime.GOMAXPROCS(runtime.GOMAXPROCS(c.GoMaxPro))
	}
	clk := newMovingClock()
	cache, ok := newCacheWithClock[int](ttlcache.CacheOptions{MaxTTL: c.MaxTTL}, clk)
	if !ok {
		return st, fmt.Errorf("the clock seam disappeared between two cases")
	}
	defer cache.Stop()
	eff := func(ttl int64) time.Duration {
		if c.MaxTTL > 0 && ttl > c.MaxTTL {
			ttl = c.MaxTTL
		}
		return time.Duration(ttl) * time.Second
	}
	var errs vk.Errs
	junk := make([]string, c.Junk)
	for i := range junk {
		junk[i] = fmt.Sprintf("junk-%d", i)
		cache.Set(junk[i], -1, 1)
	}
	clk.add(2 * time.Second) // all of it has expired
	clk.move(c.Step)
	const longTTL = 1000000000
	const keysPer = 2
	skey := func(s, j int) string { return fmt.Sprintf("s%d-%d", s, j) }
	var passes, rounds, hits, beyond, waited atomic.Int64
	var done atomic.Bool
	last := make([][keysPer]int, c.Setters)
	var setters, others sync.WaitGroup
	for s := 0; s < c.Setters; s++ {
		setters.Add(1)
		errs.Go(func() {
			defer setters.Done()
			for r := 0; passes.Load() < int64(c.Passes) && r < 5000000 && errs.Err() == nil; r++ {
				j := r % keysPer
				k := skey(s, j)
				old, nw := 2*r+1, 2*r+2
				cache.Set(k, old, longTTL)
				in := clk.peek()
				cache.Set(k, nw, c.NewTTL)
				out := clk.peek()
				last[s][j] = nw
				gIn := clk.peek()
				got, ok := cache.Get(k)
				rounds.Add(1)
				if out.Sub(in) >= eff(c.NewTTL) {
					beyond.Add(1)
					if 2*c.Step < eff(c.NewTTL) {
						waited.Add(1) // not by the Set's own reads: by the reads of the others while it waited
					}
				}
				if !ok {
					continue
				}
				hits.Add(1)
				switch {
				case got == old:
					errs.Failf("round %d: Get(%q)=%d after this goroutine's Set(%q, %d, ttl %d) had returned (the clock moved by %v while that Set ran): %d was superseded, only %d or a miss is acceptable", r, k, got, k, nw, c.NewTTL, out.Sub(in), old, nw)
				case got != nw:
					errs.Failf("round %d: Get(%q)=%d, a value that is not the most recent Set of the key (%d)", r, k, got, nw)
				case gIn.Sub(out) >= eff(c.NewTTL):
					errs.Failf("round %d: Get(%q)=%d, but the Get began %v after the Set (ttl %d) had returned", r, k, got, gIn.Sub(out), c.NewTTL)
				}
			}
		})
	}
	for g := 0; g < c.Getters; g++ {
		others.Add(1)
		errs.Go(func() {
			defer others.Done()
			seen := make([][keysPer]int, c.Setters)
			for n := g; !done.Load(); n++ {
				s, j := n%c.Setters, (n/c.Setters)%keysPer
				got, ok := cache.Get(skey(s, j))
				if !ok {
					continue
				}
				if got < seen[s][j] {
					errs.Failf("a reader got Get(%q)=%d after it had already got %d: the older value was superseded by a later Set", skey(s, j), got, seen[s][j])
					return
				}
				seen[s][j] = got
			}
		})
	}
	for w := 0; w < c.Writers; w++ {
		others.Add(1)
		errs.Go(func() {
			defer others.Done()
			for n := 0; !done.Load(); n++ {
				k := fmt.Sprintf("w%d-%d", w, n%64)
				cache.Set(k, n, 1+int64(n%3))
				if n%3 == 0 {
					cache.Delete(k)
				}
			}
		})
	}
	others.Add(1)
	errs.Go(func() { // the cleaner: deletes the expired junk under the writers' lock, puts it back, and again
		defer others.Done()
		for !done.Load() {
			cache.Cleanup()
			passes.Add(1)
			vk.Progress()
			for i := 0; i < len(junk) && !done.Load(); i++ {
				cache.Set(junk[i], -1, 1)
			}
		}
	})
	setters.Wait()
	done.Store(true)
	others.Wait()
	clk.move(0)
	st = lockWaitStats{rounds.Load(), hits.Load(), beyond.Load(), waited.Load()}
	if e := errs.Err(); e != nil {
		return st, e
	}
	for s := range last {
		for j, want := range last[s] {
			if got, ok := cache.Get(skey(s, j)); ok && got != want {
				return st, fmt.Errorf("after the join: Get(%q)=%d, the most recent Set wrote %d", skey(s, j), got, want)
			}
		}
	}
	return st, nil
}

func TestClockMovesDuringLockWait(t *testing.T) {
	sec := vk.Sec("ClockMovesDuringLockWait")
	if !clockSeamAvailable() {
		sec.Class("moving-clock.seam-unavailable-nothing-checked")
		t.Log("the package's clock option is not there in this build: nothing checked")
		return
	}
	vk.Check(t, 24, 3000, func(rt *rapid.T) {
		c := lockWaitCase{
			MaxTTL:   rapid.SampledFrom([]int64{0, 0, -1, 2, 2000000000}).Draw(rt, "maxTTL"),
			Junk:     rapid.SampledFrom([]int{500, 5000, 30000}).Draw(rt, "junk"),
			Setters:  rapid.IntRange(1, 3).Draw(rt, "setters"),
			Getters:  rapid.IntRange(0, 2).Draw(rt, "getters"),
			Writers:  rapid.IntRange(0, 2).Draw(rt, "writers"),
			Passes:   rapid.IntRange(1, 3).Draw(rt, "passes"),
			Step:     rapid.SampledFrom([]time.Duration{time.Millisecond, 400 * time.Millisecond, time.Second, 3 * time.Second}).Draw(rt, "step"),
			NewTTL:   rapid.SampledFrom([]int64{1, 1, 2, 3}).Draw(rt, "newTTL"),
			GoMaxPro: rapid.SampledFrom([]int{0, 0, 2, 4}).Draw(rt, "gomaxprocs"),
		}
		var st lockWaitStats
		var err error
		vk.Guard("C15 "+c.String(), func() { st, err = runLockWait(c) })
		if err != nil {
			rt.Fatalf("C15 ttlcache violated: %v\ncase: %s", err, c)
		}
		sec.Case(st.beyond > 0 && st.hits > 0, vk.FP(c.String()), "moving-clock.lock-wait")
		sec.ClassN("moving-clock.lock-wait.rounds", st.rounds)
		sec.ClassN("moving-clock.lock-wait.Sets-during-which-the-clock-moved-by-at-least-the-TTL", st.beyond)
		sec.ClassN("moving-clock.lock-wait.Sets-during-which-the-others-moved-the-clock-by-at-least-the-TTL", st.waited)
		sec.ClassN("moving-clock.lock-wait.hits", st.hits)
		sec.Sample(func() any { return c.String() })
	})
}
