package refcrypto

import (
	"crypto"
	"crypto/ecdsa"
	"crypto/ed25519"
	"crypto/elliptic"
	"crypto/rand"
	"crypto/rsa"
	"crypto/sha1"
	"crypto/sha256"
	"crypto/sha512"
	"crypto/x509"
	"encoding/pem"
	"fmt"
	"hash"
	"sync"
)

// KeySet is the fixed set of asymmetric keys of the harness (embedded PEM, parsed once).
type KeySet struct {
	RSA2048, RSA2048b, RSA3072 *rsa.PrivateKey
	RSA2047, RSA2055           *rsa.PrivateKey // modulus bit length not a multiple of 8
	P256, P256b, P384, P521    *ecdsa.PrivateKey
	Ed, Edb                    ed25519.PrivateKey
}

var (
	keysOnce sync.Once
	keys     *KeySet
)

func parse(p string) any {
	blk, _ := pem.Decode([]byte(p))
	if blk == nil {
		panic("refcrypto: bad embedded PEM")
	}
	k, err := x509.ParsePKCS8PrivateKey(blk.Bytes)
	if err != nil {
		panic(err)
	}
	return k
}

// Keys returns the fixed keys.
func Keys() *KeySet {
	keysOnce.Do(func() {
		keys = &KeySet{
			RSA2048: parse(pemRSA2048).(*rsa.PrivateKey), RSA2048b: parse(pemRSA2048b).(*rsa.PrivateKey), RSA3072: parse(pemRSA3072).(*rsa.PrivateKey),
			RSA2047: parse(pemRSA2047).(*rsa.PrivateKey), RSA2055: parse(pemRSA2055).(*rsa.PrivateKey),
			P256: parse(pemP256).(*ecdsa.PrivateKey), P256b: parse(pemP256b).(*ecdsa.PrivateKey),
			P384: parse(pemP384).(*ecdsa.PrivateKey), P521: parse(pemP521).(*ecdsa.PrivateKey),
			Ed: parse(pemEd25519).(ed25519.PrivateKey), Edb: parse(pemEd25519b).(ed25519.PrivateKey),
		}
	})
	return keys
}

// ---------------------------------------------------------------- RSA encryption

// RSAEncSpec describes one RSA encryption algorithm name (RFC 7518 §4.2, §4.3 and
// the SHA-384/512 variants of the dapr registry). Hash == 0: PKCS#1 v1.5.
type RSAEncSpec struct {
	Name string
	Hash crypto.Hash
}

// RSAEncSpecs lists the 5 asymmetric encryption algorithms.
var RSAEncSpecs = []RSAEncSpec{
	{"RSA1_5", 0},
	{"RSA-OAEP", crypto.SHA1},
	{"RSA-OAEP-256", crypto.SHA256},
	{"RSA-OAEP-384", crypto.SHA384},
	{"RSA-OAEP-512", crypto.SHA512},
}

// RSAEnc returns the entry for name.
func RSAEnc(name string) (RSAEncSpec, bool) {
	for _, s := range RSAEncSpecs {
		if s.Name == name {
			return s, true
		}
	}
	return RSAEncSpec{}, false
}

func newHash(h crypto.Hash) hash.Hash {
	switch h {
	case crypto.SHA1:
		return sha1.New()
	case crypto.SHA256:
		return sha256.New()
	case crypto.SHA384:
		return sha512.New384()
	case crypto.SHA512:
		return sha512.New()
	}
	panic("hash")
}

// MaxMessage is the longest plaintext the scheme takes under a k-byte modulus
// (RFC 8017 §7.1.1: k - 2hLen - 2; §7.2.1: k - 11).
func (s RSAEncSpec) MaxMessage(k int) int {
	if s.Hash == 0 {
		return k - 11
	}
	return k - 2*s.Hash.Size() - 2
}

// OAEP reports whether the scheme is RSAES-OAEP (label authenticated, ciphertext integrity checked).
func (s RSAEncSpec) OAEP() bool { return s.Hash != 0 }

// Encrypt encrypts with the peer implementation (standard library).
func (s RSAEncSpec) Encrypt(pub *rsa.PublicKey, pt, label []byte) ([]byte, error) {
	if s.Hash == 0 {
		return rsa.EncryptPKCS1v15(rand.Reader, pub, pt)
	}
	return rsa.EncryptOAEP(newHash(s.Hash), rand.Reader, pub, pt, label)
}

// Decrypt decrypts with the peer implementation.
func (s RSAEncSpec) Decrypt(priv *rsa.PrivateKey, ct, label []byte) ([]byte, error) {
	if s.Hash == 0 {
		return rsa.DecryptPKCS1v15(nil, priv, ct)
	}
	return rsa.DecryptOAEP(newHash(s.Hash), nil, priv, ct, label)
}

// ---------------------------------------------------------------- signatures

// SigSpec describes one signature algorithm name (RFC 7518 §3.3-3.5, RFC 8037 §3.1).
type SigSpec struct {
	Name   string
	Family string // rs, ps, es, ed
	Hash   crypto.Hash
	Curve  elliptic.Curve // es only
}

// SigSpecs lists the 10 signature algorithms.
var SigSpecs = []SigSpec{
	{"RS256", "rs", crypto.SHA256, nil},
	{"RS384", "rs", crypto.SHA384, nil},
	{"RS512", "rs", crypto.SHA512, nil},
	{"PS256", "ps", crypto.SHA256, nil},
	{"PS384", "ps", crypto.SHA384, nil},
	{"PS512", "ps", crypto.SHA512, nil},
	{"ES256", "es", crypto.SHA256, elliptic.P256()},
	{"ES384", "es", crypto.SHA384, elliptic.P384()},
	{"ES512", "es", crypto.SHA512, elliptic.P521()},
	{"EdDSA", "ed", 0, nil},
}

// Sig returns the entry for name.
func Sig(name string) (SigSpec, bool) {
	for _, s := range SigSpecs {
		if s.Name == name {
			return s, true
		}
	}
	return SigSpec{}, false
}

// DigestLen is the digest length the algorithm signs (0: EdDSA signs the message itself).
func (s SigSpec) DigestLen() int {
	if s.Family == "ed" {
		return 0
	}
	return s.Hash.Size()
}

// KeyOK reports whether the (private or public, standard library) key is of the kind and size the algorithm names.
func (s SigSpec) KeyOK(k any) bool {
	switch s.Family {
	case "rs", "ps":
		switch k.(type) {
		case *rsa.PrivateKey, *rsa.PublicKey:
			return true
		}
	case "es":
		switch kk := k.(type) {
		case *ecdsa.PrivateKey:
			return kk.Curve == s.Curve
		case *ecdsa.PublicKey:
			return kk.Curve == s.Curve
		}
	case "ed":
		switch k.(type) {
		case ed25519.PrivateKey, ed25519.PublicKey:
			return true
		}
	}
	return false
}

// Sign signs digest with the peer implementation. ECDSA signatures are ASN.1 DER
// (Ecdsa-Sig-Value), which is the encoding dapr/kit produces and consumes.
func (s SigSpec) Sign(priv any, digest []byte) ([]byte, error) {
	switch s.Family {
	case "rs":
		return rsa.SignPKCS1v15(nil, priv.(*rsa.PrivateKey), s.Hash, digest)
	case "ps":
		return rsa.SignPSS(rand.Reader, priv.(*rsa.PrivateKey), s.Hash, digest, &rsa.PSSOptions{SaltLength: rsa.PSSSaltLengthEqualsHash})
	case "es":
		return ecdsa.SignASN1(rand.Reader, priv.(*ecdsa.PrivateKey), digest)
	case "ed":
		return ed25519.Sign(priv.(ed25519.PrivateKey), digest), nil
	}
	return nil, fmt.Errorf("family")
}

// SignPSSSalt signs with RSASSA-PSS and an explicit salt length (rsa.PSSSaltLengthAuto = as long as the key allows, which
// is what crypto/rsa, OpenSSL and others produce by default; rsa.PSSSaltLengthEqualsHash; or a number of bytes). All of
// them are valid PSS signatures: the salt length is recovered from the encoding when verifying.
func (s SigSpec) SignPSSSalt(priv *rsa.PrivateKey, digest []byte, salt int) ([]byte, error) {
	return rsa.SignPSS(rand.Reader, priv, s.Hash, digest, &rsa.PSSOptions{SaltLength: salt})
}

// Verify verifies with the peer implementation.
func (s SigSpec) Verify(pub any, digest, sig []byte) bool {
	switch s.Family {
	case "rs":
		return rsa.VerifyPKCS1v15(pub.(*rsa.PublicKey), s.Hash, digest, sig) == nil
	case "ps":
		return rsa.VerifyPSS(pub.(*rsa.PublicKey), s.Hash, digest, sig, &rsa.PSSOptions{SaltLength: rsa.PSSSaltLengthAuto}) == nil
	case "es":
		return ecdsa.VerifyASN1(pub.(*ecdsa.PublicKey), digest, sig)
	case "ed":
		return ed25519.Verify(pub.(ed25519.PublicKey), digest, sig)
	}
	return false
}
