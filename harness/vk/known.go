package vk

import (
	"bufio"
	"fmt"
	"os"
	"strings"
	"sync"
)

var (
	knownOnce     sync.Once
	knownSigs     map[string]string // "Cxx|sig" -> description
	knownMu       sync.Mutex
	knownReported []string
)

func loadKnown() {
	knownSigs = map[string]string{}
	path := os.Getenv("VERIF_KNOWN")
	if path == "" {
		path = "/verif/KNOWN_FINDINGS.txt"
	}
	f, err := os.Open(path)
	if err != nil {
		return
	}
	defer f.Close()
	sc := bufio.NewScanner(f)
	for sc.Scan() {
		line := strings.TrimSpace(sc.Text())
		if !strings.HasPrefix(line, "known:") {
			continue
		}
		var prop, sig string
		rest := strings.TrimSpace(strings.TrimPrefix(line, "known:"))
		desc := ""
		if i := strings.Index(rest, "::"); i >= 0 {
			desc = strings.TrimSpace(rest[i+2:])
			rest = rest[:i]
		}
		for _, f := range strings.Fields(rest) {
			if strings.HasPrefix(f, "property=") {
				prop = strings.TrimPrefix(f, "property=")
			}
			if strings.HasPrefix(f, "sig=") {
				sig = strings.TrimPrefix(f, "sig=")
			}
		}
		if prop != "" && sig != "" {
			knownSigs[prop+"|"+sig] = desc
		}
	}
}

// IsKnown reports whether KNOWN_FINDINGS.txt lists signature sig for property
// prop as a known (unrepaired) finding. The file is never written at run time.
func IsKnown(prop, sig string) bool {
	knownOnce.Do(loadKnown)
	_, ok := knownSigs[prop+"|"+sig]
	return ok
}

// ReportKnown prints the KNOWN-FINDING line for a listed finding whose pinned
// input still fails (once per process and signature).
func ReportKnown(prop, sig, what string) {
	knownOnce.Do(loadKnown)
	knownMu.Lock()
	defer knownMu.Unlock()
	key := prop + "|" + sig
	for _, k := range knownReported {
		if k == key {
			return
		}
	}
	knownReported = append(knownReported, key)
	fmt.Printf("KNOWN-FINDING: property=%s sig=%s %s\n", prop, sig, what)
}
