package c18

import (
	"context"
	"crypto/ecdsa"
	"crypto/elliptic"
	"crypto/rand"
	"crypto/x509"
	"crypto/x509/pkix"
	"encoding/pem"
	"errors"
	"fmt"
	"io"
	"math/big"
	"net/url"
	"os"
	"path/filepath"
	"sort"
	"strings"
	"sync"
	"testing"
	"testing/synctest"
	"time"

	"github.com/dapr/kit/crypto/spiffe"
	"github.com/dapr/kit/logger"
	"github.com/spiffe/go-spiffe/v2/bundle/x509bundle"
	"github.com/spiffe/go-spiffe/v2/spiffeid"
	"pgregory.net/rapid"

	"verifharness/vk"
)

// The directory as its in-repository user drives it: crypto/spiffe with WriteIdentityToFile writes the identity (key,
// certificate chain, trust anchors) through dir.Write at the initial fetch and at every renewal. A crash-free history
// of fetches - successful ones, failing ones, ones refused after the issuer answered - on the bubble's clock; after
// every step the parent directory of the target is listed: it holds the target link and exactly ONE version directory
// (the current one: the superseded private keys are gone), the target resolves to it, and it holds exactly the three
// files of the most recent successful fetch.
type idFetch struct {
	Kind     string // ok | fail (issuer error) | anchors-fail (certificate issued, trust anchors unavailable: nothing is written)
	Validity time.Duration
}

type idCase struct {
	Fetches []idFetch // [0] is the initial fetch (always ok)
	Nested  bool      // the target lies two directory levels below the scratch directory
}

func (c idCase) String() string {
	var p []string
	for _, f := range c.Fetches {
		if f.Kind == "ok" {
			p = append(p, fmt.Sprintf("ok(valid=%v)", f.Validity))
		} else {
			p = append(p, f.Kind)
		}
	}
	return fmt.Sprintf("spiffe.identitydir{fetches=[%s] nested=%v}", strings.Join(p, " "), c.Nested)
}

var (
	idCAOnce sync.Once
	idCAKey  *ecdsa.PrivateKey
	idCACert *x509.Certificate
	idLog    logger.Logger
)

func idCA() {
	idCAOnce.Do(func() {
		var err error
		idCAKey, err = ecdsa.GenerateKey(elliptic.P256(), rand.Reader)
		if err != nil {
			panic(err)
		}
		tmpl := &x509.Certificate{SerialNumber: big.NewInt(1), Subject: pkix.Name{CommonName: "verif-ca"}, NotBefore: time.Unix(0, 0), NotAfter: time.Date(2200, 1, 1, 0, 0, 0, 0, time.UTC),
			IsCA: true, KeyUsage: x509.KeyUsageCertSign, BasicConstraintsValid: true}
		der, err := x509.CreateCertificate(rand.Reader, tmpl, tmpl, &idCAKey.PublicKey, idCAKey)
		if err != nil {
			panic(err)
		}
		idCACert, _ = x509.ParseCertificate(der)
		idLog = logger.NewLogger("verif-c18")
		idLog.SetOutput(io.Discard)
	})
}

type idIssuer struct {
	mu      sync.Mutex
	script  []idFetch
	n       int
	serials []int64 // per request: serial issued (0: none)
	written []bool  // per request: a Write is expected
	anchors []string
}

func (is *idIssuer) fn(ctx context.Context, csrDER []byte) ([]*x509.Certificate, error) {
	csr, err := x509.ParseCertificateRequest(csrDER)
	if err != nil {
		return nil, err
	}
	is.mu.Lock()
	idx := is.n
	is.n++
	f := idFetch{Kind: "ok", Validity: 1000 * time.Hour}
	if idx < len(is.script) {
		f = is.script[idx]
	}
	is.serials = append(is.serials, 0)
	is.written = append(is.written, false)
	is.anchors = append(is.anchors, "")
	is.mu.Unlock()
	if f.Kind == "fail" {
		return nil, errors.New("verif: scripted issuer failure")
	}
	id, _ := url.Parse("spiffe://example.org/ns/verif/app")
	now := time.Now()
	serial := int64(100 + idx)
	tmpl := &x509.Certificate{SerialNumber: big.NewInt(serial), NotBefore: now, NotAfter: now.Add(f.Validity), URIs: []*url.URL{id}, KeyUsage: x509.KeyUsageDigitalSignature}
	der, err := x509.CreateCertificate(rand.Reader, tmpl, idCACert, csr.PublicKey, idCAKey)
	if err != nil {
		return nil, err
	}
	leaf, err := x509.ParseCertificate(der)
	if err != nil {
		return nil, err
	}
	is.mu.Lock()
	is.serials[idx] = serial
	is.written[idx] = f.Kind == "ok"
	is.mu.Unlock()
	return []*x509.Certificate{leaf}, nil
}

type idAnchors struct{ is *idIssuer }

func (a idAnchors) GetX509BundleForTrustDomain(spiffeid.TrustDomain) (*x509bundle.Bundle, error) {
	return nil, errors.New("not used")
}
func (a idAnchors) CurrentTrustAnchors(context.Context) ([]byte, error) {
	a.is.mu.Lock()
	defer a.is.mu.Unlock()
	i := a.is.n - 1
	if i < len(a.is.script) && a.is.script[i].Kind == "anchors-fail" {
		return nil, errors.New("verif: scripted trust-anchor failure")
	}
	v := fmt.Sprintf("trust-anchors-for-request-%d\n", i)
	a.is.anchors[i] = v
	return []byte(v), nil
}
func (a idAnchors) Watch(context.Context, chan<- []byte) {}
func (a idAnchors) Run(context.Context) error            { return nil }

func runIdentityDir(t *testing.T, c idCase) (writes int, err error) {
	idCA()
	var errs vk.Errs
	scratch, merr := os.MkdirTemp("", "verif-c18-id-")
	if merr != nil {
		return 0, fmt.Errorf("harness: %v", merr)
	}
	defer os.RemoveAll(scratch)
	berr := vk.Bubble(t, c.String(), func() {
		is := &idIssuer{script: c.Fetches}
		parent := scratch
		if c.Nested {
			parent = filepath.Join(scratch, "var", "run")
		}
		target := filepath.Join(parent, "identity")
		s := spiffe.New(spiffe.Options{Log: idLog, RequestSVIDFn: is.fn, WriteIdentityToFile: &target, TrustAnchors: idAnchors{is}})
		ctx, cancel := context.WithCancel(context.Background())
		defer cancel()
		runDone := make(chan struct{})
		errs.Go(func() { _ = s.Run(ctx); close(runDone) })
		check := func(step string) bool {
			synctest.Wait()
			is.mu.Lock()
			last := -1
			nw := 0
			for i, w := range is.written {
				if w {
					last = i
					nw++
				}
			}
			var wantSerial int64
			wantAnchors := ""
			if last >= 0 {
				wantSerial, wantAnchors = is.serials[last], is.anchors[last]
			}
			n := is.n
			is.mu.Unlock()
			writes = nw
			if last < 0 {
				errs.Failf("after %s: no identity has been fetched (%d requests)", step, n)
				return false
			}
			ents, e := os.ReadDir(parent)
			if e != nil {
				errs.Failf("after %s: listing %s: %v", step, parent, e)
				return false
			}
			var names, dirs []string
			for _, en := range ents {
				names = append(names, en.Name())
				if en.IsDir() {
					dirs = append(dirs, en.Name())
				}
			}
			sort.Strings(names)
			link, e := os.Readlink(target)
			if e != nil {
				errs.Failf("after %s (%d successful fetches): the target is not a link: %v; %s holds %v", step, nw, e, parent, names)
				return false
			}
			if len(ents) != 2 || len(dirs) != 1 {
				errs.Failf("after %s (%d requests, %d of them wrote an identity, no crash): %s holds %v; want only the target link and the current version directory (%s)", step, n, nw, parent, names, filepath.Base(link))
				return false
			}
			if filepath.Clean(link) != filepath.Join(parent, dirs[0]) {
				errs.Failf("after %s: the target points to %s, the only version directory is %s", step, link, dirs[0])
				return false
			}
			fents, e := os.ReadDir(target)
			if e != nil {
				errs.Failf("after %s: listing the target: %v", step, e)
				return false
			}
			var files []string
			for _, f := range fents {
				files = append(files, f.Name())
			}
			sort.Strings(files)
			if strings.Join(files, ",") != "ca.pem,cert.pem,key.pem" {
				errs.Failf("after %s: the target holds %v, want exactly ca.pem, cert.pem and key.pem", step, files)
				return false
			}
			cert, _ := os.ReadFile(filepath.Join(target, "cert.pem"))
			anch, _ := os.ReadFile(filepath.Join(target, "ca.pem"))
			cb, _ := pem.Decode(cert)
			if cb == nil {
				errs.Failf("after %s: cert.pem holds no PEM", step)
				return false
			}
			leaf, e := x509.ParseCertificate(cb.Bytes)
			if e != nil {
				errs.Failf("after %s: cert.pem: %v", step, e)
				return false
			}
			if leaf.SerialNumber.Int64() != wantSerial || string(anch) != wantAnchors {
				errs.Failf("after %s: the target holds certificate serial %d and anchors %q; the most recent fetch that wrote an identity (request %d) had serial %d and anchors %q", step, leaf.SerialNumber.Int64(), anch, last, wantSerial, wantAnchors)
				return false
			}
			return true
		}
		if !check("the initial fetch") {
			cancel()
			<-runDone
			return
		}
		// walk through the script: each successful fetch is renewed one minute after its half-life at the latest,
		// each failed one retried after 10 s
		for i := 1; i < len(c.Fetches); i++ {
			prevOK := time.Duration(0)
			for j := i - 1; j >= 0; j-- {
				if c.Fetches[j].Kind == "ok" {
					prevOK = c.Fetches[j].Validity
					break
				}
			}
			if c.Fetches[i-1].Kind == "ok" {
				time.Sleep(prevOK/2 + time.Minute + time.Second)
			} else {
				time.Sleep(11 * time.Second)
			}
			if !check(fmt.Sprintf("fetch %d (%s)", i, c.Fetches[i].Kind)) {
				break
			}
			is.mu.Lock()
			n := is.n
			is.mu.Unlock()
			if n < i+1 {
				errs.Failf("harness: after the wait for fetch %d only %d requests were made", i, n)
				break
			}
		}
		cancel()
		<-runDone
	})
	if e := errs.Err(); e != nil {
		return writes, e
	}
	return writes, berr
}

func TestIdentityDirThroughSpiffe(t *testing.T) {
	sec := vk.Sec("IdentityDirThroughSpiffe")
	vk.Check(t, 60, 3000, func(rt *rapid.T) {
		c := idCase{Nested: rapid.Bool().Draw(rt, "nested")}
		n := rapid.IntRange(2, 7).Draw(rt, "fetches")
		for i := 0; i < n; i++ {
			f := idFetch{Kind: "ok", Validity: rapid.SampledFrom([]time.Duration{10 * time.Minute, time.Hour, 24 * time.Hour}).Draw(rt, "validity")}
			if i > 0 {
				f.Kind = rapid.SampledFrom([]string{"ok", "ok", "ok", "fail", "anchors-fail"}).Draw(rt, "kind")
			}
			c.Fetches = append(c.Fetches, f)
		}
		writes, err := runIdentityDir(t, c)
		if err != nil {
			rt.Fatalf("C18 identity directory violated: %v\ncase: %s", err, c)
		}
		cls := []string{fmt.Sprintf("identitydir.writes=%d", min(writes, 4))}
		for _, f := range c.Fetches {
			if f.Kind != "ok" {
				cls = append(cls, "identitydir.with-"+f.Kind)
				break
			}
		}
		sec.Case(writes >= 2, vk.FP(c.String()), cls...)
		sec.Sample(func() any { return c.String() })
	})
}
