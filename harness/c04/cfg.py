CFG = dict(
     claimed=True,
     rule="Cases: (parser option set [ParseStandard, 5/6 fields, required/optional seconds, optional day-of-week, reduced field subsets, "
          "descriptors on/off], expression drawn from the documented grammar [*, ?, n, n-m, */s, n/s, n-m/s, lists of 1-3 terms, month/day "
          "names in any case, @-descriptors, @every d], optional TZ=/CRON_TZ= prefix, schedule zone [fixed-offset, ordinary DST, unusual "
          "transitions: half-hour shifts, transitions at local midnight, whole-day skips], start instant [uniform 1990-2035, +-36 h around "
          "the zone's transitions, month/year ends, leap days, 2096-2104 for the five-year bound; random nanoseconds], location in which the "
          "instant is presented). Non-trivial (Next cases): the expression is accepted, at least one field is restricted, and the search "
          "wrapped a field (hit in a later minute/hour/day/month/year than the first candidate second), crossed a zone transition, or used "
          "either-day matching; distinct by (expression, option set, zone, start-instant class). Refusal cases (one damage per listed class) "
          "and the sweeps (every single term of every field; every inverted pair / zero step / out-of-range value; 29-February starts across "
          "2000 and 2100) count each distinct input; @every cases are non-trivial when the start has a sub-second part or d is fractional or "
          "below one second.",
     assumptions=["the Go standard library's time zone database look-ups (Zone, ZoneBounds, LoadLocation; embedded time/tzdata as fallback) are correct; "
                  "where ZoneBounds reports an already-past end for extrapolated rules (31 December of leap years after 2037) only offsets are trusted",
                  "a schedule without a TZ=/CRON_TZ= prefix is interpreted in the location of the instant passed to Next (as spec.go documents and the Cron runner arranges)",
                  "'restricted' for the either-day rule is read from doc.go: a field containing a bare * or ? is unrestricted, */n (n>1) is 'first-last/n' and hence restricted; "
                  "'*/1' and a star inside a longer list are not settled by the documentation and both readings are accepted",
                  "'@every d' with a sub-second part in d drops it, as constantdelay.go documents",
                  "rapid v1.3.0 and the Go runtime are correct"],
     technique="property-based testing (rapid) + exhaustive single-term enumeration against an independent reference (refcron: grammar parser written from "
               "doc.go + brute-force earliest-matching-second search over the zone's constant-offset periods), metamorphic laws, mutation of valid expressions "
               "into each refusal class",
     level_text="Generated-input search: every case runs kit's real Parse and Next and is judged by an explicit oracle that shares no code with kit (reference "
                "parse into value sets and star flags; calendar enumeration in a fixed-offset view of each zone period, no DST reasoning). Exhaustive for single "
                "terms of every field (value sets recovered by chaining Next through a full cycle) and for the refusal grids; sampled for lists, option sets, "
                "zones and start instants. Non-termination is detected by a real-time deadline (60 s, >10^4 x the slowest legitimate call). No absence claim.",
     level_note="Trusts the Go time package (zone data and ZoneBounds), rapid, and the harness' own reference implementation (self-tested on hand-computed "
                "instants incl. New York gap/overlap, Apia's skipped day, Lord Howe's half-hour shift, and against a second-by-second scan).",
     timeout_quick=600, timeout_thorough=3000)
CFG["fuzz"] = [dict(target="FuzzNext", seconds=90)]
CFG["technique"] += " + coverage-guided native fuzzing of the Next property in the thorough tier (go test -fuzz over rapid's bit stream)"
CFG["rule"] += ' Steps around the widths of machine integers (2^31, 2^32, 2^63, 2^64, and 2^64-d / 2^32-d for small d, which bring start+step back into range in an unsigned sum) are drawn in terms and swept exhaustively over every single-term form; each selects the start value only or is refused.'
CFG["rule"] += ' Names of the field in the step position are a refusal class (rapid + sweep). TestLateLeapYear: starts in the last weeks of leap years 2040-2096 in rule-based zones east and west of Greenwich with sparse schedules (enumerated; a rotating quarter in the quick tier).'
