package c15

import (
	"fmt"
	"sync"
	"sync/atomic"
	"testing"

	"github.com/dapr/kit/ttlcache"
	"pgregory.net/rapid"

	"verifharness/vk"
)

// Bulk operations against bystanders (real threads): while one goroutine runs Reset / Cleanup / a run of Deletes, others
// Set FRESH keys. The oracle is one-sided and needs no timing: keys that were set before and that nobody touched
// since are decided by the bulk operation alone - after Reset they all miss; after Cleanup and after Deletes of OTHER
// keys they all still hit (long TTL) with their values. Keys written concurrently may go either way.
type bulkConcCase struct {
	Old     int    // untouched keys set before
	Op      string // reset | cleanup | delete-others
	Writers int
	Initial int32
	Stopped bool // Stop was called before the bulk operation: only the background cleaner ends, the cache stays usable
}

func (c bulkConcCase) String() string { return fmt.Sprintf("bulk.concurrent%+v", bulkConcPlain(c)) }

type bulkConcPlain bulkConcCase

func runBulkConc(c bulkConcCase) error {
	cache := ttlcache.NewCache[int](ttlcache.CacheOptions{InitialSize: c.Initial})
	defer cache.Stop()
	for i := 0; i < c.Old; i++ {
		cache.Set(fmt.Sprintf("old-%d", i), i, 100000)
	}
	for i := 0; i < c.Old/2; i++ {
		cache.Set(fmt.Sprintf("victim-%d", i), -i, 100000)
	}
	if c.Stopped {
		cache.Stop()
	}
	var stop atomic.Bool
	var wg sync.WaitGroup
	started := make(chan struct{}, c.Writers)
	for w := 0; w < c.Writers; w++ {
		wg.Add(1)
		go func() {
			defer wg.Done()
			started <- struct{}{}
			for n := 0; !stop.Load() && n < 200000; n++ {
				cache.Set(fmt.Sprintf("fresh-%d-%d", w, n), n, 100000)
			}
		}()
	}
	for w := 0; w < c.Writers; w++ {
		<-started
	}
	switch c.Op {
	case "reset":
		cache.Reset()
	case "cleanup":
		cache.Cleanup()
	case "delete-others":
		for i := 0; i < c.Old/2; i++ {
			cache.Delete(fmt.Sprintf("victim-%d", i))
		}
	}
	stop.Store(true)
	wg.Wait()
	vk.Progress()
	for i := 0; i < c.Old; i++ {
		k := fmt.Sprintf("old-%d", i)
		v, ok := cache.Get(k)
		switch c.Op {
		case "reset":
			if ok {
				return fmt.Errorf("Get(%s)=%d after Reset returned: the key was set before the Reset and nobody touched it since", k, v)
			}
		default:
			if !ok || v != i {
				return fmt.Errorf("Get(%s) = (%d, %v) after %s: the entry is live (TTL 100000 s), nobody touched it, want %d", k, v, ok, c.Op, i)
			}
		}
	}
	if c.Op == "delete-others" || c.Op == "reset" {
		for i := 0; i < c.Old/2; i++ {
			if v, ok := cache.Get(fmt.Sprintf("victim-%d", i)); ok {
				return fmt.Errorf("Get(victim-%d)=%d after it was deleted / reset", i, v)
			}
		}
	}
	return nil
}

func TestBulkConcurrent(t *testing.T) {
	sec := vk.Sec("BulkConcurrent")
	vk.Check(t, 40, 4000, func(rt *rapid.T) {
		c := bulkConcCase{Old: rapid.SampledFrom([]int{64, 1000, 4000}).Draw(rt, "old"), Op: rapid.SampledFrom([]string{"reset", "reset", "cleanup", "delete-others"}).Draw(rt, "op"),
			Writers: rapid.IntRange(1, 4).Draw(rt, "writers"), Initial: rapid.SampledFrom([]int32{0, 0, 16}).Draw(rt, "initial"), Stopped: rapid.IntRange(0, 2).Draw(rt, "stopped") == 0}
		var err error
		vk.Guard("C15 bulk operation with concurrent writers: "+c.String(), func() { err = runBulkConc(c) })
		if err != nil {
			rt.Fatalf("C15 ttlcache violated: %v\ncase: %s", err, c)
		}
		after := ""
		if c.Stopped {
			after = "bulk-concurrent.after-Stop"
		}
		sec.Case(true, vk.FP(c.String()), "bulk-concurrent."+c.Op, after)
		sec.Sample(func() any { return c.String() })
	})
}
