CFG = dict(
     claimed=True,
     rule="Cases: (valid document built by kit's Encrypt or by the reference encoder; plaintext length class {0, small, 1 segment, "
          "1 segment + 1, 2 segments, 2.5 segments}; cipher; 0-3 mutations from {bit flip in scheme line / manifest / MAC / line feeds / "
          "segment body / tag; truncation inside header / after header / mid-segment / at a segment boundary / inside a tag / last byte; "
          "appended bytes; appended segment sealed with the right, another or the all-zero key; segment delete / duplicate / swap; segment "
          "spliced from another document (same key other prefix, other key); header field edit unsigned or re-signed with the file key; "
          "byte insertion / removal; whole document fabricated under an attacker-chosen key}; unwrap callback {good, other key, wrong "
          "length, error}; sticky source error at an offset class, alone or with data; read-size script of the source; consumer script). "
          "Non-trivial: the mutations changed at least one byte of a document with non-empty plaintext, or a source fault was injected "
          "before the end. Distinct by (length class, cipher, builder, sorted mutation kinds with position classes, fault class, unwrap "
          "behaviour); sweeps by the full case.",
     assumptions=["sources obey the io.Reader contract and their errors are sticky",
                  "the attacker does not know a key that the unwrap callback returns for the document (insider edits re-signed with the real file key are generated, but never a re-encryption under it)",
                  "AEAD forgery / key collision probabilities are negligible",
                  "refenc (written from the README, self-checked against the repository's stored documents) is a correct reading of the spec",
                  "Go runtime, std crypto, golang.org/x/crypto and rapid v1.3.0 are correct"],
     technique="property-based testing (rapid) with structure-aware mutations + exhaustive single-bit-flip / every-offset truncation / every-offset source-fault sweeps on small documents",
     level_text="Generated-input search: every case runs the real Decrypt on a mutated document and is judged by an explicit oracle: Decrypt "
                "errors, or the stream yields a prefix of the original plaintext (nothing from the first corrupted segment on) followed by a "
                "non-EOF error, or exactly the original plaintext; injected source errors must surface. Exhaustive only for the three small "
                "documents' bit flips, truncations and fault offsets. No absence claim.",
     level_note="Trusts the Go runtime, std/x crypto primitives, rapid and the reference implementation used to build and dissect documents. "
                "The listed known finding (header-only truncation of a non-empty document) is excluded by construction and re-checked from its pinned input.",
     timeout_quick=600, timeout_thorough=2400)
CFG["rule"] += ' Added after independently written breaking changes: Source faults are sticky or one-shot (the error comes from ONE Read call, as with bufio.Reader), alone or together with data; the encrypting direction is covered too (a failing plaintext source must fail the ciphertext stream).'
CFG["fuzz"] = [dict(target="FuzzTamper", seconds=90)]
CFG["technique"] += " + coverage-guided native fuzzing of the same property in the thorough tier (go test -fuzz over rapid's bit stream)"
CFG["rule"] += ' Unwrap callbacks also answer with an error AND 32 key bytes (zeroed, or another key): the error is the answer, nothing may be accepted.'
