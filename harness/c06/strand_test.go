package c06

import (
	"fmt"
	"runtime"
	"sync"
	"sync/atomic"
	"testing"
	"time"

	"github.com/dapr/kit/events/queue"
	kclock "k8s.io/utils/clock"
	clocktesting "k8s.io/utils/clock/testing"
	"pgregory.net/rapid"

	"verifharness/vk"
)

// Stranding under real threads. "An item is never left queued with no loop serving it": the windows in which the loop
// goroutine is on its way OUT (it found the queue empty, or the item it was waiting for has just been dequeued) have no
// library call in them, so they are searched by repetition on real threads. The harness owns the processor's clock: the
// loop's Now() call sits between its peek and its execute, and is used to dequeue the peeked item (shape
// "dequeue-peeked") and to release a racing Enqueue of another, already due, item at the right moment. The verdict is a
// state predicate, not a timeout: the racing Enqueue has returned, no goroutine created by the package exists any more,
// and the due item has not been handed to the callback.
type hookClock struct {
	kclock.WithTicker
	onNow atomic.Pointer[func()]
}

func (c *hookClock) Now() time.Time {
	if f := c.onNow.Load(); f != nil {
		(*f)()
	}
	return c.WithTicker.Now()
}

type strandCase struct {
	Shape    string // dequeue-peeked | after-execute | dequeue-peeked+enqueue-same
	Attempts int
	Spin     int
}

func (c strandCase) String() string { return fmt.Sprintf("proc.strand%+v", strandPlain(c)) }

type strandPlain strandCase

func queueGoroutines() int {
	buf := make([]byte, 1<<20)
	n := runtime.Stack(buf, true)
	count := 0
	for _, blk := range splitBlocks(buf[:n]) {
		if containsCreatedBy(blk, "events/queue.") {
			count++
		}
	}
	return count
}

func splitBlocks(dump []byte) [][]byte {
	var out [][]byte
	start := 0
	for i := 0; i+1 < len(dump); i++ {
		if dump[i] == '\n' && dump[i+1] == '\n' {
			out = append(out, dump[start:i])
			start = i + 2
		}
	}
	return append(out, dump[start:])
}

func containsCreatedBy(blk []byte, pkg string) bool {
	s := string(blk)
	i := lastIndex(s, "created by ")
	return i >= 0 && indexOf(s[i:], pkg) >= 0
}

func lastIndex(s, sub string) int {
	for i := len(s) - len(sub); i >= 0; i-- {
		if s[i:i+len(sub)] == sub {
			return i
		}
	}
	return -1
}

func indexOf(s, sub string) int {
	for i := 0; i+len(sub) <= len(s); i++ {
		if s[i:i+len(sub)] == sub {
			return i
		}
	}
	return -1
}

func runStrand(c strandCase) error {
	start := time.Date(2024, 1, 1, 0, 0, 0, 0, time.UTC)
	fake := clocktesting.NewFakeClock(start)
	for attempt := 1; attempt <= c.Attempts; attempt++ {
		var executedX, executedA atomic.Bool
		clk := &hookClock{WithTicker: fake}
		p := queue.NewProcessor[int, *item](func(r *item) {
			if r.key == 7 {
				executedX.Store(true)
			} else {
				executedA.Store(true)
			}
		}).WithClock(clk)
		var goX, once atomic.Bool
		hook := func() {
			if once.CompareAndSwap(false, true) {
				// on the loop goroutine, between the peek of item a and its execution
				if c.Shape != "after-execute" {
					p.Dequeue(1)
				}
				goX.Store(true)
			}
		}
		clk.onNow.Store(&hook)
		var done sync.WaitGroup
		done.Add(1)
		spin := (attempt * 7) % (c.Spin + 1)
		go func() {
			defer done.Done()
			for !goX.Load() {
				runtime.Gosched()
			}
			for i := 0; i < spin; i++ {
				_ = goX.Load()
			}
			p.Enqueue(&item{key: 7, due: start, id: 7})
		}()
		p.Enqueue(&item{key: 1, due: start, id: 1})
		done.Wait()
		// the racing Enqueue has returned: x is due; it runs as soon as a loop gets to it
		for i := 0; i < 200 && !executedX.Load(); i++ {
			runtime.Gosched()
		}
		if !executedX.Load() {
			// not yet: is anybody still working on it?
			idle := 0
			for i := 0; i < 2000 && !executedX.Load(); i++ {
				if queueGoroutines() == 0 {
					idle++
					if idle >= 2 {
						break
					}
				} else {
					idle = 0
				}
				runtime.Gosched()
			}
			if !executedX.Load() && idle >= 2 && queueGoroutines() == 0 && !executedX.Load() {
				return fmt.Errorf("attempt %d: an item that was due when Enqueue returned has not been handed to the callback, and no goroutine of the processor exists any more: it is left queued with no loop serving it", attempt)
			}
		}
		if c.Shape == "after-execute" && !executedA.Load() {
			for i := 0; i < 2000 && !executedA.Load(); i++ {
				runtime.Gosched()
			}
		}
		_ = p.Close()
		if attempt%2048 == 0 {
			vk.Progress()
		}
	}
	return nil
}

func TestProcessorStrandStress(t *testing.T) {
	sec := vk.Sec("ProcessorStrandStress")
	vk.Check(t, 6, 400, func(rt *rapid.T) {
		c := strandCase{Shape: rapid.SampledFrom([]string{"dequeue-peeked", "dequeue-peeked", "after-execute"}).Draw(rt, "shape"),
			Attempts: 50000, Spin: rapid.SampledFrom([]int{0, 16, 64, 256}).Draw(rt, "spin")}
		var err error
		vk.Guard("C06 queue.Processor stranding stress: "+c.String(), func() { err = runStrand(c) })
		if err != nil {
			rt.Fatalf("C06 queue.Processor violated: %v\ncase: %s", err, c)
		}
		sec.Case(true, vk.FP(c.String()), "strand."+c.Shape)
		sec.Sample(func() any { return c.String() })
	})
}
