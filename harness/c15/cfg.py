CFG = dict(
     claimed=True,
     rule="Cases: cache options (MaxTTL 0|2|5, CleanupInterval 1|3|7 s|default, InitialSize 0|1|8) x histories of up to 24 "
          "operations over 10 keys {Set(key, ttl 1..8), Get, Delete, Cleanup, Reset, advance to 1 ns before / exactly at / 1 ns "
          "after the next expiry or by a duration, group = 2..4 goroutines issuing 1..4 ops each at one virtual instant}, run in a "
          "synctest bubble on the cache's default (virtual) clock with the periodic cleaner really ticking; after every step a "
          "sweep reads ALL keys and compares with a reference map of (value, expiry). Exhaustive grid ttl x MaxTTL x boundary "
          "offset. Non-trivial: history with both hits and misses and an overwrite, a boundary advance, a cleanup that removed "
          "something next to live entries, or a concurrent group. Distinct by the full history.",
     technique="model-based property testing (rapid, scripted histories in testing/synctest bubbles, reference map with expiries) + exhaustive boundary grid",
     level_text="Generated histories against a reference model, exact after every settled step; concurrent groups are judged by the "
                "set of outcomes any order of the group's writes allows (plus the documented cleanup/refresh race). Interleavings "
                "inside a group are the Go scheduler's (statistical).",
     level_note="Trusts testing/synctest virtual time, the Go runtime and rapid; the cache's unexported clock option is not needed "
                "because the default real clock is virtual inside a bubble.",
     assumptions=["testing/synctest virtual time and Wait() are correct", "ttl > 0 (ttl <= 0 is a documented programmer-misuse panic)"],
     timeout_quick=300, timeout_thorough=2400)
CFG["rule"] += ' Added after independently written breaking changes: Bulk sizes: entry counts around powers of two (to 1025; thorough to 8193) with every split of short/long TTLs through Cleanup, Delete and Reset.'
CFG["rule"] += " TestStopDuringPeriodicPass: Stop called at the instant of a tick over 50k-300k expired entries; at Stop's return no goroutine started by the cache may still be inside Cleanup (census by creator and frame; non-trivial: Stop was called with a pass in flight)."
CFG["rule"] += (" Option values at and beyond the documented boundaries (the model follows the documentation: MaxTTL caps only 'if greater than 0'): "
                "MaxTTL in {MinInt64, -3600, -2, -1, 0, 1, 2, 5, around the number of seconds a Duration holds, MaxInt64}, CleanupInterval in {MinInt64, negative, 0 = default, "
                "250 ms .. 7 s, 1 h, MaxInt64}, InitialSize in {MinInt32, negative, 0, 1, 8, 4096} drawn for every generated history, and TestOptionBoundaries: the complete grid "
                "of those values x ttl {1, 2, 3, 10, around the Duration limit, MaxInt64} x advance to 1 ns before / at / 1 ns after the expiry, with Cleanup at each stop (classes option.*). "
                "The cache stays usable after Stop (only the background cleaner ends): every second history has a Stop at a drawn position and goes on with Set/Get/Delete/Cleanup/Reset/"
                "advances/groups under the same reference map; a group may contain a Stop (classes operations-after-Stop, group-after-Stop, Stop-inside-concurrent-group); "
                "TestBulkConcurrent runs a third of its cases on a stopped cache. "
                "TestSameKeyRace (real threads in a bubble, virtual clock standing still during the race): 64..4000 keys in every state (1 s entry still live / exactly expired / expired "
                "and not cleaned / cleaned, long entry, absent), Stop never / before / after the ageing, 1..3 setters walking over their own keys (Set once or twice, then Get) while 1..4 "
                "getters read exactly the key a setter has announced it is writing (plus untouched bystanders), optionally a goroutine calling Cleanup all the time. Oracle without "
                "timing: a Get by the goroutine whose Set of that key has returned hits with that value (nobody deletes or resets, no TTL passes); the same for all keys after the join; "
                "a getter's hit is a value Set in the race or the unexpired old one; the only accepted loss is the documented cleanup/refresh race (concurrent Cleanup and an expired old entry); "
                "afterwards 1 ns before / at the new expiry. Non-trivial: at least one key with an expired old entry was Set under reading.")
CFG["rule"] += (" THE CLOCK MOVES WHILE A CALL IS IN PROGRESS (a call that is descheduled, or waits for the writers' lock, for longer than a TTL; virtual time in a bubble cannot do "
                "that - it stands still while any goroutine runs or waits for a mutex - so these two tests run the cache on a scripted clock put into CacheOptions' own unexported test "
                "option 'clock' by reflection; if a build has no such option they record moving-clock.seam-unavailable-nothing-checked and check nothing). "
                "TestClockMovesDuringCalls: MaxTTL {0, -1, 1, 2, 5, 10^6} x histories of up to 16 operations over 4 keys {Set(ttl 1|2|3|5|100|10^6), Get, Delete, Cleanup, Reset, a periodic pass "
                "(the cleaner's ticker fired by the case), advance to 1 ns before / at / 1 ns after the lower or upper bound of a key's expiry or by a duration}, where the clock moves "
                "right after EVERY read made during the operation by {0, 1 ns, TTL-1 ns, TTL, TTL+1 ns, 1 ns..200 s}: two reads inside one call differ by that amount. Oracle by call spans: "
                "a hit returns the value of the most recent Set that has returned (never a superseded or deleted one, whatever the clock did); must hit while less than the TTL has passed "
                "between the Set being called and the Get returning; must miss once the TTL has passed between the Set returning and the Get being called; in between both (the band is "
                "empty when the clock stands still during the calls: then it is the exact model); full sweep of all keys after every step. Non-trivial: the clock moved by at least the "
                "(capped) TTL inside a Set of a key that held a live older value, with hits and misses in the history (classes moving-clock.*). "
                "TestClockMovesDuringLockWait (real threads): every read of the clock by anybody moves it by 1 ms..3 s; 1..3 setters run rounds Set(k, old, TTL of years); Set(k, new, TTL 1..3 s); "
                "Get(k) on keys of their own while a cleaner deletes 500..30000 expired entries under the writers' lock and puts them back, 0..2 writers set and delete other keys and 0..2 readers "
                "read the setters' keys, GOMAXPROCS default|2|4, until the cleaner has finished 1..3 passes. One-sided oracle without timing: a hit after the Set of new returned is new, never "
                "old; no hit once the TTL has passed since that Set returned; a reader never sees a key's values go backwards; after the join a key holds its last value or nothing; a miss is "
                "always accepted (documented cleanup/refresh race). Non-trivial: a Set during which the clock moved by at least its TTL, and hits (classes moving-clock.lock-wait.*, "
                "incl. the count of Sets during which only the OTHER goroutines' reads carried the clock past the TTL, i.e. while it waited).")
CFG["assumptions"] = CFG["assumptions"] + ["the moving-clock tests reach the cache's clock through CacheOptions' unexported test field 'clock' (reflection; same seam as the repository's in-package tests)"]
