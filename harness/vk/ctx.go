package vk

import (
	"context"
	"runtime"
	"sync"
	"time"
)

// RelayCtx is a context of a caller's own type: it ends when its parent ends, but the context package does not know
// its cancellation machinery (Value hides it), and its Done channel is closed by a relay goroutine a number of
// scheduler yields after the parent's. Code under test that attaches work to such a context (context.AfterFunc,
// context.WithCancel, a watcher goroutine) learns of its end later than code that selects on Done directly - the same
// ordering a busy parent context with many children gives.
type RelayCtx struct {
	parent context.Context
	done   chan struct{}
	mu     sync.Mutex
	err    error
}

// NewRelayCtx starts the relay goroutine; it ends when parent ends.
func NewRelayCtx(parent context.Context, yields int) *RelayCtx {
	r := &RelayCtx{parent: parent, done: make(chan struct{})}
	go func() {
		<-parent.Done()
		for i := 0; i < yields; i++ {
			runtime.Gosched()
		}
		r.mu.Lock()
		r.err = parent.Err()
		r.mu.Unlock()
		close(r.done)
	}()
	return r
}

func (r *RelayCtx) Deadline() (time.Time, bool) { return r.parent.Deadline() }
func (r *RelayCtx) Done() <-chan struct{}       { return r.done }
func (r *RelayCtx) Value(any) any               { return nil }
func (r *RelayCtx) Err() error {
	r.mu.Lock()
	defer r.mu.Unlock()
	return r.err
}

// BusyParent gives ctx n further children (cancel contexts that stay registered until ctx ends), so that the end of
// ctx is propagated to its children one after the other, in the order of a map iteration.
func BusyParent(ctx context.Context, n int) {
	for i := 0; i < n; i++ {
		c, cancel := context.WithCancel(ctx)
		_, _ = c, cancel
	}
}
