package c08

// The "own" workers: what a call returned is the caller's to keep and to modify (unless the function's documentation
// says otherwise - none of the functions below does). A worker calls a package function that returns a slice or a
// pointer - a list of algorithm names, marshalled bytes, a parsed schedule -, keeps ITS OWN result and scribbles over it
// in place the way callers post-process such results (sort for display, reverse, overwrite, the in-place filter idiom
// list[:0] + append, delete the first element, clear). Whatever one caller does to its own result, every other caller -
// and the same caller calling again - gets what the function returns when nothing else runs in the process: the result
// of the FIRST call of the process, captured for every target before any worker has scribbled over anything.
//
// Package-level shared state would show as: a fresh result that is not the first result (BROKEN, already in the solo
// phase: the second repetition, or the next worker with the same target), a kept result that changes while its owner
// holds it (BROKEN), and a data race between two scribblers (race detector).

import (
	"fmt"
	"sort"
	"strings"
	"sync"
	"time"

	"github.com/dapr/kit/cron"
	kit "github.com/dapr/kit/crypto"
	enc "github.com/dapr/kit/schemes/enc/v1"
)

// ownResult is a handle on what one call returned.
type ownResult interface {
	text() string                                // the content, canonical
	scribble(style string, seed uint64, idx int) // modifies the result in place
}

type ownTarget struct {
	name string
	call func() ownResult
}

// ---------------------------------------------------------------- result shapes

type errResult struct{ err error }

func (e errResult) text() string                 { return "err=" + e.err.Error() }
func (e errResult) scribble(string, uint64, int) {}

// scribbleSlice does to s, in place, what style says. s is never resliced: the caller goes on holding all of it.
func scribbleSlice[T any](s []T, style string, seed uint64, less func(a, b T) bool, junk func(i int) T) {
	var zero T
	switch style {
	case "sort":
		sort.SliceStable(s, func(i, j int) bool { return less(s[i], s[j]) })
	case "reverse":
		for i, j := 0, len(s)-1; i < j; i, j = i+1, j-1 {
			s[i], s[j] = s[j], s[i]
		}
	case "overwrite":
		for i := range s {
			s[i] = junk(i)
		}
	case "filter": // the in-place filter idiom; which elements stay is decided by the bits of seed
		kept := s[:0]
		for i, x := range s {
			if seed>>(uint(i)%64)&1 == 1 {
				kept = append(kept, x)
			}
		}
		_ = kept
	case "shift": // delete the first element: slices.Delete(s, 0, 1), which zeroes the vacated tail
		if len(s) > 0 {
			copy(s, s[1:])
			s[len(s)-1] = zero
		}
	case "clear":
		for i := range s {
			s[i] = zero
		}
	}
}

type stringList struct{ s []string }

func (l stringList) text() string {
	return fmt.Sprintf("%d[%s]", len(l.s), strings.Join(l.s, " "))
}

func (l stringList) scribble(style string, seed uint64, idx int) {
	scribbleSlice(l.s, style, seed, func(a, b string) bool { return a < b }, func(i int) string { return fmt.Sprintf("w%d-own-%d", idx, i) })
}

type byteList struct{ b []byte }

func (l byteList) text() string { return fmt.Sprintf("%d[%q]", len(l.b), l.b) }

func (l byteList) scribble(style string, seed uint64, idx int) {
	scribbleSlice(l.b, style, seed, func(a, b byte) bool { return a < b }, func(i int) byte { return byte('a' + (idx+i)%26) })
}

type specResult struct{ s *cron.SpecSchedule }

func (r specResult) text() string {
	s := r.s
	return fmt.Sprintf("SpecSchedule{sec=%x min=%x hour=%x dom=%x month=%x dow=%x loc=%v}", s.Second, s.Minute, s.Hour, s.Dom, s.Month, s.Dow, s.Location)
}

func (r specResult) scribble(style string, seed uint64, idx int) {
	s := r.s
	switch style {
	case "sort", "reverse", "shift": // the fields change places
		s.Second, s.Minute, s.Hour, s.Dom, s.Month, s.Dow = s.Dow, s.Second, s.Minute, s.Hour, s.Dom, s.Month
		s.Location = time.FixedZone(fmt.Sprintf("w%d", idx), 3600*(1+idx%11))
	case "overwrite":
		s.Second, s.Minute, s.Hour, s.Dom, s.Month, s.Dow = seed|1, seed>>3|1, seed>>7|1, seed>>11|2, seed>>13|2, seed>>17|1
		s.Location = time.FixedZone(fmt.Sprintf("w%d", idx), -3600*(1+idx%11))
	case "filter":
		s.Second &= seed
		s.Minute &= seed >> 5
		s.Hour &^= 0xfff
		s.Dom &= seed >> 9
		s.Location = time.FixedZone(fmt.Sprintf("w%d", idx), 1800)
	case "clear":
		*s = cron.SpecSchedule{}
	}
}

func scheduleResult(s cron.Schedule, err error) ownResult {
	if err != nil {
		return errResult{err}
	}
	if spec, ok := s.(*cron.SpecSchedule); ok {
		return specResult{spec}
	}
	return errResult{fmt.Errorf("harness: a %T, not a *cron.SpecSchedule", s)}
}

// ---------------------------------------------------------------- targets

// ownTargets: every exported function of the packages C08 covers that returns a slice, or a pointer to a structure with
// exported fields, whose content does not come from the caller's arguments alone (so that it could be served from
// package-level data). The first ownListTargets are the lists of names.
var ownTargets = func() []ownTarget {
	ts := []ownTarget{
		{"crypto.SupportedSymmetricAlgorithms()", func() ownResult { return stringList{kit.SupportedSymmetricAlgorithms()} }},
		{"crypto.SupportedAsymmetricAlgorithms()", func() ownResult { return stringList{kit.SupportedAsymmetricAlgorithms()} }},
		{"crypto.SupportedSignatureAlgorithms()", func() ownResult { return stringList{kit.SupportedSignatureAlgorithms()} }},
	}
	for _, a := range []enc.KeyAlgorithm{enc.KeyAlgorithmAES256KW, enc.KeyAlgorithmAES128CBC, enc.KeyAlgorithmRSAOAEP256, enc.KeyAlgorithmAES, "unknown"} {
		ts = append(ts, ownTarget{fmt.Sprintf("enc.KeyAlgorithm(%q).MarshalJSON()", string(a)), func() ownResult {
			b, err := a.MarshalJSON()
			if err != nil {
				return errResult{err}
			}
			return byteList{b}
		}})
	}
	for _, c := range []enc.Cipher{enc.CipherAESGCM, enc.CipherChaCha20Poly1305} {
		ts = append(ts, ownTarget{fmt.Sprintf("enc.Cipher(%q).MarshalJSON()", string(c)), func() ownResult {
			b, err := c.MarshalJSON()
			if err != nil {
				return errResult{err}
			}
			return byteList{b}
		}})
	}
	for _, spec := range []string{"@daily", "@hourly", "@weekly", "@yearly", "0 12 * * *", "*/5 * * * MON-FRI", "TZ=Asia/Tokyo 30 4 1 * *"} {
		ts = append(ts, ownTarget{fmt.Sprintf("cron.ParseStandard(%q)", spec), func() ownResult { return scheduleResult(cron.ParseStandard(spec)) }})
	}
	for _, spec := range []string{"@monthly", "@midnight", "15 30 4 * * *"} {
		ts = append(ts, ownTarget{fmt.Sprintf("cron.NewParser(SecondOptional|Minute|Hour|Dom|Month|Dow|Descriptor).Parse(%q)", spec), func() ownResult {
			return scheduleResult(cron.NewParser(cron.SecondOptional | cron.Minute | cron.Hour | cron.Dom | cron.Month | cron.Dow | cron.Descriptor).Parse(spec))
		}})
	}
	return ts
}()

const ownListTargets = 3

var (
	ownTargetNames = func() []string {
		var ns []string
		for _, t := range ownTargets {
			ns = append(ns, t.name)
		}
		return ns
	}()
	ownBaseOnce sync.Once
	ownBase     map[string]string
)

// ownBaseline is what the first call of the process returned for the target. The first request captures it for EVERY
// target, and every worker asks for it before it scribbles: all of it is captured before anyone has modified any result.
func ownBaseline(name string) string {
	ownBaseOnce.Do(func() {
		ownBase = map[string]string{}
		for _, t := range ownTargets {
			ownBase[t.name] = t.call().text()
		}
	})
	return ownBase[name]
}

func ownTargetClass(name string) string {
	switch {
	case strings.HasPrefix(name, "crypto.Supported"):
		return "list-of-algorithm-names"
	case strings.Contains(name, "MarshalJSON"):
		return "marshalled-bytes"
	}
	return "parsed-schedule"
}

// ---------------------------------------------------------------- worker

type ownWorker struct {
	w      wspec
	idx    int
	env    *phaseEnv
	target ownTarget
}

func newOwnWorker(w wspec, idx int, env *phaseEnv) *ownWorker {
	o := &ownWorker{w: w, idx: idx, env: env}
	for _, t := range ownTargets {
		if t.name == w.Target {
			o.target = t
		}
	}
	if o.target.call == nil {
		panic("harness: unknown own target " + w.Target)
	}
	return o
}

func (o *ownWorker) begin() {}

func (o *ownWorker) rep(r int) string {
	o.env.enter(-1)
	defer o.env.leave(-1)
	first := ownBaseline(o.target.name)
	res := o.target.call()
	got := res.text()
	out := o.target.name + " = " + got
	if got != first {
		out += fmt.Sprintf(" BROKEN: not what the first call of the process returned, before any caller had modified its own result (%s)", first)
	}
	// the result is the worker's own: it post-processes it in place and goes on holding it
	res.scribble(o.w.Scribble, o.w.Seed+uint64(r)*7919, o.idx)
	mine := res.text()
	o.w.pause()
	if now := res.text(); now != mine {
		out += fmt.Sprintf(" BROKEN: the worker's own result (%s in place: %s) changed while the worker held it, now %s", o.w.Scribble, mine, now)
	}
	again := o.target.call().text()
	out += " | called again after the worker's " + o.w.Scribble + " of its own result: " + again
	if again != first {
		out += fmt.Sprintf(" BROKEN: not what the first call of the process returned (%s)", first)
	}
	return out
}
