package c05

import (
	"fmt"
	"runtime"
	"sync"
	"testing"
	"testing/synctest"
	"time"

	"github.com/dapr/kit/cron"
	clocktesting "k8s.io/utils/clock/testing"

	"verifharness/vk"
)

// Entries added by several goroutines at once (stopped cron and running cron). "Whatever other entries are added or
// removed meanwhile": every Schedule / AddFunc call gets an entry of its own - the ids handed out are all different,
// Entries lists every one of them - and removing one entry removes that entry only: all others are still started once at
// the next activation instant.
func TestCronParallelSchedule(t *testing.T) {
	sec := vk.Sec("CronParallelSchedule")
	for _, running := range []bool{false, true} {
		for _, procs := range []int{0, 4} {
			name := fmt.Sprintf("cron.parallel-schedule{running=%v goroutines=8 adds-each=%d gomaxprocs=%d}", running, vk.Pick(150, 1500), procs)
			var errs vk.Errs
			berr := vk.Bubble(t, name, func() {
				if procs > 0 {
					defer runtime.GOMAXPROCS(runtime.GOMAXPROCS(procs))
				}
				fake := clocktesting.NewFakeClock(time.Date(2024, 1, 1, 0, 0, 0, 0, time.UTC))
				cr := cron.New(cron.WithClock(fake), cron.WithLocation(time.UTC), cron.WithLogger(quietLogger{}))
				if running {
					cr.Start()
					synctest.Wait()
				}
				const G = 8
				per := vk.Pick(150, 1500)
				var mu sync.Mutex
				starts := map[int]int{} // job number -> starts
				ids := make([][]cron.EntryID, G)
				gate := make(chan struct{})
				var wg sync.WaitGroup
				for g := 0; g < G; g++ {
					wg.Add(1)
					go func() {
						defer wg.Done()
						<-gate
						for k := 0; k < per; k++ {
							n := g*per + k
							job := cron.FuncJob(func() { mu.Lock(); starts[n]++; mu.Unlock() })
							if k%2 == 0 {
								ids[g] = append(ids[g], cr.Schedule(cron.Every(time.Hour), job))
							} else {
								id, err := cr.AddJob("@every 1h", job)
								if err != nil {
									errs.Failf("AddJob: %v", err)
									return
								}
								ids[g] = append(ids[g], id)
							}
						}
					}()
				}
				synctest.Wait()
				close(gate)
				wg.Wait()
				synctest.Wait()
				owner := map[cron.EntryID]int{}
				for g := range ids {
					for k, id := range ids[g] {
						if prev, dup := owner[id]; dup {
							errs.Failf("two Schedule/AddJob calls issued at the same time were handed the same entry id %d (job %d and job %d): removing one would remove the other caller's entry", id, prev, g*per+k)
							return
						}
						owner[id] = g*per + k
					}
				}
				if n := len(cr.Entries()); n != G*per {
					errs.Failf("%d entries were added, Entries lists %d", G*per, n)
					return
				}
				// remove one entry: only that one stops being started
				victim := ids[3][per/2]
				cr.Remove(victim)
				if !running {
					cr.Start()
				}
				synctest.Wait()
				fake.Step(time.Hour)
				synctest.Wait()
				<-cr.Stop().Done()
				mu.Lock()
				defer mu.Unlock()
				for n := 0; n < G*per; n++ {
					want := 1
					if n == owner[victim] {
						want = 0
					}
					if starts[n] != want {
						errs.Failf("job %d was started %d times at the activation instant after entry %d (job %d) had been removed, want %d", n, starts[n], victim, owner[victim], want)
						return
					}
				}
			})
			if e := errs.Err(); e != nil {
				t.Fatalf("C05 cron runner violated: %v\ncase: %s", e, name)
			}
			if berr != nil {
				t.Fatalf("C05 cron runner violated: %v\ncase: %s", berr, name)
			}
			sec.Case(true, vk.FP(name), "parallel-schedule")
			sec.Sample(func() any { return name })
		}
	}
}
