package c19

import (
	"testing"

	"verifharness/vk"
)

func TestMain(m *testing.M) { vk.Main(m) }
