package c15

import (
	"fmt"
	"sync"
	"sync/atomic"
	"testing"
	"testing/synctest"
	"time"

	"github.com/dapr/kit/ttlcache"
	"pgregory.net/rapid"

	"verifharness/vk"
)

// Gets racing Sets of the SAME key (real threads), before and - above all - after Stop. Stop ends the background
// cleaner and nothing else: the cache stays usable, so whatever holds for Get/Set/Delete/Cleanup before Stop holds
// afterwards.
//
// A case fills the cache with keys in every state a key can be in (an old entry with a 1 s TTL that is still live,
// exactly expired, or expired for a while and not yet cleaned / already cleaned; an old entry with a long TTL; absent),
// ages them on the virtual clock of a synctest bubble, optionally Stops the cache (before or after the ageing), and
// then lets setter goroutines walk over their own keys - Set (once or twice), then Get - while getter goroutines chase
// them: a setter announces the key it is about to write and the getters read exactly that key at that moment (plus
// bystander keys nobody writes). Optionally one more goroutine calls Cleanup all the time.
//
// Oracle (no timing; virtual time stands still while any goroutine runs, so no TTL passes during the race):
//   - once a Set has returned, a Get of that key by the same goroutine hits with that value: it is the most recent
//     Set, nobody deletes or resets, and no TTL has passed. The only exemption is the documented cleanup/refresh race:
//     if Cleanup calls run concurrently and the key's OLD entry had expired, the fresh value may be removed (a miss,
//     never another value);
//   - the same for every key after all goroutines have been joined;
//   - a hit of a getter returns a value that was live at that moment: one of the values Set for that key in this race
//     or the old value if it has not expired - never the expired old value, never another key's value;
//   - bystander keys (live, nobody touches them) hit all the time; keys no setter owns keep their state;
//   - afterwards the clock moves to 1 ns before the new entries' expiry (hit) and to the expiry (miss).
type raceCase struct {
	Stop     string        // never | before-ageing | after-ageing
	Interval time.Duration // CleanupInterval (0 = default)
	MaxTTL   int64
	Keys     int
	Setters  int
	Getters  int
	Age      time.Duration // age of the 1 s entries when the race starts
	NewTTL   int64
	Cleaner  bool   // a goroutine calling Cleanup during the race
	Mix      uint64 // expands into the per-key state and whether the owner sets once or twice
}

func (c raceCase) String() string { return fmt.Sprintf("samekey-race%+v", raceCasePlain(c)) }

type raceCasePlain raceCase

const (
	preShort  = iota // old entry with TTL 1 s
	preLong          // old entry with TTL 1000 s, set right before the race
	preAbsent        // never set
)

var raceKeys = func() []string {
	out := make([]string, 1<<13)
	for i := range out {
		out[i] = fmt.Sprintf("race-%d", i)
	}
	out[0] = ""
	return out
}()

type raceStats struct {
	expiredUncleanedRaced, lostToCleanupRace int64
}

func runRace(t *testing.T, c raceCase) (st raceStats, err error) {
	var errs vk.Errs
	berr := vk.Bubble(t, c.String(), func() {
		cache := ttlcache.NewCache[int](ttlcache.CacheOptions{MaxTTL: c.MaxTTL, CleanupInterval: c.Interval})
		defer cache.Stop()
		eff := func(ttl int64) time.Duration {
			if c.MaxTTL > 0 && ttl > c.MaxTTL {
				ttl = c.MaxTTL
			}
			return time.Duration(ttl) * time.Second
		}
		mix := vk.Expand(c.Mix, c.Keys)
		pre := func(i int) int { // half of the keys hold a 1 s entry, a quarter a long one, a quarter nothing
			switch v := mix[i] & 7; {
			case v < 4:
				return preShort
			case v < 6:
				return preLong
			}
			return preAbsent
		}
		twice := func(i int) bool { return mix[i]&8 != 0 }
		owned := func(i int) bool { return mix[i]&0x70 != 0 } // one key in eight has no owner: it keeps its state
		oldVal := func(i int) int { return -(i + 1) }
		newVal := func(i, ver int) int { return (i+1)*4 + ver }
		const bystanders = 8
		by := func(b int) string { return fmt.Sprintf("bystander-%d", b) }

		type ent struct {
			val int
			exp time.Time
		}
		model := make([]*ent, c.Keys)
		for i := 0; i < c.Keys; i++ {
			if pre(i) == preShort {
				cache.Set(raceKeys[i], oldVal(i), 1)
				model[i] = &ent{oldVal(i), time.Now().Add(eff(1))}
			}
		}
		if c.Stop == "before-ageing" {
			cache.Stop() // no cleaner from here on: the expired entries stay in the map until somebody cleans them
		}
		time.Sleep(c.Age)
		synctest.Wait() // a periodic pass that was due at this instant has finished
		if c.Stop == "after-ageing" {
			cache.Stop()
		}
		start := time.Now()
		for i := 0; i < c.Keys; i++ {
			if pre(i) == preLong {
				cache.Set(raceKeys[i], oldVal(i), 1000)
				model[i] = &ent{oldVal(i), start.Add(eff(1000))}
			}
		}
		for b := 0; b < bystanders; b++ {
			cache.Set(by(b), 1000+b, 1000)
		}
		byExp := start.Add(eff(1000))
		oldLive := func(i int) bool { return model[i] != nil && model[i].val == oldVal(i) && start.Before(model[i].exp) }
		oldExpired := make([]bool, c.Keys) // had an entry whose TTL has passed: the only keys the cleanup/refresh race may hit
		for i := range oldExpired {
			oldExpired[i] = pre(i) == preShort && !oldLive(i)
		}
		cleanupMayTake := func(i int) bool { return c.Cleaner && oldExpired[i] }

		pub := make([]atomic.Int64, c.Setters)
		for s := range pub {
			pub[s].Store(-1)
		}
		var done atomic.Bool
		var lost atomic.Int64
		final := make([]int, c.Keys) // last value Set per key (0 = not set in the race); written by the owner only
		var setters, others sync.WaitGroup
		for s := 0; s < c.Setters; s++ {
			setters.Add(1)
			errs.Go(func() {
				defer setters.Done()
				n := 0
				for i := 0; i < c.Keys; i++ {
					if !owned(i) {
						continue
					}
					if n++; n%c.Setters != s {
						continue
					}
					k := raceKeys[i]
					pub[s].Store(int64(i))
					want := newVal(i, 1)
					cache.Set(k, want, c.NewTTL)
					if twice(i) {
						want = newVal(i, 2)
						cache.Set(k, want, c.NewTTL)
					}
					final[i] = want
					got, ok := cache.Get(k)
					switch {
					case ok && got != want:
						errs.Failf("Get(%q)=%d right after this goroutine's Set(%q, %d, ttl %d) returned: not the most recently Set value", k, got, k, want, c.NewTTL)
						return
					case !ok && !cleanupMayTake(i):
						errs.Failf("Get(%q) missed right after this goroutine's Set(%q, %d, ttl %d) returned: nobody deleted, reset or cleaned that key, no time has passed (state of the key before: %s)", k, k, want, c.NewTTL, preName(pre(i), oldExpired[i]))
						return
					case !ok:
						lost.Add(1)
					}
				}
			})
		}
		for g := 0; g < c.Getters; g++ {
			others.Add(1)
			errs.Go(func() {
				defer others.Done()
				for n := 0; !done.Load(); n++ {
					for s := range pub {
						i := int(pub[s].Load())
						if i < 0 {
							continue
						}
						got, ok := cache.Get(raceKeys[i])
						if !ok {
							continue
						}
						if got == newVal(i, 1) || (twice(i) && got == newVal(i, 2)) || (got == oldVal(i) && oldLive(i)) {
							continue
						}
						if got == oldVal(i) {
							errs.Failf("Get(%q)=%d during the race: that entry expired %v ago", raceKeys[i], got, start.Sub(model[i].exp))
						} else {
							errs.Failf("Get(%q)=%d during the race: no Set of this key wrote that value", raceKeys[i], got)
						}
						return
					}
					b := (n + g) % bystanders
					if got, ok := cache.Get(by(b)); !ok || got != 1000+b {
						errs.Failf("Get(%q)=(%d,%v) during the race: the entry is live and nobody touches that key, want %d", by(b), got, ok, 1000+b)
						return
					}
				}
			})
		}
		if c.Cleaner {
			others.Add(1)
			errs.Go(func() {
				defer others.Done()
				for !done.Load() {
					cache.Cleanup()
				}
			})
		}
		setters.Wait()
		done.Store(true)
		others.Wait()
		if errs.Err() != nil {
			return
		}
		st.lostToCleanupRace = lost.Load()
		for i := 0; i < c.Keys; i++ {
			if final[i] != 0 {
				model[i] = &ent{final[i], start.Add(eff(c.NewTTL))}
				if oldExpired[i] {
					st.expiredUncleanedRaced++
				}
			}
		}
		sweep := func(step string) bool {
			now := time.Now()
			for i := 0; i < c.Keys; i++ {
				got, ok := cache.Get(raceKeys[i])
				live := model[i] != nil && now.Before(model[i].exp)
				switch {
				case live && ok && got != model[i].val:
					errs.Failf("%s: Get(%q)=%d, the most recent Set wrote %d", step, raceKeys[i], got, model[i].val)
					return false
				case live && !ok && final[i] != 0 && cleanupMayTake(i):
					model[i] = nil // the documented cleanup/refresh race took it
				case live && !ok:
					errs.Failf("%s: Get(%q) missed, but %d was Set (by a call that returned), nobody deleted, reset or cleaned that key and %v of its TTL remain (state of the key before the race: %s, set in the race: %v)", step, raceKeys[i], model[i].val, model[i].exp.Sub(now), preName(pre(i), oldExpired[i]), final[i] != 0)
					return false
				case !live && ok:
					errs.Failf("%s: Get(%q)=%d but the key must miss (never set, or expired)", step, raceKeys[i], got)
					return false
				}
			}
			for b := 0; b < bystanders; b++ {
				got, ok := cache.Get(by(b))
				if live := now.Before(byExp); live != ok || (ok && got != 1000+b) {
					errs.Failf("%s: Get(%q)=(%d,%v), bystander nobody touched, live=%v", step, by(b), got, ok, live)
					return false
				}
			}
			return true
		}
		if !sweep("after the race (all goroutines joined)") {
			return
		}
		cache.Cleanup()
		if !sweep("after the race and a Cleanup") {
			return
		}
		time.Sleep(eff(c.NewTTL) - time.Nanosecond)
		synctest.Wait()
		if !sweep("1 ns before the expiry of the entries set in the race") {
			return
		}
		time.Sleep(time.Nanosecond)
		synctest.Wait()
		if !sweep("at the expiry of the entries set in the race") {
			return
		}
		cache.Cleanup()
		sweep("at the expiry of the entries set in the race, after a Cleanup")
	})
	if e := errs.Err(); e != nil {
		return st, e
	}
	return st, berr
}

func preName(p int, expired bool) string {
	switch {
	case p == preShort && expired:
		return "old entry, expired"
	case p == preShort:
		return "old entry, still live"
	case p == preLong:
		return "old entry with a long TTL, live"
	}
	return "absent"
}

func TestSameKeyRace(t *testing.T) {
	sec := vk.Sec("SameKeyRace")
	vk.Check(t, 500, 60000, func(rt *rapid.T) {
		c := raceCase{
			Stop:     rapid.SampledFrom([]string{"never", "before-ageing", "before-ageing", "after-ageing"}).Draw(rt, "stop"),
			Interval: rapid.SampledFrom([]time.Duration{0, time.Second, time.Hour}).Draw(rt, "interval"),
			MaxTTL:   rapid.SampledFrom([]int64{0, 0, -1, 3, 1000000}).Draw(rt, "maxTTL"),
			Keys:     rapid.SampledFrom([]int{64, 1000, 4000}).Draw(rt, "keys"),
			Setters:  rapid.IntRange(1, 3).Draw(rt, "setters"),
			Getters:  rapid.IntRange(1, 4).Draw(rt, "getters"),
			Age:      rapid.SampledFrom([]time.Duration{time.Second - 1, time.Second, time.Second + 1, 2 * time.Second, 2 * time.Second}).Draw(rt, "age"),
			NewTTL:   rapid.SampledFrom([]int64{2, 5, 30}).Draw(rt, "newTTL"),
			Cleaner:  rapid.IntRange(0, 3).Draw(rt, "cleaner") == 0,
			Mix:      rapid.Uint64().Draw(rt, "mix"),
		}
		st, err := runRace(t, c)
		if err != nil {
			rt.Fatalf("C15 ttlcache violated: %v\ncase: %s", err, c)
		}
		cls := []string{"samekey-race.stop-" + c.Stop}
		if c.Cleaner {
			cls = append(cls, "samekey-race.with-concurrent-Cleanup")
		}
		if c.Stop != "never" && st.expiredUncleanedRaced > 0 {
			cls = append(cls, "samekey-race.after-Stop.Set-vs-Get-of-expired-key")
		}
		sec.Case(st.expiredUncleanedRaced > 0, vk.FP(c.String()), cls...)
		sec.ClassN("samekey-race.keys-with-expired-entry-set-under-reading", st.expiredUncleanedRaced)
		sec.ClassN("samekey-race.fresh-values-taken-by-the-documented-cleanup-race", st.lostToCleanupRace)
		sec.Sample(func() any { return c.String() })
	})
}
