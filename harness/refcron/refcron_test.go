package refcron

import (
	"errors"
	"testing"
	"time"
	_ "time/tzdata"
)

var six = Options{Second: Required, Minute: true, Hour: true, Dom: true, Month: true, Dow: Required, Descriptors: true}
var sixOptDow = Options{Second: Required, Minute: true, Hour: true, Dom: true, Month: true, Dow: Optional, Descriptors: true}
var optSec = Options{Second: Optional, Minute: true, Hour: true, Dom: true, Month: true, Dow: Required, Descriptors: true}

func mustLoc(t *testing.T, name string) *time.Location {
	t.Helper()
	l, err := time.LoadLocation(name)
	if err != nil {
		t.Fatalf("zone %s: %v", name, err)
	}
	return l
}

func ts(t *testing.T, s string) time.Time {
	t.Helper()
	v, err := time.Parse(time.RFC3339Nano, s)
	if err != nil {
		t.Fatal(err)
	}
	return v
}

// Hand-computed expectations (instants written with their UTC offset).
func TestNextHandComputed(t *testing.T) {
	cases := []struct {
		opts  Options
		expr  string
		zone  string // zone of the schedule when the expression has no prefix
		start string
		want  string // "" = none within the bound
	}{
		// plain field stepping in UTC
		{Standard, "*/15 * * * *", "UTC", "2012-07-09T14:45:00Z", "2012-07-09T15:00:00Z"},
		{Standard, "*/15 * * * *", "UTC", "2012-07-09T14:44:59.999999999Z", "2012-07-09T14:45:00Z"},
		{six, "15/35 20-35/15 1/2 */2 * *", "UTC", "2012-07-09T23:35:51Z", "2012-07-11T01:20:15Z"},
		{six, "0 0 0 29 Feb ?", "UTC", "2012-07-09T23:35:00Z", "2016-02-29T00:00:00Z"},
		{six, "0 0 0 30 Feb ?", "UTC", "2012-07-09T23:35:00Z", ""},
		{six, "0 0 0 31 Apr,JUN,sep,nOv ?", "UTC", "2012-07-09T23:35:00Z", ""},
		{six, "0 0 0 * Feb Mon/2", "UTC", "2012-07-09T23:35:00Z", "2013-02-01T00:00:00Z"}, // Mon/2 = Mon,Wed,Fri
		{Standard, "59 23 31 12 *", "UTC", "2012-12-31T23:59:00Z", "2013-12-31T23:59:00Z"},
		// either-day rule: both restricted -> either matches (8 July 2012 is a Sunday)
		{Standard, "0 0 1,15 * SUN", "UTC", "2012-07-01T00:00:00Z", "2012-07-08T00:00:00Z"},
		{Standard, "0 0 1,15 * *", "UTC", "2012-07-01T00:00:00Z", "2012-07-15T00:00:00Z"},
		{Standard, "0 0 * * MON", "UTC", "2012-07-15T00:00:00Z", "2012-07-16T00:00:00Z"},
		{Standard, "0 0 */10 * Sun", "UTC", "2012-07-11T00:00:00Z", "2012-07-15T00:00:00Z"}, // */10 = 1,11,21,31 restricted; 15th is a Sunday
		{Standard, "0 0 ? * 3-4", "UTC", "2012-07-15T00:00:00Z", "2012-07-18T00:00:00Z"},
		// optional fields and descriptors
		{optSec, "30 * * * *", "UTC", "2020-01-01T00:00:00Z", "2020-01-01T00:30:00Z"},
		{optSec, "10 30 * * * *", "UTC", "2020-01-01T00:00:00Z", "2020-01-01T00:30:10Z"},
		{sixOptDow, "5 4 3 2 1", "UTC", "2020-01-01T00:00:00Z", "2020-01-02T03:04:05Z"},
		{Standard, "@yearly", "UTC", "2020-01-01T00:00:00Z", "2021-01-01T00:00:00Z"},
		{Standard, "@weekly", "UTC", "2012-07-09T00:00:00Z", "2012-07-15T00:00:00Z"},
		{Standard, "@hourly", "UTC", "2012-07-09T15:04:00Z", "2012-07-09T16:00:00Z"},
		{Standard, "@monthly", "UTC", "2012-07-09T15:04:00Z", "2012-08-01T00:00:00Z"},
		{Standard, "@midnight", "UTC", "2012-07-09T15:04:00Z", "2012-07-10T00:00:00Z"},
		// fixed non-hour offset
		{Standard, "CRON_TZ=Asia/Kathmandu 14 14 * * *", "UTC", "2016-01-03T00:00:00Z", "2016-01-03T08:29:00Z"}, // +05:45
		// America/New_York spring forward 2012-03-11: 02:00 EST -> 03:00 EDT, wall times 02:00-02:59 do not exist
		{six, "TZ=America/New_York 0 30 2 * * *", "UTC", "2012-03-11T00:00:00-05:00", "2012-03-12T02:30:00-04:00"},
		{six, "TZ=America/New_York 0 30 2 11 Mar ?", "UTC", "2012-03-11T00:00:00-05:00", "2013-03-11T02:30:00-04:00"},
		{six, "TZ=America/New_York 0 0 * * * ?", "UTC", "2012-03-11T01:00:00-05:00", "2012-03-11T03:00:00-04:00"},
		{six, "TZ=America/New_York 59 59 1 * * ?", "UTC", "2012-03-11T00:00:00-05:00", "2012-03-11T01:59:59-05:00"},
		{six, "TZ=America/New_York * * 2,3 * * ?", "UTC", "2012-03-11T01:59:59-05:00", "2012-03-11T03:00:00-04:00"},
		{six, "0 0 2 * * ?", "America/New_York", "2012-03-11T00:00:00-05:00", "2012-03-12T02:00:00-04:00"},
		// America/New_York fall back 2012-11-04: 02:00 EDT -> 01:00 EST, wall times 01:00-01:59 occur twice
		{six, "TZ=America/New_York 0 30 1 * * ?", "UTC", "2012-11-04T00:00:00-04:00", "2012-11-04T01:30:00-04:00"},
		{six, "TZ=America/New_York 0 30 1 * * ?", "UTC", "2012-11-04T01:30:00-04:00", "2012-11-04T01:30:00-05:00"},
		{six, "TZ=America/New_York 0 30 1 * * ?", "UTC", "2012-11-04T01:45:00-04:00", "2012-11-04T01:30:00-05:00"},
		{six, "TZ=America/New_York 0 30 1 * * ?", "UTC", "2012-11-04T01:30:00-05:00", "2012-11-05T01:30:00-05:00"},
		{six, "TZ=America/New_York 0 0 2 * * ?", "UTC", "2012-11-04T00:00:00-04:00", "2012-11-04T02:00:00-05:00"},
		{six, "TZ=America/New_York 0 0 * * * ?", "UTC", "2012-11-04T01:00:00-04:00", "2012-11-04T01:00:00-05:00"},
		// Sao Paulo: midnight does not exist on 2018-11-04 (00:00 -> 01:00)
		{six, "TZ=America/Sao_Paulo 0 0 9 10 * ?", "UTC", "2018-10-17T05:00:00-04:00", "2018-11-10T06:00:00-05:00"},
		{six, "TZ=America/Sao_Paulo 0 0 0 * * ?", "UTC", "2018-11-03T12:00:00-03:00", "2018-11-05T00:00:00-02:00"},
		{six, "TZ=America/Sao_Paulo 0 30 * 4 11 ?", "UTC", "2018-11-03T12:00:00-03:00", "2018-11-04T01:30:00-02:00"},
		// Pacific/Apia skipped 2011-12-30 entirely (UTC-10 -> UTC+14 at the end of 29 December)
		{Standard, "TZ=Pacific/Apia @daily", "UTC", "2011-12-29T12:00:00-10:00", "2011-12-31T00:00:00+14:00"},
		{Standard, "TZ=Pacific/Apia 0 0 30 12 *", "UTC", "2011-12-01T00:00:00-10:00", "2012-12-30T00:00:00+14:00"},
		// Lord Howe: half-hour DST. 2019-04-07 02:00 (+11) -> 01:30 (+10:30)
		{Standard, "TZ=Australia/Lord_Howe 45 1 * * *", "UTC", "2019-04-07T01:50:00+11:00", "2019-04-07T01:45:00+10:30"},
		{Standard, "TZ=Australia/Lord_Howe 15 1 * * *", "UTC", "2019-04-07T01:50:00+11:00", "2019-04-08T01:15:00+10:30"},
		// beyond the zone tables (extrapolated rules): ZoneBounds reports year-by-year pieces and, on 31 December
		// of a leap year, an end that is already past; the search must neither stall nor miss
		{Standard, "TZ=Europe/Berlin @annually", "UTC", "2096-12-11T14:01:58+01:00", "2097-01-01T00:00:00+01:00"},
		{Standard, "TZ=Europe/Berlin 30 12 31 12 *", "UTC", "2040-12-30T14:01:58+01:00", "2040-12-31T12:30:00+01:00"},
		{Standard, "TZ=America/New_York 30 2 * 3 SUN", "UTC", "2040-12-30T14:01:58-05:00", "2041-03-03T02:30:00-05:00"},
		{Standard, "TZ=America/New_York 30 2 10 3 *", "UTC", "2040-12-30T14:01:58-05:00", "2042-03-10T02:30:00-04:00"}, // 2041-03-10 is the spring-forward day
		{Standard, "0 0 29 2 *", "Europe/Berlin", "2099-06-01T00:00:00+02:00", "2104-02-29T00:00:00+01:00"},
		{Standard, "0 0 29 2 *", "Europe/Berlin", "2098-06-01T00:00:00+02:00", ""},
	}
	for _, c := range cases {
		sp, err := Parse(c.expr, c.opts)
		if err != nil {
			t.Errorf("%q: %v", c.expr, err)
			continue
		}
		zone := c.zone
		if sp.Zone != "" {
			zone = sp.Zone
		}
		loc := mustLoc(t, zone)
		got, ok, _ := sp.Next(ts(t, c.start), loc, true)
		if c.want == "" {
			if ok {
				t.Errorf("%q from %s: got %v, want none", c.expr, c.start, got)
			}
			continue
		}
		want := ts(t, c.want)
		if !ok || !got.Equal(want) {
			t.Errorf("%q from %s: got %v (ok=%v), want %v", c.expr, c.start, got.UTC(), ok, want.UTC())
		}
		if ok && !sp.Matches(got, loc, true) {
			t.Errorf("%q: result %v does not match the expression", c.expr, got)
		}
	}
}

// Next against the definition itself: step second by second (small horizon)
// through both New York transitions and an Apia day skip and compare.
func TestNextAgainstSecondBySecondScan(t *testing.T) {
	exprs := []string{"*/20 */17 * * * *", "7 30 1-2 * * *", "0 0 0,2 * * *", "59 59 23 * * SUN", "0 15/20 */3 4,11 3,11 *", "30 59 23 29-31 12 ?"}
	starts := []struct{ zone, at string }{
		{"America/New_York", "2012-03-10T22:00:00-05:00"},
		{"America/New_York", "2012-11-03T22:00:00-04:00"},
		{"Pacific/Apia", "2011-12-29T20:00:00-10:00"},
		{"Australia/Lord_Howe", "2019-04-06T22:00:00+11:00"},
		{"America/Asuncion", "2016-10-01T20:00:00-04:00"},
	}
	for _, e := range exprs {
		sp, err := Parse(e, six)
		if err != nil {
			t.Fatal(err)
		}
		for _, st := range starts {
			loc := mustLoc(t, st.zone)
			t0 := ts(t, st.at)
			for k := 0; k < 6; k++ {
				from := t0.Add(time.Duration(k) * 4001 * time.Second)
				// definition: scan whole seconds
				var want time.Time
				found := false
				x := from.Truncate(time.Second)
				for i := 0; i < 4*86400; i++ {
					x = x.Add(time.Second)
					if sp.Matches(x, loc, true) {
						want, found = x, true
						break
					}
				}
				if !found {
					continue
				}
				got, ok, _ := sp.Next(from, loc, true)
				if !ok || !got.Equal(want) {
					t.Errorf("%q zone %s from %v: Next=%v ok=%v, scan=%v", e, st.zone, from, got, ok, want)
				}
			}
		}
	}
}

func TestParseSetsAndFlags(t *testing.T) {
	sp, err := Parse("1-5/2,10 */7 ? JAN-mar/2 fri", Standard)
	if err != nil {
		t.Fatal(err)
	}
	eq := func(name string, got []int, want ...int) {
		t.Helper()
		if len(got) != len(want) {
			t.Fatalf("%s: got %v want %v", name, got, want)
		}
		for i := range got {
			if got[i] != want[i] {
				t.Fatalf("%s: got %v want %v", name, got, want)
			}
		}
	}
	eq("second", sp.F[FSecond].Set.Values(), 0)
	eq("minute", sp.F[FMinute].Set.Values(), 1, 3, 5, 10)
	eq("hour", sp.F[FHour].Set.Values(), 0, 7, 14, 21)
	eq("month", sp.F[FMonth].Set.Values(), 1, 3)
	eq("dow", sp.F[FDow].Set.Values(), 5)
	if !sp.F[FDom].Star || sp.F[FDom].StarArguable || sp.F[FDow].Star || sp.F[FHour].Star {
		t.Fatalf("star flags wrong: %+v", sp.F)
	}
	sp, _ = Parse("0 0 */1 * 5/1", Standard)
	if !sp.F[FDom].Star || !sp.F[FDom].StarArguable || sp.F[FDow].Star {
		t.Fatalf("*/1 flags wrong: %+v", sp.F)
	}
	eq("dow 5/1", sp.F[FDow].Set.Values(), 5, 6)
	sp, _ = Parse("0 0 5,* * 1", Standard)
	if !sp.F[FDom].Star || !sp.F[FDom].StarArguable || !sp.F[FDom].Full {
		t.Fatalf("list-with-star flags wrong: %+v", sp.F[FDom])
	}
	sp, _ = Parse("0 0 1-31 * 1", Standard)
	if sp.F[FDom].Star || !sp.F[FDom].Full {
		t.Fatalf("1-31 flags wrong: %+v", sp.F[FDom])
	}
	sp, _ = Parse("15 */3", Options{Dom: true, Month: true, Dow: Optional})
	eq("reduced dom", sp.F[FDom].Set.Values(), 15)
	eq("reduced month", sp.F[FMonth].Set.Values(), 1, 4, 7, 10)
	eq("reduced hour default", sp.F[FHour].Set.Values(), 0)
	if !sp.F[FDow].Star {
		t.Fatal("omitted dow must default to *")
	}
	sp, _ = Parse("@every 1h30m10s", Standard)
	if !sp.IsEvery || sp.Delay != 90*time.Minute+10*time.Second {
		t.Fatalf("@every: %+v", sp)
	}
	at := time.Date(2020, 5, 5, 5, 5, 5, 999, time.UTC)
	if got := sp.EveryNext(at); !got.Equal(time.Date(2020, 5, 5, 6, 35, 15, 0, time.UTC)) {
		t.Fatalf("EveryNext: %v", got)
	}
	sp, _ = Parse("@every 1500ms", Standard)
	if got := sp.EveryNext(at); !got.Equal(time.Date(2020, 5, 5, 5, 5, 6, 0, time.UTC)) {
		t.Fatalf("EveryNext 1500ms: %v", got)
	}
}

func TestParseRefusals(t *testing.T) {
	bad := []struct {
		o Options
		e string
	}{
		{Standard, "* * * *"}, {Standard, "* * * * * *"}, {six, "* * * * *"}, {optSec, "* * * *"}, {optSec, "* * * * * * *"},
		{Standard, "60 * * * *"}, {Standard, "* 24 * * *"}, {Standard, "* * 0 * *"}, {Standard, "* * 32 * *"}, {Standard, "* * * 13 *"}, {Standard, "* * * 0 *"}, {Standard, "* * * * 7"},
		{Standard, "a * * * *"}, {Standard, "1.5 * * * *"}, {Standard, "-1 * * * *"}, {Standard, "5-3 * * * *"}, {Standard, "*/0 * * * *"}, {Standard, "1-5/0 * * * *"},
		{Standard, "* * * FOO *"}, {Standard, "* * * * JAN"}, {Standard, "* * * MON *"}, {Standard, "JAN * * * *"},
		{Standard, "@fortnightly"}, {Options{Minute: true, Hour: true, Dom: true, Month: true, Dow: Required}, "@daily"},
		{Standard, "TZ=UTC"}, {Standard, "CRON_TZ=Asia/Tokyo"}, {Standard, "TZ=UTC "}, {Standard, ""},
		{Standard, "1,,2 * * * *"}, {Standard, "*-5 * * * *"}, {Standard, "? * * * *"},
	}
	for _, c := range bad {
		if _, err := Parse(c.e, c.o); !errors.Is(err, ErrRefused) {
			t.Errorf("%q: expected refusal, got %v", c.e, err)
		}
	}
}
