package c17

import (
	"errors"
	"fmt"
	"os"
	"sync"
	"syscall"
	"testing"
	"unsafe"

	"verifharness/vk"
)

// Fenced memory. "The crypto helpers treat their byte-slice arguments as read-only": a write that is undone before the
// call returns (save the bytes behind the ciphertext, put the tag there for the duration of the call, restore them in a
// deferred function) is still a write - a concurrent reader of the caller's buffer sees it, a buffer that lives in a
// read-only file mapping faults - but a comparison AFTER the call cannot see it. In the memory kind "fenced" the
// caller's buffers therefore live in pages of their own (anonymous mappings), and for the duration of the call every
// page that holds no byte of an explicit AEAD dst is mapped read-only: a write into an argument, its spare capacity or
// the memory around it faults at the moment it happens (debug.SetPanicOnFault turns the fault into a panic that carries
// the address), whatever the callee does afterwards. The buffer is laid out so that the end of the memory the callee MAY
// write (the capacity of dst; the length of a dst capped at its length) - for a read-only argument: the end of its
// capacity - falls on a page boundary: the first byte behind it is already fenced.
// When the call has returned all pages become read-only (the former dst too: it is the caller's result now) and stay so
// while the arena is remembered by a sequence of calls: a later call that writes an earlier call's memory faults.
// The comparison after the call is the same for both memory kinds.

var pageSize = syscall.Getpagesize()

var memKinds = []string{"heap", "fenced"}

// fence is the memory behind one fenced region: the callee's view of the buffer is mem[start : start+n].
// Two kinds. A region in which the callee may write nothing (the common case: key, nonce, tag, associated data, message)
// is a pair of views of the same pages: ro, mapped read-only for good, is what the callee is handed; rw is the harness's own
// view, through which the buffer is filled (no system call per case once the pair comes from the pool). A region with an
// explicit dst in it is one mapping whose pages change protection with the roles of its bytes (mprotect).
type fence struct {
	mem   []byte // the callee's view
	rw    []byte // dual: the harness's view of the same pages; otherwise nil
	start int
	n     int
	ro    []bool // per page: currently mapped read-only (not dual)
	dead  bool
}

// fencePool keeps released mappings for the next case (mapping, first touch and unmapping cost more than most of the
// calls under test). Every byte of a buffer cut from a reused mapping is written before it is handed out, so no
// content passes from one case to another.
var fencePool = struct {
	sync.Mutex
	dual   map[int][][2][]byte // by number of pages: {callee's read-only view, harness's view}
	single map[int][][]byte    // by number of pages, all pages read-write
	bytes  int
	noDual bool // views of shared pages cannot be had here: every region is of the mprotect kind
}{dual: map[int][][2][]byte{}, single: map[int][][]byte{}}

const fencePoolMax = 32 << 20

// mapDual maps the same pages twice: read-write for the harness, read-only for the callee.
func mapDual(size int) (ro, rw []byte, err error) {
	var f *os.File
	for _, dir := range []string{"/dev/shm", os.TempDir()} {
		if f, err = os.CreateTemp(dir, "verif-c17-fence-*"); err == nil {
			break
		}
	}
	if err != nil {
		return nil, nil, err
	}
	defer f.Close()
	_ = os.Remove(f.Name())
	if err = f.Truncate(int64(size)); err != nil {
		return nil, nil, err
	}
	if err = syscall.Fallocate(int(f.Fd()), 0, 0, int64(size)); err != nil {
		return nil, nil, err // (a full file system would otherwise show as a bus error at the first touch of a page)
	}
	if rw, err = syscall.Mmap(int(f.Fd()), 0, size, syscall.PROT_READ|syscall.PROT_WRITE, syscall.MAP_SHARED); err != nil {
		return nil, nil, err
	}
	if ro, err = syscall.Mmap(int(f.Fd()), 0, size, syscall.PROT_READ, syscall.MAP_SHARED); err != nil {
		_ = syscall.Munmap(rw)
		return nil, nil, err
	}
	return ro, rw, nil
}

// newFence makes the memory for a buffer with the content img whose byte number boundary is the first byte of a page, plus
// one page behind the buffer (a callee that READS a little beyond a slice - vector loads - is none of this property's
// business). hasDst: the callee may write some of it.
func newFence(img []byte, boundary int, hasDst bool) (*fence, error) {
	n := len(img)
	start := (pageSize - boundary%pageSize) % pageSize
	pages := (start+n+pageSize-1)/pageSize + 1
	f := &fence{start: start, n: n}
	fencePool.Lock()
	dual := !hasDst && !fencePool.noDual
	if l := fencePool.dual[pages]; dual && len(l) > 0 {
		f.mem, f.rw = l[len(l)-1][0], l[len(l)-1][1]
		fencePool.dual[pages] = l[:len(l)-1]
		fencePool.bytes -= len(f.mem)
	} else if l := fencePool.single[pages]; !dual && len(l) > 0 {
		f.mem = l[len(l)-1]
		fencePool.single[pages] = l[:len(l)-1]
		fencePool.bytes -= len(f.mem)
	}
	fencePool.Unlock()
	if f.mem == nil && dual {
		var err error
		if f.mem, f.rw, err = mapDual(pages * pageSize); err != nil {
			fencePool.Lock()
			fencePool.noDual = true
			fencePool.Unlock()
			dual = false
		}
	}
	if f.mem == nil {
		var err error
		if f.mem, err = syscall.Mmap(-1, 0, pages*pageSize, syscall.PROT_READ|syscall.PROT_WRITE, syscall.MAP_ANON|syscall.MAP_PRIVATE); err != nil {
			return nil, err
		}
	}
	if f.rw != nil {
		copy(f.rw[start:], img)
	} else {
		f.ro = make([]bool, pages)
		copy(f.mem[start:], img)
	}
	return f, nil
}

func (f *fence) buf() []byte { return f.mem[f.start : f.start+f.n : f.start+f.n] }

// protect maps read-only every page that has no byte in one of the writable ranges (offsets of the buffer), and
// read-write the others.
func (f *fence) protect(writable [][2]int) error {
	if f.dead {
		return nil
	}
	if f.rw != nil {
		if len(writable) > 0 {
			return errors.New("harness: a dst in a region made without one")
		}
		return nil
	}
	want := make([]bool, len(f.ro))
	for p := range want {
		want[p] = true
		lo, hi := p*pageSize-f.start, (p+1)*pageSize-f.start // the offsets of the buffer this page holds
		for _, w := range writable {
			if w[0] < w[1] && w[0] < hi && w[1] > lo {
				want[p] = false
			}
		}
	}
	for p := 0; p < len(want); {
		if f.ro[p] == want[p] {
			p++
			continue
		}
		q := p
		for q < len(want) && want[q] == want[p] && f.ro[q] != want[q] {
			q++
		}
		prot := syscall.PROT_READ | syscall.PROT_WRITE
		if want[p] {
			prot = syscall.PROT_READ
		}
		if err := syscall.Mprotect(f.mem[p*pageSize:q*pageSize], prot); err != nil {
			return err
		}
		for i := p; i < q; i++ {
			f.ro[i] = want[p]
		}
		p = q
	}
	return nil
}

func (f *fence) release() {
	if f.dead {
		return
	}
	var err error
	if f.rw == nil {
		err = f.protect([][2]int{{-f.start, len(f.mem)}})
	}
	f.dead = true
	fencePool.Lock()
	defer fencePool.Unlock()
	pages := len(f.mem) / pageSize
	switch {
	case err != nil || fencePool.bytes+len(f.mem) > fencePoolMax:
		_ = syscall.Munmap(f.mem)
		if f.rw != nil {
			_ = syscall.Munmap(f.rw)
		}
		return
	case f.rw != nil:
		fencePool.dual[pages] = append(fencePool.dual[pages], [2][]byte{f.mem, f.rw})
	default:
		fencePool.single[pages] = append(fencePool.single[pages], f.mem)
	}
	fencePool.bytes += len(f.mem)
}

// index returns the offset of addr in the buffer (negative / beyond n: in the pages of the mapping around it) and whether
// addr lies in the mapping at all.
func (f *fence) index(addr uintptr) (int, bool) {
	if f.dead {
		return 0, false
	}
	base := uintptr(unsafe.Pointer(unsafe.SliceData(f.mem)))
	if addr < base || addr >= base+uintptr(len(f.mem)) {
		return 0, false
	}
	return int(addr-base) - f.start, true
}

// alloc puts the content img of a region where the callee will see it: on the heap (img itself) or - memory kind fenced - in
// pages of their own with byte number boundary at the start of a page. hasDst: the callee may write some of the region.
func (a *arena) alloc(img []byte, boundary int, hasDst bool) ([]byte, *fence) {
	if !a.fenced {
		return img, nil
	}
	f, err := newFence(img, boundary, hasDst)
	if err != nil {
		a.fenceErr = err // no pages to be had: the region lives on the heap and is compared after the call only (counted: mem.fence-unavailable)
		return img, nil
	}
	return f.buf(), f
}

// writableRanges lists the bytes of the region the callee may write during the call.
func (r *region) writableRanges() [][2]int {
	var out [][2]int
	for _, p := range r.parts {
		if !p.writable {
			continue
		}
		end := p.capEnd
		if p.wEnd > 0 {
			end = p.wEnd
		}
		out = append(out, [2]int{p.off, end})
	}
	return out
}

// seal applies the page protection the current roles of the arguments ask for (called again when a role changes, and by
// freeze: then nothing is writable any more).
func (a *arena) seal() {
	for _, r := range a.regs {
		if r.f == nil {
			continue
		}
		var w [][2]int
		if !a.frozen {
			w = r.writableRanges()
		}
		if err := r.f.protect(w); err != nil && a.fenceErr == nil {
			a.fenceErr = err
		}
	}
}

// release gives the pages back. Nothing of the arena may be looked at afterwards.
func (a *arena) release() {
	for _, r := range a.regs {
		if r.f != nil {
			r.f.release()
		}
	}
}

// locate describes the address of a fault in the terms of the caller ("" if it is not in this arena).
func (a *arena) locate(addr uintptr) string {
	for _, r := range a.regs {
		if r.f == nil {
			continue
		}
		i, ok := r.f.index(addr)
		if !ok {
			continue
		}
		lay := ""
		if r.packed {
			lay = " [layout " + r.layout() + "]"
		}
		switch {
		case i < 0:
			return fmt.Sprintf("the page in front of %s, %d bytes in front of the buffer%s", r.name, -i, lay)
		case i >= len(r.buf):
			return fmt.Sprintf("the page behind %s, %d bytes behind the buffer%s", r.name, i-len(r.buf), lay)
		}
		return r.where(i) + lay
	}
	return ""
}

// noteFault records a memory fault the call under test ran into at addr.
func (a *arena) noteFault(addr uintptr) {
	if w := a.locate(addr); w != "" {
		a.faultMsg = fmt.Sprintf("%s was written DURING the call (the page is mapped read-only while the call runs: the write faulted at address %#x; whether the callee would have put the old bytes back before returning makes no difference)", w, addr)
		return
	}
	a.foreignFault = addr
}

// memClasses names the memory kind of the case for the evidence.
func (a *arena) memClasses() []string {
	if !a.fenced {
		return []string{"mem.heap"}
	}
	out := []string{"mem.fenced"}
	if a.fenceErr != nil {
		out = append(out, "mem.fence-unavailable")
	}
	ro, rw, shared := 0, 0, 0
	for _, r := range a.regs {
		if r.f == nil {
			continue
		}
		if r.f.rw != nil {
			shared++
		}
		if len(r.writableRanges()) > 0 {
			rw++
		} else {
			ro++
		}
	}
	if ro > 0 {
		out = append(out, "mem.fenced.read-only-region")
	}
	if rw > 0 {
		out = append(out, "mem.fenced.region-with-dst")
	}
	if ro > shared {
		out = append(out, "mem.fenced.read-only-region.by-mprotect") // no second view of shared pages to be had: protection changed per case
	}
	return out
}

// sweepMem is the memory kind of the idx-th case of a deterministic sweep (a fixed mix that is independent of the other
// rotating choices of the sweeps).
func sweepMem(idx int) string { return memKinds[vk.FP("memkind", idx)>>7&1] }

// TestFenceHarness: the fence reports what it is built to report (a harness check, not a verdict about kit): a write
// into the spare capacity that is undone before the call returns; a write behind a capped dst; and no fault for writes
// into dst.
func TestFenceHarness(t *testing.T) {
	for _, tc := range []struct {
		name  string
		write func(arg, dst []byte)
		want  bool
	}{
		{"undone write into spare capacity", func(arg, dst []byte) {
			s := arg[:len(arg)+4]
			old := append([]byte{}, s[len(arg):]...)
			defer copy(s[len(arg):], old)
			copy(s[len(arg):], "tag!")
		}, true},
		{"write of the same bytes into the argument", func(arg, dst []byte) { copy(arg, append([]byte{}, arg[:1]...)) }, true},
		{"write into dst up to its capacity", func(arg, dst []byte) {
			d := dst[:cap(dst)]
			for i := range d {
				d[i] = 1
			}
		}, false},
		{"read of everything", func(arg, dst []byte) {
			x := byte(0)
			for _, b := range arg[:cap(arg)] {
				x ^= b
			}
			_ = x
		}, false},
	} {
		k := &call{a: &arena{seed: 1, fenced: true}}
		arg := k.a.cut("arg", []byte("0123456789"), 16)
		dst := k.a.dst("dst", []byte("abc"), 5)
		k.protect(func() { tc.write(arg, dst) })
		got := k.a.faultMsg != ""
		if k.a.fenceErr != nil {
			t.Skipf("harness: no fenced memory here: %v", k.a.fenceErr)
		}
		if got != tc.want {
			t.Fatalf("harness: fence, %s: fault reported = %v, want %v (%s; panic %v)", tc.name, got, tc.want, k.a.faultMsg, k.pnc)
		}
		if d := k.a.diff(); d != "" {
			t.Fatalf("harness: fence, %s: the comparison after the call reports %s", tc.name, d)
		}
		k.a.freeze()
		k.pnc = nil
		k.a.faultMsg = ""
		k.protect(func() { dst[0] = 7 })
		if k.a.faultMsg == "" {
			t.Fatalf("harness: fence, %s: a write into the former dst of a call that has returned was not reported", tc.name)
		}
		k.a.release()
	}
	// a dst capped at its length inside an argument: the spare capacity behind it is fenced
	k := &call{a: &arena{seed: 2, fenced: true}}
	msg := k.a.cutB("msg", []byte("0123456789abcdef"), 32, guardLen+16, true)
	k.a.reuseAsDst("msg")
	k.a.capDst("msg")
	k.protect(func() { msg[3] = 9 })
	if k.a.faultMsg != "" {
		t.Fatalf("harness: fence: a write into a capped in-place dst was reported: %s", k.a.faultMsg)
	}
	k.protect(func() { msg[:17][16] = 9 })
	if k.a.faultMsg == "" {
		t.Fatalf("harness: fence: a write behind a capped in-place dst was not reported")
	}
	k.a.release()
}

// TestFenceSweep: every function x algorithm x path x dst form once (thorough: lengths 0, 16, 33 x three spare-capacity
// patterns) with every buffer of the caller in fenced memory and spare capacity behind every argument: whatever the other
// sweeps rotate to, no (function, argument position, algorithm, path) is left without a case in which a write that is
// undone before the call returns would fault. The arguments isolated and - for the functions with several - packed into
// one buffer (memory order and capacity mode rotating).
func TestFenceSweep(t *testing.T) {
	sec := vk.Sec("FenceSweep")
	idx := 0
	one := func(c memCase) {
		msg, st := checkMem(c)
		if msg != "" {
			t.Fatalf("C17 caller memory violated: %s\ncase: %s", msg, c)
		}
		sec.Case(st.nontrivial, c.fp(), st.classes...)
		sec.Sample(func() any { return c.String() })
	}
	for _, o := range ops {
		var ords [][]int
		if o.Pk >= 2 {
			ords = orders(o.Pk)
		}
		dsts := []string{""}
		if o.DstOp {
			dsts = dstForms
		}
		for _, alg := range o.Algs {
			for _, mode := range o.Modes(alg) {
				for _, l := range vk.Pick([]int{33}, []int{0, 16, 33}) {
					for _, sp := range vk.Pick([][]int{{64}}, [][]int{{64}, {17}, {32, 1, 64, 16, 33, 9}}) {
						for _, d := range dsts {
							idx++
							if !vk.Mine(idx) {
								continue
							}
							c := memCase{Op: o.Name, Alg: alg, Mode: mode, Len: l, AadLen: []int{13, 0}[idx%2], Spare: sp, Dst: d, DstLen: []int{5, 0}[idx%2], Mem: "fenced", Seed: uint64(idx) * 0x9e3779b97f4a7c15}
							one(c)
							if ords != nil && (!o.Heavy || vk.Thorough()) {
								c.Pack, c.Gap, c.Cap = ords[idx%len(ords)], layoutGaps[0], capModes[idx/len(ords)%len(capModes)]
								one(c)
							}
						}
					}
				}
			}
		}
	}
}
