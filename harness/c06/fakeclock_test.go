package c06

import (
	"fmt"
	"sync"
	"testing"
	"testing/synctest"
	"time"

	"github.com/dapr/kit/events/queue"
	clocktesting "k8s.io/utils/clock/testing"
	"pgregory.net/rapid"

	"verifharness/vk"
)

// Injected clock (Processor.WithClock): "the clock" of the statement is the processor's clock. The fake clock of this
// mode is a year away from the (virtual) time of the bubble, which never advances here, so any decision taken on
// another time source than the injected clock shows as an item that runs far too early or never. Settled histories
// only (no schedule points): after every operation, exactly the live items whose time the clock has reached have run,
// none more than 0.5 ms early, each once, in scheduled-time order.
type fcCase struct{ Ops []op }

func (c fcCase) String() string { return "proc.fakeclock" + procCase{Ops: c.Ops}.String()[4:] }

func runFakeClock(t *testing.T, c fcCase) (nontrivial bool, err error) {
	var errs vk.Errs
	berr := vk.Bubble(t, c.String(), func() {
		clk := clocktesting.NewFakeClock(time.Now().Add(365 * 24 * time.Hour))
		var mu sync.Mutex
		type run struct {
			id int
			at time.Time
		}
		var runs []run
		proc := queue.NewProcessor[int, *item](func(it *item) {
			mu.Lock()
			runs = append(runs, run{it.id, clk.Now()})
			mu.Unlock()
		}).WithClock(clk)
		defer proc.Close()
		type mi struct {
			it      *item
			removed bool
			ran     bool
		}
		items := map[int]*mi{}
		live := map[int]*mi{}
		seen := 0
		nextID := 0
		judge := func(step string) bool {
			synctest.Wait()
			now := clk.Now()
			mu.Lock()
			rs := append([]run(nil), runs...)
			mu.Unlock()
			var lastDue time.Time
			for ; seen < len(rs); seen++ {
				r := rs[seen]
				m := items[r.id]
				switch {
				case m.ran:
					errs.Failf("after %s: item %d executed twice", step, r.id)
					return false
				case m.removed:
					errs.Failf("after %s: item %d (key k%d) executed although it was dequeued or replaced before it became due", step, r.id, m.it.key)
					return false
				case r.at.Before(m.it.due.Add(-early)):
					errs.Failf("after %s: item %d (key k%d) executed %v before its scheduled time on the processor's clock", step, r.id, m.it.key, m.it.due.Sub(r.at))
					return false
				case m.it.due.Before(lastDue):
					errs.Failf("after %s: item %d (due %v earlier) executed after an item scheduled later: callbacks out of scheduled-time order", step, r.id, lastDue.Sub(m.it.due))
					return false
				}
				lastDue = m.it.due
				m.ran = true
				if live[m.it.key] == m {
					delete(live, m.it.key)
				}
			}
			for _, m := range live {
				if !m.it.due.After(now) {
					errs.Failf("after %s: item %d (key k%d) is live and the processor's clock passed its time %v ago, but it has not been executed", step, m.it.id, m.it.key, now.Sub(m.it.due))
					return false
				}
			}
			return true
		}
		for n, o := range c.Ops {
			step := fmt.Sprintf("op %d %s", n, opStr(o))
			switch o.Kind {
			case "enq":
				it := &item{key: o.Key, due: dueAt(clk.Now(), o.Off), id: nextID}
				nextID++
				m := &mi{it: it}
				items[it.id] = m
				if old := live[o.Key]; old != nil {
					old.removed = true
					nontrivial = true
				}
				live[o.Key] = m
				proc.Enqueue(it)
			case "deq":
				if old := live[o.Key]; old != nil {
					old.removed = true
					delete(live, o.Key)
					nontrivial = true
				}
				proc.Dequeue(o.Key)
			case "adv":
				var d time.Duration
				var next time.Time
				for _, m := range live {
					if !m.it.due.Equal(never) && (next.IsZero() || m.it.due.Before(next)) {
						next = m.it.due
					}
				}
				rem := time.Second
				if !next.IsZero() {
					rem = next.Sub(clk.Now())
				}
				switch o.Adv {
				case "next":
					d = rem
				case "next-1ms":
					d = rem - time.Millisecond
				case "next-400us":
					d = rem - 400*time.Microsecond
				case "next+1us":
					d = rem + time.Microsecond
				case "100us":
					d = 100 * time.Microsecond
				case "1ms":
					d = time.Millisecond
				case "1s":
					d = time.Second
				case "10s":
					d = 10 * time.Second
				case "1h":
					d = time.Hour
				case "45m":
					d = 45 * time.Minute
				}
				if d <= 0 {
					d = time.Microsecond
				}
				clk.Step(d)
			default:
				continue
			}
			if !judge(step) {
				return
			}
		}
		clk.Step(6 * time.Hour)
		if !judge("final advance of 6h") {
			return
		}
		for _, m := range live {
			if !m.it.due.Equal(never) {
				errs.Failf("harness: item %d still live after the final advance", m.it.id)
			}
		}
	})
	if e := errs.Err(); e != nil {
		return nontrivial, e
	}
	return nontrivial, berr
}

func TestProcessorInjectedClock(t *testing.T) {
	sec := vk.Sec("ProcessorInjectedClock")
	vk.Check(t, 4000, 600000, func(rt *rapid.T) {
		var c fcCase
		n := rapid.IntRange(1, 25).Draw(rt, "nops")
		for i := 0; i < n; i++ {
			switch k := rapid.IntRange(0, 9).Draw(rt, "kind"); {
			case k <= 4:
				c.Ops = append(c.Ops, op{Kind: "enq", Key: rapid.IntRange(0, 3).Draw(rt, "key"), Off: rapid.SampledFrom(offsetNames).Draw(rt, "off")})
			case k <= 5:
				c.Ops = append(c.Ops, op{Kind: "deq", Key: rapid.IntRange(0, 3).Draw(rt, "key")})
			default:
				c.Ops = append(c.Ops, op{Kind: "adv", Adv: rapid.SampledFrom(advNames).Draw(rt, "adv")})
			}
		}
		nt, err := runFakeClock(t, c)
		if err != nil {
			rt.Fatalf("C06 queue.Processor violated: %v\ncase: %s", err, c)
		}
		sec.Case(nt, vk.FP(c.String()), "injected-clock")
		sec.Sample(func() any { return c.String() })
	})
}
