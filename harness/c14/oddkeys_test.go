package c14

import (
	"fmt"
	"math"
	"sort"
	"strings"
	"testing"

	"github.com/dapr/kit/concurrency/cmap"
	"pgregory.net/rapid"

	"verifharness/vk"
)

// Keys of every comparable kind. The map is generic over comparable keys, and "an ordinary map" has well-defined
// answers for keys that are not equal to themselves (a float NaN, or a struct, array or interface value holding
// one): every Store of such a key adds an entry, no Load or Delete ever finds it, Len and Range count it, and only
// Clear removes it. Also +0 / -0 (equal, one entry) and interface keys of different dynamic types with equal-looking
// values (different keys). Sequential histories against the builtin map, compared after every operation.
type fkey struct {
	F float64
	S string
}

type oddOp struct {
	Kind string // store load delete lad len keys range clear
	K    int    // index into the key menu
	V    int
}

func oddStr(ops []oddOp) string {
	var p []string
	for _, o := range ops {
		switch o.Kind {
		case "store":
			p = append(p, fmt.Sprintf("store(k%d,%d)", o.K, o.V))
		case "load", "delete", "lad":
			p = append(p, fmt.Sprintf("%s(k%d)", o.Kind, o.K))
		default:
			p = append(p, o.Kind)
		}
	}
	return strings.Join(p, " ")
}

func runOdd[K comparable](menu []K, ops []oddOp) string {
	m := cmap.NewMap[K, int]()
	ref := map[K]int{}
	pairs := func(f func(func(K, int))) string {
		var p []string
		f(func(k K, v int) { p = append(p, fmt.Sprintf("%#v=%d", k, v)) })
		sort.Strings(p)
		return strings.Join(p, " ")
	}
	for n, o := range ops {
		k := menu[o.K%len(menu)]
		switch o.Kind {
		case "store":
			m.Store(k, o.V)
			ref[k] = o.V
		case "load":
			gv, gok := m.Load(k)
			wv, wok := ref[k]
			if gv != wv || gok != wok {
				return fmt.Sprintf("op %d: Load(%#v) = (%d, %v), an ordinary map gives (%d, %v)", n, k, gv, gok, wv, wok)
			}
		case "delete":
			m.Delete(k)
			delete(ref, k)
		case "lad":
			gv, gok := m.LoadAndDelete(k)
			wv, wok := ref[k]
			delete(ref, k)
			if gv != wv || gok != wok {
				return fmt.Sprintf("op %d: LoadAndDelete(%#v) = (%d, %v), an ordinary map gives (%d, %v)", n, k, gv, gok, wv, wok)
			}
		case "clear":
			m.Clear()
			clear(ref)
		}
		if g, w := m.Len(), len(ref); g != w {
			return fmt.Sprintf("after op %d (%s): Len = %d, an ordinary map has %d entries", n, oddStr(ops[n:n+1]), g, w)
		}
		if o.Kind == "keys" || o.Kind == "clear" || n == len(ops)-1 {
			var gk, wk []string
			for _, k := range m.Keys() {
				gk = append(gk, fmt.Sprintf("%#v", k))
			}
			for k := range ref {
				wk = append(wk, fmt.Sprintf("%#v", k))
			}
			sort.Strings(gk)
			sort.Strings(wk)
			if strings.Join(gk, " ") != strings.Join(wk, " ") {
				return fmt.Sprintf("after op %d (%s): Keys = [%s], an ordinary map holds [%s]", n, oddStr(ops[n:n+1]), strings.Join(gk, " "), strings.Join(wk, " "))
			}
		}
		if o.Kind == "range" || o.Kind == "clear" || n == len(ops)-1 {
			g := pairs(func(f func(K, int)) { m.Range(func(k K, v int) bool { f(k, v); return true }) })
			w := pairs(func(f func(K, int)) {
				for k, v := range ref {
					f(k, v)
				}
			})
			if g != w {
				return fmt.Sprintf("after op %d (%s): Range visits [%s], an ordinary map holds [%s]", n, oddStr(ops[n:n+1]), g, w)
			}
		}
	}
	return ""
}

func TestMapOddKeys(t *testing.T) {
	sec := vk.Sec("MapOddKeys")
	nan := math.NaN()
	negZero := math.Copysign(0, -1)
	floats := []float64{0, negZero, 1, nan, math.Inf(1), math.Float64frombits(0x7ff8000000000001)}
	structs := []fkey{{0, "a"}, {negZero, "a"}, {nan, "a"}, {nan, "b"}, {1, ""}}
	arrays := [][2]float64{{0, 0}, {0, nan}, {nan, nan}, {1, 2}}
	anys := []any{0, int8(0), "0", 0.0, nan, float32(0), fkey{nan, "x"}, nil, [1]float64{nan}, true}
	vk.Check(t, 3000, 300000, func(rt *rapid.T) {
		kind := rapid.SampledFrom([]string{"float64", "struct", "array", "any"}).Draw(rt, "keyType")
		var ops []oddOp
		for i := rapid.IntRange(1, 25).Draw(rt, "nops"); i > 0; i-- {
			o := oddOp{Kind: rapid.SampledFrom([]string{"store", "store", "store", "load", "delete", "lad", "len", "keys", "range", "clear"}).Draw(rt, "op"), K: rapid.IntRange(0, 9).Draw(rt, "k"), V: rapid.IntRange(1, 99).Draw(rt, "v")}
			ops = append(ops, o)
		}
		var msg string
		switch kind {
		case "float64":
			msg = runOdd(floats, ops)
		case "struct":
			msg = runOdd(structs, ops)
		case "array":
			msg = runOdd(arrays, ops)
		default:
			msg = runOdd(anys, ops)
		}
		if msg != "" {
			rt.Fatalf("C14 cmap.Map agreement with an ordinary map violated: %s\ncase: map[%s]int %s", msg, kind, oddStr(ops))
		}
		hasClear, stores := false, 0
		for _, o := range ops {
			if o.Kind == "clear" {
				hasClear = true
			}
			if o.Kind == "store" {
				stores++
			}
		}
		cls := []string{"oddkeys." + kind}
		if hasClear {
			cls = append(cls, "oddkeys.with-clear")
		}
		sec.Case(stores >= 2, vk.FP(kind, oddStr(ops)), cls...)
		sec.Sample(func() any { return "map[" + kind + "]int " + oddStr(ops) })
	})
}
