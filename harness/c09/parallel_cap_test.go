package c09

import (
	"context"
	"fmt"
	"runtime"
	"sync"
	"sync/atomic"
	"testing"
	"testing/synctest"
	"time"

	"github.com/dapr/kit/events/ratelimiting"
	clocktesting "k8s.io/utils/clock/testing"

	"verifharness/vk"
)

// The cap reached by Adds that are truly simultaneous. Inside an open window k goroutines call Add behind a gate, with
// MaxPendingEvents = k; the injected clock never moves. "Signalled as soon as the pending-events cap is reached": when
// the bubble is quiescent, exactly one signal has arrived for the round (the k Adds together reach the cap once) - no
// Add may be lost in the count. Repeated for hundreds of rounds on one limiter (the window stays open: every token
// extends it, the clock stands still).
type parCapCase struct {
	K      int
	Rounds int
	Procs  int
}

func (c parCapCase) String() string {
	return fmt.Sprintf("coalescing.parallelcap{cap=%d adds-per-round=%d (simultaneous, one goroutine each) rounds=%d gomaxprocs=%d}", c.K, c.K, c.Rounds, c.Procs)
}

func runParCap(t *testing.T, c parCapCase) error {
	var errs vk.Errs
	berr := vk.Bubble(t, c.String(), func() {
		if c.Procs > 0 {
			defer runtime.GOMAXPROCS(runtime.GOMAXPROCS(c.Procs))
		}
		init, max := 10*time.Millisecond, 40*time.Millisecond
		k := c.K
		rl, err := ratelimiting.NewCoalescing(ratelimiting.OptionsCoalescing{InitialDelay: &init, MaxDelay: &max, MaxPendingEvents: &k})
		if err != nil {
			errs.Failf("NewCoalescing: %v", err)
			return
		}
		rl.(ratelimiting.RateLimiterWithTicker).WithTicker(clocktesting.NewFakeClock(time.Date(2024, 1, 1, 0, 0, 0, 0, time.UTC)))
		ch := make(chan struct{})
		ctx, cancel := context.WithCancel(context.Background())
		defer cancel()
		var got atomic.Int64
		stop := make(chan struct{})
		var wg sync.WaitGroup
		wg.Add(2)
		go func() { defer wg.Done(); _ = rl.Run(ctx, ch) }()
		go func() {
			defer wg.Done()
			for {
				select {
				case <-ch:
					got.Add(1)
				case <-stop:
					return
				}
			}
		}()
		synctest.Wait()
		rl.Add() // the first Add after idle: signalled at once, opens the window
		synctest.Wait()
		if got.Load() != 1 {
			errs.Failf("the first Add after idle was followed by %d signals", got.Load())
		}
		for round := 0; round < c.Rounds && errs.Err() == nil; round++ {
			before := got.Load()
			gate := make(chan struct{})
			var awg sync.WaitGroup
			for i := 0; i < c.K; i++ {
				awg.Add(1)
				go func() { defer awg.Done(); <-gate; rl.Add() }()
			}
			synctest.Wait()
			close(gate)
			awg.Wait()
			synctest.Wait()
			if n := got.Load() - before; n != 1 {
				errs.Failf("round %d: %d simultaneous Adds inside an open window with MaxPendingEvents=%d were followed by %d signal(s) although nothing in the bubble can run any more and the injected clock has not moved; the cap was reached, so exactly one signal is due at once", round, c.K, c.K, n)
			}
		}
		close(stop)
		cancel()
		rl.Close()
		wg.Wait()
	})
	if e := errs.Err(); e != nil {
		return e
	}
	return berr
}

func TestCoalescingParallelCap(t *testing.T) {
	sec := vk.Sec("CoalescingParallelCap")
	for _, procs := range []int{0, 4} {
		for _, k := range []int{2, 4, 12} {
			c := parCapCase{K: k, Rounds: vk.Pick(1500, 30000), Procs: procs}
			if err := runParCap(t, c); err != nil {
				t.Fatalf("C09 coalescing rate limiter violated: %v\ncase: %s", err, c)
			}
			sec.Case(true, vk.FP(c.String()), fmt.Sprintf("parallelcap.k-%d", k))
			sec.ClassN("parallelcap.rounds", int64(c.Rounds))
			sec.Sample(func() any { return c.String() })
		}
	}
}
