package c16

import (
	"bytes"
	"errors"
	"fmt"
	"io"
	"testing"

	"github.com/dapr/kit/streams"
	"pgregory.net/rapid"

	"verifharness/vk"
)

type limitCase struct {
	N        int64
	Len      int
	Chunks   []int
	EOFWith  bool
	FailAt   int
	FailWith bool
	FailErr  int   // which error value the source fails with (index into vk.FaultErrors)
	FailOnce bool  // the error comes from one Read call only
	Consumer []int // nil: io.ReadAll; [-1]: io.Copy
	CloseErr bool  // the source's Close reports an error (the call is counted all the same)
}

func (c limitCase) String() string {
	return fmt.Sprintf("limit{N=%d len=%d chunks=%v eofWith=%v failAt=%d failWith=%v failErr=%d failOnce=%v consumer=%v closeErr=%v}", c.N, c.Len, c.Chunks, c.EOFWith, c.FailAt, c.FailWith, c.FailErr, c.FailOnce, c.Consumer, c.CloseErr)
}

func data(n int, salt byte) []byte {
	b := make([]byte, n)
	for i := range b {
		b[i] = byte(i*7+3) ^ salt
	}
	return b
}

func consume(r io.Reader, consumer []int) ([]byte, error) {
	if len(consumer) == 1 && consumer[0] == -1 {
		var buf bytes.Buffer
		_, err := io.Copy(&buf, r)
		return buf.Bytes(), err
	}
	if consumer == nil {
		b, err := io.ReadAll(r)
		return b, err
	}
	return vk.Consume(r, consumer)
}

// checkLimit is the oracle for LimitReadCloser. It returns "" or a failure text.
func checkLimit(c limitCase) string {
	d := data(c.Len, 0x5a)
	injected := vk.FaultErrors[c.FailErr%len(vk.FaultErrors)]
	src := &vk.ScriptReader{Data: d, Chunks: c.Chunks, EOFWith: c.EOFWith, FailAt: c.FailAt, FailWith: c.FailWith, FailOnce: c.FailOnce, Err: injected}
	if c.CloseErr {
		src.CloseErr = errSrcClose
	}
	lr := streams.LimitReadCloser(src, c.N)
	out, err := consume(lr, c.Consumer)
	faulty := c.FailAt >= 0 && c.FailAt <= c.Len
	avail := c.Len // bytes the source can deliver
	if faulty {
		avail = c.FailAt
	}
	if !bytes.HasPrefix(d, out) {
		return fmt.Sprintf("output %x is not a prefix of the source %x", out, d)
	}
	if int64(len(out)) > c.N {
		return fmt.Sprintf("delivered %d bytes, more than the limit %d", len(out), c.N)
	}
	switch {
	case !faulty && int64(c.Len) <= c.N:
		if err != nil {
			return fmt.Sprintf("source fits (len %d <= N %d) but got error %v", c.Len, c.N, err)
		}
		if !bytes.Equal(out, d) {
			return fmt.Sprintf("source fits but output differs: got %d bytes want %d", len(out), c.Len)
		}
	case !faulty && int64(c.Len) > c.N:
		if err == nil {
			return fmt.Sprintf("source of %d bytes exceeds N=%d but the stream ended in a clean EOF after %d bytes (silent truncation)", c.Len, c.N, len(out))
		}
		if !errors.Is(err, streams.ErrStreamTooLarge) {
			return fmt.Sprintf("source exceeds N but error is %v, not ErrStreamTooLarge", err)
		}
		if src.Closes != 1 {
			return fmt.Sprintf("source exceeds N: source closed %d times when the error was reported, want 1", src.Closes)
		}
		// A consumer that reads on after the error (a retry loop, a reader wrapped by another layer) must not be
		// told that the stream has ended cleanly after all: still no byte beyond the limit and still not EOF.
		for k := 1; k <= 3; k++ {
			n, e := lr.Read(make([]byte, k))
			if n != 0 || !errors.Is(e, streams.ErrStreamTooLarge) {
				return fmt.Sprintf("source of %d bytes exceeds N=%d and the stream failed with ErrStreamTooLarge, but Read #%d after that returned (%d, %v): the oversized source now looks like a complete one", c.Len, c.N, k, n, e)
			}
		}
	case faulty:
		if err == nil {
			return fmt.Sprintf("source fails at offset %d but stream ended in clean EOF after %d bytes", c.FailAt, len(out))
		}
		if int64(avail) <= c.N {
			if !errors.Is(err, injected) {
				return fmt.Sprintf("source error at %d (<= N) surfaced as %v", c.FailAt, err)
			}
			if !bytes.Equal(out, d[:avail]) {
				return fmt.Sprintf("bytes before the source error lost: got %d want %d", len(out), avail)
			}
		} else if !errors.Is(err, injected) && !errors.Is(err, streams.ErrStreamTooLarge) {
			return fmt.Sprintf("unexpected error %v", err)
		}
	}
	// Close - three times, whatever the source's Close reports, with a Read after each call: the source ends up closed
	// exactly once and is not read after that.
	return closeRepeatedly(lr, 3, true, []*vk.ScriptReader{src}, nil)
}

func compositions(n int) [][]int {
	if n == 0 {
		return [][]int{{}}
	}
	var out [][]int
	for first := 1; first <= n; first++ {
		for _, rest := range compositions(n - first) {
			out = append(out, append([]int{first}, rest...))
		}
	}
	return out
}

func withZeros(ch []int) []int {
	out := make([]int, 0, 2*len(ch)+1)
	for _, c := range ch {
		out = append(out, 0, c)
	}
	return append(out, 0)
}

func familyChunks(L int, N int) [][]int {
	fam := [][]int{{1}, {2}, {3}, {L + 1}}
	for _, a := range []int{1, N - 1, N, N + 1, L - 1} {
		if a >= 1 && a < L {
			fam = append(fam, []int{a, L - a}, []int{a, 1, L})
		}
	}
	return fam
}

func runLimitGrid(t *testing.T, sec *vk.Section, maxN int, exhaustive bool) {
	idx := 0
	for N := 0; N <= maxN; N++ {
		for L := 0; L <= N+3; L++ {
			var chunkSets [][]int
			if exhaustive {
				chunkSets = compositions(L)
			} else {
				chunkSets = familyChunks(L, N)
			}
			for _, ch := range chunkSets {
				for _, zeros := range []bool{false, true} {
					chunks := ch
					if zeros {
						chunks = withZeros(ch)
					}
					for _, eofWith := range []bool{false, true} {
						consumers := [][]int{nil, {-1}}
						for b := 1; b <= N+2; b++ {
							consumers = append(consumers, []int{b})
						}
						for _, cons := range consumers {
							idx++
							if !vk.Mine(idx) {
								continue
							}
							c := limitCase{N: int64(N), Len: L, Chunks: chunks, EOFWith: eofWith, FailAt: -1, Consumer: cons, CloseErr: idx%4 == 1}
							if msg := checkLimit(c); msg != "" {
								t.Fatalf("C16 limit violated: %s\ncase: %s", msg, c)
							}
							nt := L > N || (L >= 2 && len(ch) >= 2)
							cls := "fits"
							if L > N {
								cls = "oversize"
								if L == N+1 && eofWith {
									cls = "oversize.N+1-with-EOF"
								}
							}
							sec.Case(nt, vk.FP(c.String()), "limit."+cls)
							sec.Sample(func() any { return c.String() })
						}
					}
				}
			}
		}
	}
}

// TestLimitSweepExhaustive enumerates every limit 0..5, every source length
// 0..N+3, EVERY composition of the source into read chunks, with and without
// zero-length reads, both EOF styles, every consumer buffer size 1..N+2 plus
// io.ReadAll and io.Copy.
func TestLimitSweepExhaustive(t *testing.T) {
	sec := vk.Sec("LimitSweepExhaustive")
	runLimitGrid(t, sec, vk.Pick(5, 8), true)
	sec.SetExhaustive()
}

// TestLimitSweepFamilies covers limits 0..16 with families of chunkings around N.
func TestLimitSweepFamilies(t *testing.T) {
	runLimitGrid(t, vk.Sec("LimitSweepFamilies"), 16, false)
}

func TestLimitRapid(t *testing.T) {
	sec := vk.Sec("LimitRapid")
	vk.Check(t, 60000, 30000000, func(rt *rapid.T) {
		N := rapid.OneOf(rapid.IntRange(0, 16), rapid.IntRange(0, 300), rapid.SampledFrom([]int{511, 512, 513, 1024, 4096})).Draw(rt, "N")
		var L int
		switch rapid.IntRange(0, 3).Draw(rt, "lenClass") {
		case 0:
			L = rapid.IntRange(0, N).Draw(rt, "len<=N")
		case 1:
			L = N + rapid.IntRange(1, 3).Draw(rt, "over")
		default:
			L = rapid.IntRange(0, 2*N+40).Draw(rt, "len")
		}
		c := limitCase{N: int64(N), Len: L, Chunks: vk.GenChunks(rt, "src", N+5), EOFWith: rapid.Bool().Draw(rt, "eofWith"), FailAt: -1}
		if rapid.IntRange(0, 3).Draw(rt, "fault") == 0 {
			c.FailAt = rapid.IntRange(0, L).Draw(rt, "failAt")
			c.FailWith = rapid.Bool().Draw(rt, "failWith")
			c.FailErr = rapid.IntRange(0, len(vk.FaultErrors)-1).Draw(rt, "failErr")
			c.FailOnce = rapid.Bool().Draw(rt, "failOnce")
		}
		switch rapid.IntRange(0, 3).Draw(rt, "consumer") {
		case 0:
			c.Consumer = nil
		case 1:
			c.Consumer = []int{-1}
		default:
			c.Consumer = rapid.SliceOfN(rapid.IntRange(1, N+3), 1, 4).Draw(rt, "bufs")
		}
		c.CloseErr = rapid.IntRange(0, 3).Draw(rt, "closeErr") == 0
		if msg := checkLimit(c); msg != "" {
			rt.Fatalf("C16 limit violated: %s\ncase: %s", msg, c)
		}
		nt := L > N || (L >= 2 && len(c.Chunks) >= 1)
		cls := "fits"
		if c.FailAt >= 0 {
			cls = "fault"
		} else if L > N {
			cls = "oversize"
		}
		classes := []string{"limit." + cls}
		if c.CloseErr {
			classes = append(classes, "limit.sourceCloseErr")
		}
		sec.Case(nt, vk.FP(c.String()), classes...)
		sec.Sample(func() any { return c.String() })
	})
}
