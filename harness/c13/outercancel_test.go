package c13

import (
	"context"
	"errors"
	"fmt"
	"strings"
	"sync"
	"testing"
	"testing/synctest"
	"time"

	"github.com/dapr/kit/concurrency/lock"
	"pgregory.net/rapid"

	"verifharness/vk"
)

type oop struct {
	Kind string // rlock release wlock wunlock adv parentcancel
	W    int
	Adv  string // half | grace-1ns | grace | grace+1ms | 10x
}

type ocCase struct {
	Workers int
	GraceMS int
	Ops     []oop
	Derive  int // every admitted reader derives this many child contexts from the context it was given (cancelling the reader takes that much longer)
}

func (c ocCase) String() string {
	var p []string
	for _, o := range c.Ops {
		if o.Kind == "adv" {
			p = append(p, "adv("+o.Adv+")")
		} else {
			p = append(p, fmt.Sprintf("%s(w%d)", o.Kind, o.W))
		}
	}
	return fmt.Sprintf("outercancel{workers=%d grace=%dms derive=%d ops=[%s]}", c.Workers, c.GraceMS, c.Derive, strings.Join(p, " "))
}

var errVerifCancel = errors.New("verif: outer cancel")

type ocOutcome struct {
	writerWaitedGrace, writerWaitedRelease, readerQueuedBehindWriter, parentCancelled bool
}

func runOuterCancel(t *testing.T, c ocCase) (out ocOutcome, err error) {
	var errs vk.Errs
	berr := vk.Bubble(t, c.String(), func() {
		grace := time.Duration(c.GraceMS) * time.Millisecond
		oc := lock.NewOuterCancel(errVerifCancel, grace)
		runCtx, shutdown := context.WithCancel(context.Background())
		defer shutdown()
		runDone := make(chan struct{})
		errs.Go(func() { oc.Run(runCtx); close(runDone) })
		ws := newWorkers(c.Workers, &errs)
		defer ws.stop()
		type wstate struct {
			role         string // "" | "r" | "w"
			waiting      bool   // call in progress
			parentCancel context.CancelFunc
			rctx         context.Context
			cancel       context.CancelFunc
			rerr         error
			grantedAt    time.Time
			reqAt        time.Time
			released     bool // reader called its cancel
			parentDead   bool
		}
		st := make([]*wstate, c.Workers)
		for i := range st {
			st[i] = &wstate{}
		}
		var admittedMu sync.Mutex
		admitted := map[int][]context.Context{} // readers holding the lock (admitted, not released by themselves): everything derived from their context
		writer := -1                            // worker holding or pending as writer
		writerGranted := false
		var writerProc time.Time // when the lock started handling the writer's request
		queuedWriter := -1
		queuedReaders := []int{}
		// expectedGrant: the instant at which the pending writer must be granted given the model state
		check := func(step string) bool {
			now := time.Now()
			if errs.Err() != nil {
				return false
			}
			// readers' contexts: cancelled only for a listed reason
			for w, s := range st {
				if s.role != "r" || s.waiting || s.rerr != nil {
					continue
				}
				told := s.released || s.parentDead || (writer >= 0 && !writerProc.IsZero() && !now.Before(writerProc.Add(grace)) && !s.grantedAt.After(writerProc))
				if s.rctx.Err() != nil && !told {
					errs.Failf("after %s: reader w%d's context is cancelled (cause %v) although it did not release, its parent is live, no writer's grace period has elapsed and there was no shutdown", step, w, context.Cause(s.rctx))
					return false
				}
			}
			if writer >= 0 {
				s := st[writer]
				ret := ws.returned(writer)
				if !writerGranted {
					act := []int{}
					for w, r := range st {
						if r.role == "r" && !r.waiting && !r.released && r.rerr == nil && !r.grantedAt.After(writerProc) {
							act = append(act, w)
						}
					}
					due := len(act) == 0 || !now.Before(writerProc.Add(grace))
					if ret && !due {
						errs.Failf("after %s: writer w%d was granted at %v after its request, while readers %v have neither released nor been given the grace period (%v)", step, writer, s.grantedAt.Sub(writerProc), act, grace)
						return false
					}
					if !ret && due && !writerProc.IsZero() {
						errs.Failf("after %s: writer w%d is still waiting %v after its request although every earlier reader released or the grace period (%v) elapsed (unreleased readers %v)", step, writer, now.Sub(writerProc), grace, act)
						return false
					}
					if ret {
						writerGranted = true
						s.waiting = false
						// readers that did not release were cancelled with the configured cause, exactly at the end of the grace period
						for _, w := range act {
							r := st[w]
							if r.rctx.Err() == nil {
								errs.Failf("after %s: writer w%d granted while reader w%d has neither released nor had its context cancelled", step, writer, w)
								return false
							}
							if !r.parentDead && !errors.Is(context.Cause(r.rctx), errVerifCancel) {
								errs.Failf("after %s: reader w%d was cancelled for the writer with cause %v, want the configured cause", step, w, context.Cause(r.rctx))
								return false
							}
							r.released = true // told to stop: no longer counts as inside
						}
						if len(act) > 0 {
							if !s.grantedAt.Equal(writerProc.Add(grace)) {
								errs.Failf("after %s: writer w%d granted %v after its request with unreleased readers %v; the grace period is %v", step, writer, s.grantedAt.Sub(writerProc), act, grace)
								return false
							}
							out.writerWaitedGrace = true
						}
					}
				}
			}
			// queued readers stay blocked while a writer is pending or holding
			for _, w := range queuedReaders {
				if writer >= 0 && ws.returned(w) && !(st[w].parentDead && st[w].rerr != nil) {
					errs.Failf("after %s: reader w%d was admitted while writer w%d is %s", step, w, writer, map[bool]string{true: "holding the lock", false: "waiting for it"}[writerGranted])
					return false
				}
			}
			if queuedWriter >= 0 && writer >= 0 && ws.returned(queuedWriter) {
				errs.Failf("after %s: writer w%d was granted while writer w%d holds the lock", step, queuedWriter, writer)
				return false
			}
			return true
		}
		// promote: after the writer unlocked, queued requests are handled
		promote := func(step string) bool {
			now := time.Now()
			if queuedWriter >= 0 {
				writer, queuedWriter = queuedWriter, -1
				writerGranted = false
				writerProc = now
				return true
			}
			for _, w := range queuedReaders {
				if !ws.returned(w) {
					errs.Failf("after %s: reader w%d is still blocked although the writer unlocked and no other writer is waiting", step, w)
					return false
				}
				st[w].waiting = false
			}
			queuedReaders = queuedReaders[:0]
			return true
		}
		for n, o := range c.Ops {
			w := o.W % c.Workers
			s := st[w]
			step := fmt.Sprintf("op %d %s(w%d)", n, o.Kind, w)
			switch o.Kind {
			case "rlock":
				if ws.ws[w].busy || s.role != "" || queuedWriter >= 0 {
					continue
				}
				parent, pc := context.WithCancel(context.Background())
				*s = wstate{role: "r", waiting: true, parentCancel: pc, reqAt: time.Now()}
				ws.issue(w, func() {
					rctx, cancel, e := oc.RLock(parent)
					s.rctx, s.cancel, s.rerr = rctx, cancel, e
					s.grantedAt = time.Now()
					if e == nil && rctx != nil {
						kids := []context.Context{rctx}
						for i := 0; i < c.Derive; i++ {
							k, kc := context.WithCancel(rctx)
							_ = kc
							kids = append(kids, k)
						}
						admittedMu.Lock()
						admitted[w] = kids
						admittedMu.Unlock()
					}
				})
				synctest.Wait()
				if writer >= 0 {
					queuedReaders = append(queuedReaders, w)
					out.readerQueuedBehindWriter = true
				} else {
					if !ws.returned(w) {
						errs.Failf("after %s: RLock blocks although no writer holds or waits for the lock", step)
						return
					}
					s.waiting = false
					if s.rerr != nil || s.rctx.Err() != nil {
						errs.Failf("after %s: RLock returned err=%v ctxErr=%v with no writer, parent cancellation or shutdown", step, s.rerr, s.rctx.Err())
						return
					}
				}
			case "release":
				if s.role != "r" || s.waiting || ws.ws[w].busy {
					continue
				}
				admittedMu.Lock()
				delete(admitted, w)
				admittedMu.Unlock()
				if !s.released && s.rerr == nil {
					if writer >= 0 && !writerGranted {
						out.writerWaitedRelease = true
					}
					s.cancel()
					s.cancel() // idempotent
					s.released = true
				}
				s.parentCancel()
				s.role = ""
				synctest.Wait()
			case "parentcancel":
				if s.role != "r" {
					continue
				}
				s.parentCancel()
				s.parentDead = true
				out.parentCancelled = true
				synctest.Wait()
				if s.waiting {
					// a queued reader whose context ends stops waiting and holds nothing
					if !ws.returned(w) {
						// it may still be parked in the request channel behind the writer: the call returns at the latest when it is handled
						break
					}
					s.waiting = false
					if s.rerr == nil {
						// granted before the cancellation was seen: only possible if no writer was in the way
						if writer >= 0 {
							errs.Failf("after %s: reader w%d was admitted while writer w%d is pending or holding", step, w, writer)
							return
						}
					} else {
						for i, q := range queuedReaders {
							if q == w {
								queuedReaders = append(queuedReaders[:i], queuedReaders[i+1:]...)
								break
							}
						}
						s.role = ""
					}
				}
			case "wlock":
				if ws.ws[w].busy || s.role != "" {
					continue
				}
				if writer >= 0 && (!writerGranted || queuedWriter >= 0 || len(queuedReaders) > 0) {
					continue
				}
				*s = wstate{role: "w", waiting: true, reqAt: time.Now()}
				ws.issue(w, func() {
					s.cancel = oc.Lock()
					s.grantedAt = time.Now()
					// at the very instant the writer is granted, every reader admitted before it has been told to stop:
					// its context - and everything derived from it - is done
					admittedMu.Lock()
					defer admittedMu.Unlock()
					for r, kids := range admitted {
						for i, k := range kids {
							if k.Err() == nil {
								errs.Failf("writer w%d was granted while reader w%d had not been told to stop: context %d of the %d derived from the one RLock gave it is still live", w, r, i, len(kids))
								return
							}
						}
					}
				})
				if writer >= 0 {
					queuedWriter = w
				} else {
					writer, writerGranted, writerProc = w, false, time.Now()
				}
				synctest.Wait()
			case "wunlock":
				if writer != w || !writerGranted || ws.ws[w].busy {
					continue
				}
				s.cancel()
				s.role = ""
				writer, writerGranted = -1, false
				writerProc = time.Time{}
				synctest.Wait()
				if !promote(step) {
					return
				}
			case "adv":
				d := grace
				switch o.Adv {
				case "half":
					d = grace / 2
				case "grace-1ns":
					d = grace - time.Nanosecond
				case "grace+1ms":
					d = grace + time.Millisecond
				case "10x":
					d = 10 * grace
				case "100x":
					d = 100 * grace
				case "to-grant":
					if writer >= 0 && !writerGranted {
						d = writerProc.Add(grace).Sub(time.Now())
					}
				}
				if d > 0 {
					time.Sleep(d)
				}
				synctest.Wait()
			}
			if !check(step) {
				return
			}
			// a queued reader whose parent died may have returned in the meantime
			for i := 0; i < len(queuedReaders); i++ {
				q := queuedReaders[i]
				if st[q].parentDead && ws.returned(q) && st[q].rerr != nil {
					st[q].waiting, st[q].role = false, ""
					queuedReaders = append(queuedReaders[:i], queuedReaders[i+1:]...)
					i--
				}
			}
		}
		// wind down: let the pending writer through, unlock, admit queued readers, release, shut down
		for guard := 0; guard < 10; guard++ {
			if writer >= 0 && !writerGranted {
				time.Sleep(writerProc.Add(grace).Sub(time.Now()) + time.Nanosecond)
				synctest.Wait()
				if !check("final wait for the writer") {
					return
				}
			}
			if writer >= 0 && writerGranted {
				st[writer].cancel()
				st[writer].role = ""
				writer, writerGranted, writerProc = -1, false, time.Time{}
				synctest.Wait()
				if !promote("final writer unlock") || !check("final writer unlock") {
					return
				}
			}
			if writer < 0 {
				break
			}
		}
		live := 0
		for _, s := range st {
			if s.role == "r" && !s.waiting && !s.released && s.rerr == nil {
				live++
			}
		}
		shutdown()
		synctest.Wait()
		<-runDone
		for w, s := range st {
			if s.role == "r" && !s.waiting && !s.released && s.rerr == nil && s.rctx.Err() == nil {
				errs.Failf("after shutdown reader w%d's context is still live", w)
				return
			}
			if s.parentCancel != nil {
				s.parentCancel()
			}
		}
		if _, _, e := oc.RLock(context.Background()); e == nil {
			errs.Failf("RLock after shutdown succeeded")
			return
		}
		unlock := oc.Lock()
		unlock()
		_ = live
	})
	if e := errs.Err(); e != nil {
		return out, e
	}
	return out, berr
}

func TestOuterCancel(t *testing.T) {
	sec := vk.Sec("OuterCancel")
	vk.Check(t, 12000, 4000000, func(rt *rapid.T) {
		c := ocCase{Workers: rapid.IntRange(2, 6).Draw(rt, "workers"), GraceMS: rapid.SampledFrom([]int{10, 1000}).Draw(rt, "graceMS"), Derive: rapid.SampledFrom([]int{0, 0, 8, 300}).Draw(rt, "derive")}
		n := rapid.IntRange(1, 30).Draw(rt, "nops")
		for i := 0; i < n; i++ {
			w := rapid.IntRange(0, 5).Draw(rt, "w")
			switch k := rapid.IntRange(0, 15).Draw(rt, "kind"); {
			case k <= 3:
				c.Ops = append(c.Ops, oop{Kind: "rlock", W: w})
			case k <= 5:
				c.Ops = append(c.Ops, oop{Kind: "release", W: w})
			case k <= 8:
				c.Ops = append(c.Ops, oop{Kind: "wlock", W: w})
			case k <= 10:
				c.Ops = append(c.Ops, oop{Kind: "wunlock", W: w})
			case k == 11:
				c.Ops = append(c.Ops, oop{Kind: "parentcancel", W: w})
			default:
				c.Ops = append(c.Ops, oop{Kind: "adv", Adv: rapid.SampledFrom([]string{"half", "grace-1ns", "grace", "grace+1ms", "10x", "100x", "to-grant"}).Draw(rt, "adv")})
			}
		}
		out, err := runOuterCancel(t, c)
		if err != nil {
			rt.Fatalf("C13 locks violated: %v\ncase: %s", err, c)
		}
		var cls []string
		for name, b := range map[string]bool{"outercancel.writer-waited-grace": out.writerWaitedGrace, "outercancel.writer-waited-release": out.writerWaitedRelease,
			"outercancel.reader-queued-behind-writer": out.readerQueuedBehindWriter, "outercancel.parent-cancelled": out.parentCancelled} {
			if b {
				cls = append(cls, name)
			}
		}
		sec.Case(out.writerWaitedGrace || out.writerWaitedRelease || out.readerQueuedBehindWriter, vk.FP(c.String()), cls...)
		sec.Sample(func() any { return c.String() })
	})
}

// TestOuterCancelQueuedCancel: readers queued behind a holding writer, some of them give up (their parent context ends)
// while they are queued - in the handler, or still in the request channel behind another request. Whatever each RLock
// call reports, afterwards nothing may be held on their behalf: once the writer has unlocked and the remaining readers
// have released, the next writer is granted at once, not after the grace period. Repeated, because which request the
// handler takes first is a random choice of the lock.
func TestOuterCancelQueuedCancel(t *testing.T) {
	sec := vk.Sec("OuterCancelQueuedCancel")
	idx := 0
	for k := 1; k <= 3; k++ {
		for mask := 1; mask < 1<<k; mask++ {
			for _, advBefore := range []string{"", "half"} {
				for rep := 0; rep < vk.Pick(12, 300); rep++ {
					idx++
					if !vk.Mine(idx) {
						continue
					}
					c := ocCase{Workers: k + 2, GraceMS: 1000}
					c.Ops = append(c.Ops, oop{Kind: "wlock", W: 0})
					for r := 1; r <= k; r++ {
						c.Ops = append(c.Ops, oop{Kind: "rlock", W: r})
					}
					if advBefore != "" {
						c.Ops = append(c.Ops, oop{Kind: "adv", Adv: advBefore})
					}
					for r := 1; r <= k; r++ {
						if mask&(1<<(r-1)) != 0 {
							c.Ops = append(c.Ops, oop{Kind: "parentcancel", W: r})
						}
					}
					c.Ops = append(c.Ops, oop{Kind: "wunlock", W: 0})
					for r := 1; r <= k; r++ {
						c.Ops = append(c.Ops, oop{Kind: "release", W: r})
					}
					c.Ops = append(c.Ops, oop{Kind: "wlock", W: k + 1}, oop{Kind: "adv", Adv: "half"}, oop{Kind: "wunlock", W: k + 1})
					if _, err := runOuterCancel(t, c); err != nil {
						t.Fatalf("C13 locks violated: %v\ncase: %s", err, c)
					}
					if rep == 0 {
						sec.Case(true, vk.FP(c.String()), "outercancel.gave-up-while-queued")
						sec.Sample(func() any { return c.String() })
					}
				}
			}
		}
	}
}
