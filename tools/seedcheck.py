#!/usr/bin/env python3
"""Confirms a seeded change independently and runs our checks against it.

  tools/seedcheck.py <dir with patch.diff, meta.json, demo> <name> [--props C01,C02] [--seeds 1,2,3] [--thorough]

Steps (each recorded in /verif/seeded/<name>/meta.json under "confirmed"):
  1. scratch worktree of /repo HEAD (outside /repo and /verif), patch applied, go build ./..., existing tests of the touched
     packages (plain and with -tags unit);
  2. the demonstration fails with the patch and passes without it;
  3. git -C /repo apply patch; ./check <id> (quick, given seeds; optionally thorough); git -C /repo checkout -- . straight afterwards.
"""
import argparse, json, os, re, shutil, subprocess, sys, time

ROOT = os.path.dirname(os.path.dirname(os.path.abspath(__file__)))


def run(cmd, cwd, timeout=1800, env=None):
    t0 = time.time()
    try:
        p = subprocess.run(cmd, cwd=cwd, shell=isinstance(cmd, str), stdout=subprocess.PIPE, stderr=subprocess.STDOUT, text=True, timeout=timeout, env=env)
        return p.returncode, p.stdout, time.time() - t0
    except subprocess.TimeoutExpired as e:
        return 124, (e.stdout or "") + "\nTIMEOUT", time.time() - t0


def main():
    ap = argparse.ArgumentParser()
    ap.add_argument("src")
    ap.add_argument("name")
    ap.add_argument("--props")
    ap.add_argument("--seeds", default="1,2,3")
    ap.add_argument("--thorough", action="store_true")
    ap.add_argument("--skip-confirm", action="store_true")
    ap.add_argument("--via-worktree", action="store_true", help="run the checks against a scratch worktree with the patch (VERIF_REPO) instead of patching /repo itself")
    a = ap.parse_args()
    src = os.path.abspath(a.src)
    meta = json.load(open(os.path.join(src, "meta.json")))
    dst = os.path.join(ROOT, "seeded", a.name)
    os.makedirs(dst, exist_ok=True)
    if os.path.realpath(src) != os.path.realpath(dst):
        for f in os.listdir(src):
            if os.path.isfile(os.path.join(src, f)):
                shutil.copy(os.path.join(src, f), dst)
    patch = os.path.join(dst, "patch.diff")
    # /repo may have moved on since the change was written (later fix/hook commits): if the patch no longer applies
    # as it is, rebase it with a 3-way apply in a scratch worktree and keep the rebased diff next to the original.
    hand = os.path.join(dst, "patch.rebased.diff")
    if subprocess.run(["git", "-C", "/repo", "apply", "--check", patch], capture_output=True).returncode != 0 and os.path.exists(hand) and \
            subprocess.run(["git", "-C", "/repo", "apply", "--check", hand], capture_output=True).returncode == 0:
        patch = hand  # a port of the change to the current tree made by hand (recorded in meta.json)
    elif subprocess.run(["git", "-C", "/repo", "apply", "--check", patch], capture_output=True).returncode != 0:
        rb = "/tmp/wt-seedrebase"
        subprocess.run(["git", "-C", "/repo", "worktree", "remove", "--force", rb], capture_output=True)
        subprocess.check_call(["git", "-C", "/repo", "worktree", "add", "-q", "--detach", rb, "HEAD"])
        try:
            r = subprocess.run(["git", "apply", "--3way", patch], cwd=rb, capture_output=True, text=True)
            if r.returncode != 0:
                print(r.stdout, r.stderr)
                raise SystemExit("patch does not apply to /repo HEAD, not even 3-way")
            d = subprocess.check_output(["git", "diff", "HEAD"], cwd=rb, text=True)
            open(os.path.join(dst, "patch.rebased.diff"), "w").write(d)
            patch = os.path.join(dst, "patch.rebased.diff")
        finally:
            subprocess.run(["git", "-C", "/repo", "worktree", "remove", "--force", rb], capture_output=True)
    files = re.findall(r"^\+\+\+ b/(\S+)", open(patch).read(), re.M)
    pkgs = sorted({"./" + os.path.dirname(f) for f in files})
    conf = {"repo_head": subprocess.check_output(["git", "-C", "/repo", "rev-parse", "--short", "HEAD"], text=True).strip(), "touched": files}
    wt = "/tmp/wt-seedchk-%d" % os.getpid()
    if not a.skip_confirm:
        subprocess.run(["git", "-C", "/repo", "worktree", "remove", "--force", wt], capture_output=True)
        subprocess.check_call(["git", "-C", "/repo", "worktree", "add", "-q", "--detach", wt, "HEAD"])
        try:
            rc, out, _ = run(["git", "apply", patch], wt)
            conf["applies"] = rc == 0
            if rc != 0:
                print(out)
                raise SystemExit("patch does not apply to /repo HEAD")
            rc, out, _ = run("go build ./... && go vet " + " ".join(pkgs), wt)
            conf["builds"] = rc == 0
            # existing tests of touched packages and (cheaply) of everything below them
            tests = {}
            for tag in ("", "-tags unit"):
                cmd = "go test -vet=off -count=1 -timeout 20m %s %s" % (tag, " ".join(p + "/..." for p in pkgs))
                rc, out, secs = run(cmd, wt)
                tests[cmd] = {"rc": rc, "tail": out[-600:], "s": round(secs)}
            conf["existing_tests"] = tests
            demo = meta.get("demo", {})
            demofiles = [f for f in os.listdir(dst) if f.endswith(".go")]

            cmd = re.sub(r"\s+\([^()]*\)\s*$", "", demo.get("cmd", ""))  # drop a trailing remark in parentheses
            # make the paths the demonstration's command may refer to exist in the scratch worktree
            for sub in ("SEEDED/1", "SEEDED/2", "SEEDED_DEMO"):
                d = os.path.join(wt, sub)
                os.makedirs(d, exist_ok=True)
                for f in demofiles:
                    shutil.copy(os.path.join(dst, f), d)
            if demo.get("copy_to") and "SEEDED/" not in cmd:
                for f in demofiles:
                    if f.endswith("_test.go"):
                        shutil.copy(os.path.join(dst, f), os.path.join(wt, demo["copy_to"], "zz_seeded_" + f))
            rc1, out1, s1 = run(cmd, wt, timeout=1200)
            conf["demo_cmd"] = cmd
            conf["demo_with_patch"] = {"rc": rc1, "tail": out1[-800:], "s": round(s1)}
            run(["git", "apply", "-R", patch], wt)
            rc2, out2, s2 = run(cmd, wt, timeout=1200)
            conf["demo_without_patch"] = {"rc": rc2, "tail": out2[-400:], "s": round(s2)}
            failed = lambda rc, out: rc != 0 or "--- FAIL" in out or "\nFAIL" in out or "panic:" in out
            conf["demo_confirms"] = failed(rc1, out1) and not failed(rc2, out2)
        finally:
            subprocess.run(["git", "-C", "/repo", "worktree", "remove", "--force", wt], capture_output=True)
    # our checks against /repo itself with the patch applied
    props = (a.props or meta.get("property", "")).split(",")
    checks = {}
    cwt = "/tmp/wt-seedrun-" + a.name
    base_env = dict(os.environ)
    if a.via_worktree:
        subprocess.run(["git", "-C", "/repo", "worktree", "remove", "--force", cwt], capture_output=True)
        subprocess.check_call(["git", "-C", "/repo", "worktree", "add", "-q", "--detach", cwt, "HEAD"])
        subprocess.check_call(["git", "apply", patch], cwd=cwt)
        base_env["VERIF_REPO"] = cwt
        conf["checks_run_via"] = "VERIF_REPO=<scratch worktree of /repo HEAD with the patch applied>"
    else:
        st = subprocess.check_output(["git", "-C", "/repo", "status", "--porcelain"], text=True).strip()
        if st:
            raise SystemExit("/repo is not clean: " + st)
        subprocess.check_call(["git", "-C", "/repo", "apply", patch])
        conf["checks_run_via"] = "git -C /repo apply; ./check; git -C /repo checkout -- ."
    try:
        for pid in props:
            res = []
            for seed in a.seeds.split(","):
                env = dict(base_env, VERIF_SEED=seed)
                rc, out, secs = run(["./check", pid, "--tier", "quick", "--no-evidence"], ROOT, env=env, timeout=3600)
                line = [l for l in out.splitlines() if "violated" in l or "VERIF-DEADLOCK" in l or "DATA RACE" in l][:1]
                res.append({"tier": "quick", "seed": int(seed), "rc": rc, "s": round(secs), "first": (line[0][:400] if line else "")})
                print(pid, "quick seed", seed, "rc", rc, "%.0fs" % secs, (line[0][:200] if line else ""))
            if a.thorough and not any(r["rc"] == 1 for r in res):
                rc, out, secs = run(["./check", pid, "--tier", "thorough", "--no-evidence"], ROOT, env=dict(base_env, VERIF_SEED="1"), timeout=7200)
                line = [l for l in out.splitlines() if "violated" in l or "VERIF-DEADLOCK" in l or "DATA RACE" in l][:1]
                res.append({"tier": "thorough", "seed": 1, "rc": rc, "s": round(secs), "first": (line[0][:400] if line else "")})
                print(pid, "thorough rc", rc, "%.0fs" % secs)
            checks[pid] = res
    finally:
        if a.via_worktree:
            subprocess.run(["git", "-C", "/repo", "worktree", "remove", "--force", cwt], capture_output=True)
        else:
            subprocess.check_call(["git", "-C", "/repo", "checkout", "--", "."])
            subprocess.run(["git", "-C", "/repo", "clean", "-fdq"], capture_output=True)
    conf["checks"] = checks
    caught = {pid: ("quick %d/%d seeds" % (sum(1 for r in rs if r["tier"] == "quick" and r["rc"] == 1), sum(1 for r in rs if r["tier"] == "quick"))) +
              ("; thorough caught" if any(r["tier"] == "thorough" and r["rc"] == 1 for r in rs) else "") for pid, rs in checks.items()}
    conf["caught"] = caught
    prev = meta.get("confirmed") or {}
    if a.skip_confirm:
        # keep the demonstration's confirmation of the earlier full run
        for k in ("applies", "builds", "existing_tests", "demo_cmd", "demo_with_patch", "demo_without_patch", "demo_confirms"):
            if k in prev and k not in conf:
                conf[k] = prev[k]
        if "demo_confirms" in prev:
            conf["demo_confirmed_at"] = prev.get("demo_confirmed_at", prev.get("repo_head"))
    if "first_result" not in meta and prev.get("caught"):
        meta["first_result"] = prev["caught"]
    meta["confirmed"] = conf
    json.dump(meta, open(os.path.join(dst, "meta.json"), "w"), indent=1)
    print("demo_confirms=%s existing=%s caught=%s" % (conf.get("demo_confirms"), {k.split(" -count")[0][-12:]: v["rc"] for k, v in conf.get("existing_tests", {}).items()}, caught))


if __name__ == "__main__":
    main()
