CFG = dict(
     claimed=True,
     race=True,
     rule="Case = one drawn cast of 8..32 workers (drawn up front: kind, repetitions 1..6, seed, yields, microsecond sleeps and the kind's "
          "parameters): enc/v1 Encrypt->Decrypt pipelines (message length classes 0, 1, small, 64 KiB x {1,2,3} -1/0/+1, up to 200000; own "
          "message, cipher, key name 1..330 characters and wrapped-key padding 0..1500 bytes so that every header has a different size; xor or "
          "real A256KW wrap callbacks; kit Encrypt -> kit Decrypt, or a document of the independent reference encoder under the worker's own "
          "32-byte file key -> kit Decrypt; tampered MAC / failing or wrong unwrap / damaged last segment, whose FAILURES are results too; "
          "chunked sources and consumers; an unwrap callback that yields and sleeps between header parsing and MAC verification), "
          "byteslicepool Get/fill/verify/Resize/Put cycles on the cast's shared pool, crypto.Encrypt/Decrypt over the 19 symmetric "
          "algorithms, SignPrivateKey/VerifyPublicKey over the 10 signature algorithms (Ed25519 keys of the worker's own), RSA "
          "EncryptPublicKey/DecryptPrivateKey, cron.ParseStandard (package-level parser) or an own cron.Parser + chained Next + "
          "cron.PrintfLogger, logger.NewLogger by distinct names with own output buffers plus same-name and cast-wide shared-name look-ups. "
          "Every worker first runs ALONE; then all run at once behind a start barrier (1..3 rounds, GOMAXPROCS 16; thorough also 2, 4, 8) "
          "in a binary built with -race. Non-trivial: at least two pool-sharing pipelines (two enc pipelines on BufPool, or two "
          "byteslicepool workers) were inside a repetition at the same time, measured with an active-counter. Distinct by the full cast "
          "encoding. Section TestPinnedHeaderBufferReuse: rounds of a fixed cast of 24 enc workers (counted as one distinct case).",
     assumptions=["Go runtime, sync/atomic, the race detector (a data race report anywhere in the process is a violation) and rapid v1.3.0 are correct",
                  "which interleavings occur is decided by the Go scheduler and the hardware: schedule coverage is statistical, a failing cast may not fail again "
                  "(replay re-runs the saved cast up to 40 times; the cast printed before the concurrent phase is the artefact)",
                  "independent objects: each worker owns its message, keys, jwk.Key objects, callbacks, parser, output buffers and its named logger; "
                  "logger-wide settings that are shared by design (ApplyOptionsToLoggers) are not exercised; the cast-wide shared logger name is only looked up",
                  "byteslicepool: the doc comment of Get does not promise an empty slice, so len(Get()) is only compared with the worker's own solo run; "
                  "no zeroing claim; a slice is the worker's own between Get and Put",
                  "results that are random by specification (file key, PSS/ECDSA signatures, RSA ciphertexts) are compared through their verification / decryption, not byte for byte"],
     technique="property-based stress-differential testing (rapid-drawn casts, real goroutines, race detector): each worker's concurrent results "
               "are compared with its own solo run; an independent reference decoder (refenc) and the standard library verify what kit produced concurrently",
     level_text="Generated-input search over casts of concurrent pipelines on the real code, under the race detector. Oracle: per-repetition "
                "result (plaintext digest, error text, ciphertext length, reference-decoder verdict, signature verification, Next instants, log lines, "
                "Get length and slice content) equal to the same worker's solo result; no panic in any worker; no data race report. "
                "Schedules are sampled (yields and sleeps at the points where pooled buffers are outstanding, 16 processors), not enumerated: no absence claim.",
     level_note="Trusts the Go runtime, the race detector, rapid and the harness' reference encoder/decoder (refenc, self-checked against the repository's fixtures).",
     timeout_quick=900, timeout_thorough=3000)
