package c10

import (
	"context"
	"fmt"
	"sort"
	"strings"
	"sync"
	"sync/atomic"
	"testing"
	"testing/synctest"
	"time"

	"github.com/dapr/kit/events/batcher"
	"pgregory.net/rapid"

	"verifharness/vk"
)

type op struct {
	Kind  string // batch burst sub read drain cancel adv close
	Key   int    // batch: key 0..2
	N     int    // burst rounds / read count
	Style string // sub: prompt | manual
	Cap   int    // sub: channel capacity
	I     int    // subscriber index
	Adv   string // "half" | "interval" | "next" | "2x" | "1ms"
	More  int    // sub: this many further channels in the SAME Subscribe call (one shared context)
	Ctx   string // sub: "" plain cancel context | "relay" a context type of the harness that relays the cancellation late | "busy-parent" the context has 300 other children
}

type batCase struct {
	IntervalMS int
	Ops        []op
}

func opStr(o op) string {
	switch o.Kind {
	case "batch", "racebatch":
		return fmt.Sprintf("%s(k%d)", o.Kind, o.Key)
	case "burst":
		return fmt.Sprintf("burst(k%d x%d)", o.Key, o.N)
	case "sub":
		cx := ""
		if o.Ctx != "" {
			cx = ",ctx=" + o.Ctx
		}
		if o.More > 0 {
			return fmt.Sprintf("sub(%s,cap=%d,channels=%d%s)", o.Style, o.Cap, 1+o.More, cx)
		}
		return fmt.Sprintf("sub(%s,cap=%d%s)", o.Style, o.Cap, cx)
	case "read":
		return fmt.Sprintf("read(s%d x%d)", o.I, o.N)
	case "drain", "cancel":
		return fmt.Sprintf("%s(s%d)", o.Kind, o.I)
	case "adv":
		return "adv(" + o.Adv + ")"
	}
	return o.Kind
}

func (c batCase) String() string {
	var p []string
	for _, o := range c.Ops {
		p = append(p, opStr(o))
	}
	return fmt.Sprintf("batcher{interval=%dms ops=[%s]}", c.IntervalMS, strings.Join(p, " "))
}

type rcv struct {
	val int
	at  time.Time
}

type subscriber struct {
	ctx        context.Context
	cancel     context.CancelFunc
	ch         chan int
	style      string
	mu         sync.Mutex
	received   []rcv
	closed     bool // the batcher closed the subscriber's channel
	cancelled  bool
	subAt      time.Time
	firstIdx   int  // index into the model's delivery log from which this subscriber must see everything
	dead       bool // subscribed after Close returned: silently dropped
	maybeDead  bool // Subscribe issued while Close was in progress: either outcome
	stop       chan struct{}
	subscribed bool          // Subscribe returned
	group      []*subscriber // the subscribers of the same Subscribe call (including this one)
}

func (s *subscriber) got() []rcv {
	s.mu.Lock()
	defer s.mu.Unlock()
	return append([]rcv(nil), s.received...)
}

type delivery struct {
	val int
	due time.Time
}

type outcome struct {
	raced           bool
	suppressed      bool
	nsubs           int
	saturated       bool // a subscriber had more than the internal buffer outstanding
	departSaturated bool // ... and left in that state
	mutexParked     bool
	deliveries      int
	multiSub        bool // a Subscribe call with several channels
}

type harness struct {
	errs          *vk.Errs
	b             *batcher.Batcher[int, int]
	interval      time.Duration
	subs          []*subscriber
	pending       map[int]delivery // key -> pending (last value, due)
	log           []delivery       // deliveries the model says have happened, in order
	nextVal       int
	loose         bool // backpressure from a saturated subscriber may be delaying deliveries
	everLoose     bool
	closeIssued   bool
	closeReturned atomic.Bool // set by the Close goroutines, read by the controller
	out           outcome
	wg            sync.WaitGroup
	caseStr       string
	raceOld       *delivery
	closeCalls    int
	subsMu        sync.Mutex
	batchedAt     map[int]time.Time
}

// outstanding returns how many model deliveries subscriber s has not yet received.
func (h *harness) outstanding(s *subscriber) int {
	return len(h.log) - s.firstIdx - len(s.got())
}

// risky: an execute may be blocked on a full subscriber buffer (50 slots) and so hold the batcher's mutex.
func (h *harness) risky() bool {
	for _, s := range h.subs {
		if s.style == "manual" && !s.dead && h.outstanding(s)+len(h.pending) >= 50 {
			return true
		}
	}
	return false
}

func (h *harness) settle() bool {
	if !h.risky() && !(h.closeIssued && !h.closeReturned.Load()) {
		synctest.Wait()
		return true
	}
	p, err := vk.SettleStacks()
	if err != nil {
		h.errs.Failf("%v\n%s", err, p.Dump)
		return false
	}
	if p.OnMutex > 0 {
		h.out.mutexParked = true
	}
	return true
}

// advanceModel moves every pending value whose due time has been reached into the delivery log (due order; ties by key).
func (h *harness) advanceModel() {
	now := time.Now()
	var due []delivery
	var keys []int
	for k, d := range h.pending {
		if !d.due.After(now) {
			keys = append(keys, k)
		}
	}
	sort.Slice(keys, func(i, j int) bool {
		a, b := h.pending[keys[i]], h.pending[keys[j]]
		if !a.due.Equal(b.due) {
			return a.due.Before(b.due)
		}
		return keys[i] < keys[j]
	})
	for _, k := range keys {
		due = append(due, h.pending[k])
		delete(h.pending, k)
	}
	if !h.closeIssued {
		h.log = append(h.log, due...)
		h.out.deliveries += len(due)
	}
}

func (h *harness) take(s *subscriber) bool {
	s.mu.Lock()
	defer s.mu.Unlock()
	select {
	case v, ok := <-s.ch:
		if !ok {
			s.closed = true
			return false
		}
		s.received = append(s.received, rcv{v, time.Now()})
		return true
	default:
		return false
	}
}

func (h *harness) issue(o op) {
	switch o.Kind {
	case "batch":
		h.nextVal++
		h.batchedAt[h.nextVal] = time.Now()
		if _, ok := h.pending[o.Key]; ok {
			h.out.suppressed = true
		}
		if !h.closeIssued {
			h.pending[o.Key] = delivery{val: h.nextVal, due: time.Now().Add(h.interval)}
		}
		h.b.Batch(o.Key, h.nextVal)
	case "racebatch":
		// Re-batch a key at the very instant its pending value becomes due, without settling in between: the
		// processor's wake-up for the old value and the replacing Batch race. The old value is then either
		// delivered (at its due instant) or suppressed - both are fine - and the new one is due one interval later.
		p, ok := h.pending[o.Key]
		witness := false // a prompt subscriber that will show whether the old value was delivered
		for _, s := range h.subs {
			s.mu.Lock()
			if s.style == "prompt" && !s.cancelled && !s.dead && !s.maybeDead && s.subscribed {
				witness = true
			}
			s.mu.Unlock()
		}
		if !ok || !witness || h.closeIssued || h.risky() || h.everLoose || !p.due.After(time.Now()) {
			h.issue(op{Kind: "batch", Key: o.Key})
			return
		}
		time.Sleep(p.due.Sub(time.Now()))
		delete(h.pending, o.Key)
		h.advanceModel() // everything else that is due now
		h.raceOld = &p
		h.out.raced = true
		h.issue(op{Kind: "batch", Key: o.Key})
	case "sub":
		ctx, cancel := context.WithCancel(context.Background())
		_ = cancel // kept in the subscribers
		switch o.Ctx {
		case "relay":
			// a context type of the caller's own, which learns of the cancellation a few scheduler yields later
			ctx = vk.NewRelayCtx(ctx, 20)
		case "busy-parent":
			// the subscriber's context has many other children: whatever the batcher attaches to it is one of many
			vk.BusyParent(ctx, 300)
		}
		var group []*subscriber
		var chans []chan<- int
		for k := 0; k <= o.More; k++ {
			s := &subscriber{ctx: ctx, cancel: cancel, ch: make(chan int, o.Cap), style: o.Style, subAt: time.Now(), firstIdx: len(h.log), dead: h.closeReturned.Load(), maybeDead: h.closeIssued, stop: make(chan struct{})}
			group = append(group, s)
			chans = append(chans, s.ch)
		}
		if o.More > 0 {
			h.out.multiSub = true
		}
		for _, s := range group {
			s.group = group
			h.subsMu.Lock()
			h.subs = append(h.subs, s)
			h.subsMu.Unlock()
			h.out.nsubs++
			if o.Style == "prompt" {
				h.wg.Add(1)
				h.errs.Go(func() {
					defer h.wg.Done()
					for {
						select {
						case v, ok := <-s.ch:
							if !ok {
								s.mu.Lock()
								s.closed = true
								s.mu.Unlock()
								return
							}
							s.mu.Lock()
							s.received = append(s.received, rcv{v, time.Now()})
							s.mu.Unlock()
						case <-s.stop:
							return
						}
					}
				})
			}
		}
		h.wg.Add(1)
		h.errs.Go(func() {
			defer h.wg.Done()
			h.b.Subscribe(ctx, chans...)
			for _, s := range group {
				s.mu.Lock()
				s.subscribed = true
				s.mu.Unlock()
			}
		})
	case "read", "drain":
		if len(h.subs) == 0 {
			return
		}
		s := h.subs[o.I%len(h.subs)]
		if s.style != "manual" {
			return
		}
		n := o.N
		if o.Kind == "drain" {
			n = 1 << 30
		}
		for k := 0; k < n; k++ {
			if h.take(s) {
				continue
			}
			if o.Kind == "read" || s.closed {
				return
			}
			if !h.settle() {
				return
			}
			if !h.take(s) {
				return
			}
		}
	case "cancel":
		if len(h.subs) == 0 {
			return
		}
		s := h.subs[o.I%len(h.subs)]
		if !s.cancelled && s.style == "manual" && !s.dead && h.outstanding(s) > 52 {
			h.out.departSaturated = true
		}
		for _, g := range s.group {
			g.cancelled = true // the channels of one Subscribe call share its context
		}
		s.cancel()
	case "adv":
		d := h.interval
		switch o.Adv {
		case "half":
			d = h.interval / 2
		case "2x":
			d = 2 * h.interval
		case "1ms":
			d = time.Millisecond
		case "next":
			var best time.Time
			for _, p := range h.pending {
				if best.IsZero() || p.due.Before(best) {
					best = p.due
				}
			}
			if !best.IsZero() {
				d = best.Sub(time.Now())
			}
		}
		if d > 0 {
			h.sleep(d)
		}
	case "close2":
		h.issue(op{Kind: "close"})
		h.issue(op{Kind: "close"})
	case "close":
		if h.closeCalls >= 3 {
			return
		}
		h.closeCalls++
		h.closeIssued = true
		for _, s := range h.subs {
			s.mu.Lock()
			if !s.subscribed {
				s.maybeDead = true // its Subscribe call is still waiting (backpressure): it may land after Close
			}
			s.mu.Unlock()
		}
		h.wg.Add(1)
		h.errs.Go(func() {
			defer h.wg.Done()
			h.b.Close()
			// At the instant Close returns every subscriber channel must already be closed.
			h.subsMu.Lock()
			subs := append([]*subscriber(nil), h.subs...)
			h.subsMu.Unlock()
			for i, s := range subs {
				s.mu.Lock()
				skip := s.dead || s.maybeDead || !s.subscribed
				s.mu.Unlock()
				if skip {
					continue
				}
				for {
					open := false
					s.mu.Lock()
					select {
					case v, ok := <-s.ch:
						if ok {
							s.received = append(s.received, rcv{v, time.Now()})
							s.mu.Unlock()
							continue
						}
						s.closed = true
					default:
						open = !s.closed
					}
					s.mu.Unlock()
					if open {
						h.errs.Failf("at the instant Close returned the channel of subscriber s%d (%s) was still open (and empty): Close did not wait for it to be closed", i, s.style)
					}
					break
				}
			}
			h.closeReturned.Store(true)
		})
	}
}

// sleep advances the virtual clock. Virtual time cannot advance while a goroutine is parked on a mutex, so
// when a delivery may be blocked (holding the batcher's mutex) the state is inspected first: parked goroutines
// with a present stalled subscriber are backpressure (the advance is skipped); parked goroutines with no present
// stalled subscriber can never be released - the wedge the property forbids.
func (h *harness) sleep(d time.Duration) {
	if h.risky() {
		p, err := vk.SettleStacks()
		if err != nil {
			h.errs.Failf("%v", err)
			return
		}
		if p.OnMutex > 0 {
			h.out.mutexParked = true
			if !h.saturatedPresent() {
				vk.Wedged(fmt.Sprintf("C10 batcher violated: %d goroutine(s) are parked on the batcher's mutex and a delivery is blocked although every stalled subscriber has left: nothing can be delivered any more and Close cannot return\ncase: %s", p.OnMutex, h.caseStr))
			}
			return
		}
	}
	time.Sleep(d)
}

// saturatedPresent: some subscriber that is still subscribed may be exerting backpressure.
func (h *harness) saturatedPresent() bool {
	for _, s := range h.subs {
		if s.style == "manual" && !s.cancelled && !s.dead && h.outstanding(s) >= 50 {
			return true
		}
	}
	return false
}

func (h *harness) check(step string) bool {
	if h.raceOld != nil {
		// was the value that became due at the instant of the racing Batch delivered or suppressed?
		delivered := false
		for _, s := range h.subs {
			if s.style != "prompt" {
				continue
			}
			for _, g := range s.got() {
				if g.val == h.raceOld.val {
					delivered = true
				}
			}
		}
		if delivered {
			h.log = append(h.log, *h.raceOld)
			h.out.deliveries++
		}
		h.raceOld = nil
	}
	h.advanceModel()
	if h.saturatedPresent() {
		h.loose, h.everLoose = true, true
		h.out.saturated = true
	} else {
		h.loose = false
	}
	if h.everLoose {
		return h.weakCheck(step)
	}
	for i, s := range h.subs {
		got := s.got()
		if s.dead {
			if len(got) > 0 {
				h.errs.Failf("after %s: subscriber s%d subscribed after Close but received %v", step, i, got)
				return false
			}
			continue
		}
		want := h.log[s.firstIdx:]
		if len(got) > len(want) {
			h.errs.Failf("after %s: subscriber s%d received %d values, the model has only %d deliveries since it subscribed: got %v", step, i, len(got), len(want), vals(got))
			return false
		}
		// same sequence as the model (ties on the due instant may come in any order, but see the cross-subscriber check)
		for j := 0; j < len(got); {
			k := j
			for k < len(want) && want[k].due.Equal(want[j].due) {
				k++
			}
			// got[j:min(k,len(got))] must be drawn from the values of want[j:k]
			allowed := map[int]int{}
			for _, w := range want[j:k] {
				allowed[w.val]++
			}
			end := k
			if end > len(got) {
				end = len(got)
			}
			for _, g := range got[j:end] {
				if allowed[g.val] == 0 {
					h.errs.Failf("after %s: subscriber s%d received %d at position %d; the model expects one of %v there (sequence so far %v; a suppressed, duplicated or out-of-order value)", step, i, g.val, j, want[j:k], vals(got))
					return false
				}
				allowed[g.val]--
				// timing: never more than 0.5ms early; exactly on time when nothing ever exerted backpressure
				due := want[j].due
				if g.at.Before(due.Add(-500 * time.Microsecond)) {
					h.errs.Failf("after %s: subscriber s%d received %d %v before one interval after its Batch call had elapsed", step, i, g.val, due.Sub(g.at))
					return false
				}
				if !h.everLoose && s.style == "prompt" && g.at.After(due) {
					h.errs.Failf("after %s: subscriber s%d received %d %v late although no subscriber was stalled", step, i, g.val, g.at.Sub(due))
					return false
				}
			}
			j = k
		}
		// a staying prompt subscriber has everything that is due, unless a stalled subscriber is holding deliveries back
		if s.style == "prompt" && !s.cancelled && !h.loose && !h.closeIssued && len(got) != len(want) {
			h.errs.Failf("after %s: prompt subscriber s%d has %d of the %d values that are due since it subscribed (missing %v) and no present subscriber is stalled", step, i, len(got), len(want), want[len(got):])
			return false
		}
	}
	// all subscribers see the same sequence: compare overlapping parts pairwise through log positions
	for a := 0; a < len(h.subs); a++ {
		for b := a + 1; b < len(h.subs); b++ {
			sa, sb := h.subs[a], h.subs[b]
			if sa.dead || sb.dead {
				continue
			}
			ga, gb := sa.got(), sb.got()
			// position p of the log corresponds to ga[p-sa.firstIdx] and gb[p-sb.firstIdx]
			for p := max(sa.firstIdx, sb.firstIdx); p-sa.firstIdx < len(ga) && p-sb.firstIdx < len(gb); p++ {
				if ga[p-sa.firstIdx].val != gb[p-sb.firstIdx].val {
					h.errs.Failf("after %s: subscribers s%d and s%d saw different sequences: %v vs %v", step, a, b, vals(ga), vals(gb))
					return false
				}
			}
		}
	}
	return true
}

// weakCheck is used once a present subscriber has exerted backpressure: deliveries are then delayed and
// re-batched keys collapse in the queue, which the exact model does not follow. What still must hold: every
// subscriber's sequence is strictly increasing in Batch-call order (values are numbered in call order and the
// interval is constant, so due order = call order): no duplicate, nothing out of order, nothing invented,
// nothing early; and two subscribers agree on every value inside the range both have covered.
func (h *harness) weakCheck(step string) bool {
	type span struct{ lo, hi time.Time }
	spans := make([]span, len(h.subs))
	sets := make([]map[int]bool, len(h.subs))
	for i, s := range h.subs {
		got := s.got()
		if s.dead && len(got) > 0 {
			h.errs.Failf("after %s: subscriber s%d subscribed after Close but received %v", step, i, vals(got))
			return false
		}
		sets[i] = map[int]bool{}
		var last time.Time
		for _, g := range got {
			t, ok := h.batchedAt[g.val]
			if !ok {
				h.errs.Failf("after %s: subscriber s%d received %d which was never batched", step, i, g.val)
				return false
			}
			if sets[i][g.val] {
				h.errs.Failf("after %s: subscriber s%d received %d twice: %v", step, i, g.val, vals(got))
				return false
			}
			if t.Before(last) {
				h.errs.Failf("after %s: subscriber s%d received %d out of order (its Batch call came before that of the previous value): %v", step, i, g.val, vals(got))
				return false
			}
			if g.at.Before(t.Add(h.interval - 500*time.Microsecond)) {
				h.errs.Failf("after %s: subscriber s%d received %d only %v after its Batch call (interval %v)", step, i, g.val, g.at.Sub(t), h.interval)
				return false
			}
			last = t
			sets[i][g.val] = true
		}
		if len(got) > 0 {
			spans[i] = span{h.batchedAt[got[0].val], h.batchedAt[got[len(got)-1].val]}
		}
	}
	// two subscribers agree on every value batched strictly inside the period both have covered
	for a := range h.subs {
		for b := a + 1; b < len(h.subs); b++ {
			if len(sets[a]) == 0 || len(sets[b]) == 0 {
				continue
			}
			lo, hi := spans[a].lo, spans[a].hi
			if spans[b].lo.After(lo) {
				lo = spans[b].lo
			}
			if spans[b].hi.Before(hi) {
				hi = spans[b].hi
			}
			for v, t := range h.batchedAt {
				if t.After(lo) && t.Before(hi) && sets[a][v] != sets[b][v] {
					h.errs.Failf("after %s: subscribers s%d and s%d disagree on value %d inside the period both have covered (%v vs %v)", step, a, b, v, vals(h.subs[a].got()), vals(h.subs[b].got()))
					return false
				}
			}
		}
	}
	return true
}

func tail(v []int) []int {
	if len(v) > 6 {
		return v[len(v)-6:]
	}
	return v
}

func vals(r []rcv) []int {
	out := make([]int, len(r))
	for i, x := range r {
		out[i] = x.val
	}
	return out
}

func runBat(t *testing.T, c batCase) (out outcome, err error) {
	var errs vk.Errs
	berr := vk.Bubble(t, c.String(), func() {
		h := &harness{errs: &errs, interval: time.Duration(c.IntervalMS) * time.Millisecond, pending: map[int]delivery{}, caseStr: c.String(), batchedAt: map[int]time.Time{}}
		h.b = batcher.New[int, int](h.interval)
		cleanup := func() {
			for _, s := range h.subs {
				s.cancel()
			}
			if !h.closeIssued {
				h.issue(op{Kind: "close"})
			}
			vk.SettleStacks()
			for _, s := range h.subs {
				close(s.stop)
			}
			h.wg.Wait()
		}
		defer cleanup()
		for n, o := range c.Ops {
			step := fmt.Sprintf("op %d %s", n, opStr(o))
			if o.Kind == "burst" {
				for r := 0; r < o.N; r++ {
					h.issue(op{Kind: "batch", Key: o.Key})
					if !h.settle() {
						return
					}
					h.issue(op{Kind: "adv", Adv: "interval"})
					if !h.settle() {
						return
					}
					if !h.check(step) {
						return
					}
				}
				continue
			}
			h.issue(o)
			if !h.settle() {
				return
			}
			if !h.check(step) {
				return
			}
		}
		// departures: every stalled subscriber leaves now, with whatever is buffered for it
		for i, s := range h.subs {
			if s.style == "manual" && !s.cancelled {
				h.issue(op{Kind: "cancel", I: i})
			}
		}
		if !h.settle() || !h.check("all stalled subscribers cancelled") {
			return
		}
		// a later Batch still works and is delivered one interval later
		if !h.closeIssued {
			h.issue(op{Kind: "batch", Key: 0})
			if !h.settle() {
				return
			}
			h.issue(op{Kind: "adv", Adv: "interval"})
			if !h.settle() || !h.check("Batch after the departures") {
				return
			}
			for i, s := range h.subs {
				if s.style != "prompt" || s.cancelled || s.dead || s.maybeDead {
					continue
				}
				got := s.got()
				found := false
				for _, g := range got {
					found = found || g.val == h.nextVal
				}
				if !found {
					errs.Failf("after every stalled subscriber left, Batch(k0,%d) was not delivered to prompt subscriber s%d one interval later (its last values: %v)", h.nextVal, i, tail(vals(got)))
					return
				}
			}
			h.issue(op{Kind: "batch", Key: 1}) // still pending at Close: dropped
			h.issue(op{Kind: "close2"})
		}
		if !h.settle() {
			return
		}
		if !h.closeReturned.Load() {
			p, _ := vk.SettleStacks()
			vk.Wedged(fmt.Sprintf("C10 batcher violated: Close did not return after every stalled subscriber had left (goroutines parked on a mutex: %d)\ncase: %s", p.OnMutex, h.caseStr))
		}
		// after Close returned every subscriber channel is closed and nothing more is sent
		counts := make([]int, len(h.subs))
		for i, s := range h.subs {
			if s.style == "manual" {
				for h.take(s) {
				}
				// one more receive must report the closed channel
				select {
				case _, ok := <-s.ch:
					if ok {
						errs.Failf("subscriber s%d: value received after draining", i)
						return
					}
					s.closed = true
				default:
				}
			}
			s.mu.Lock()
			isClosed := s.closed
			s.mu.Unlock()
			if !s.dead && !s.maybeDead && !isClosed {
				errs.Failf("after Close returned the channel of subscriber s%d (%s) is not closed", i, s.style)
				return
			}
			counts[i] = len(s.got())
		}
		h.b.Batch(2, 999999)
		h.sleep(10 * h.interval)
		synctest.Wait()
		for i, s := range h.subs {
			if len(s.got()) != counts[i] {
				errs.Failf("subscriber s%d received a value after Close returned", i)
				return
			}
		}
		out = h.out
	})
	if e := errs.Err(); e != nil {
		return out, e
	}
	return out, berr
}

func genCase(rt *rapid.T) batCase {
	c := batCase{IntervalMS: rapid.SampledFrom([]int{2, 10, 1000}).Draw(rt, "intervalMS")}
	n := rapid.IntRange(1, 24).Draw(rt, "nops")
	for i := 0; i < n; i++ {
		switch k := rapid.IntRange(0, 19).Draw(rt, "kind"); {
		case k <= 4:
			c.Ops = append(c.Ops, op{Kind: "batch", Key: rapid.IntRange(0, 2).Draw(rt, "key")})
		case k == 5:
			c.Ops = append(c.Ops, op{Kind: "racebatch", Key: rapid.IntRange(0, 2).Draw(rt, "key")})
		case k <= 9:
			c.Ops = append(c.Ops, op{Kind: "adv", Adv: rapid.SampledFrom([]string{"half", "interval", "next", "2x", "1ms"}).Draw(rt, "adv")})
		case k <= 12:
			c.Ops = append(c.Ops, op{Kind: "sub", Style: rapid.SampledFrom([]string{"prompt", "prompt", "manual"}).Draw(rt, "style"), Cap: rapid.IntRange(0, 2).Draw(rt, "cap"),
				More: rapid.SampledFrom([]int{0, 0, 0, 1, 2}).Draw(rt, "more"), Ctx: rapid.SampledFrom([]string{"", "", "", "relay", "busy-parent"}).Draw(rt, "ctxKind")})
		case k == 13:
			c.Ops = append(c.Ops, op{Kind: "burst", Key: rapid.IntRange(0, 2).Draw(rt, "key"), N: rapid.SampledFrom([]int{3, 20, 56, 60}).Draw(rt, "n")})
		case k == 14:
			c.Ops = append(c.Ops, op{Kind: "read", I: rapid.IntRange(0, 4).Draw(rt, "i"), N: rapid.IntRange(1, 6).Draw(rt, "n")})
		case k == 15:
			c.Ops = append(c.Ops, op{Kind: "drain", I: rapid.IntRange(0, 4).Draw(rt, "i")})
		case k <= 17:
			c.Ops = append(c.Ops, op{Kind: "cancel", I: rapid.IntRange(0, 4).Draw(rt, "i")})
		case k == 18 && rapid.IntRange(0, 3).Draw(rt, "reallyClose") == 0:
			c.Ops = append(c.Ops, op{Kind: rapid.SampledFrom([]string{"close", "close2"}).Draw(rt, "closeKind")})
		default:
			c.Ops = append(c.Ops, op{Kind: "batch", Key: rapid.IntRange(0, 2).Draw(rt, "key")})
		}
	}
	return c
}

func TestBatcher(t *testing.T) {
	sec := vk.Sec("Batcher")
	vk.Check(t, 6000, 1500000, func(rt *rapid.T) {
		c := genCase(rt)
		out, err := runBat(t, c)
		if err != nil {
			rt.Fatalf("C10 batcher violated: %v\ncase: %s", err, c)
		}
		var cls []string
		for name, b := range map[string]bool{"suppressed-value": out.suppressed, "subscriber>buffer": out.saturated, "depart-with-full-buffer": out.departSaturated, "mutex-parked-at-settle": out.mutexParked, "rebatch-at-due-instant": out.raced, "subscribe-with-several-channels": out.multiSub} {
			if b {
				cls = append(cls, name)
			}
		}
		nt := (out.suppressed && out.nsubs >= 2 && out.deliveries > 0) || out.departSaturated
		sec.Case(nt, vk.FP(c.String()), cls...)
		sec.Sample(func() any { return c.String() })
	})
}

// TestBatcherStalledPositions: a stalled subscriber at every position among 1..3
// prompt ones, saturated with 53..60 deliveries, then cancelled (deterministic).
func TestBatcherStalledPositions(t *testing.T) {
	sec := vk.Sec("BatcherStalledPositions")
	idx := 0
	for total := 2; total <= 4; total++ {
		for pos := 0; pos < total; pos++ {
			for _, capacity := range []int{0, 2} {
				for _, n := range []int{53, 56, 60} {
					for _, thenClose := range []bool{false, true} {
						idx++
						if !vk.Mine(idx) {
							continue
						}
						c := batCase{IntervalMS: 10}
						for i := 0; i < total; i++ {
							if i == pos {
								c.Ops = append(c.Ops, op{Kind: "sub", Style: "manual", Cap: capacity, Ctx: []string{"", "relay", "busy-parent"}[idx%3]})
							} else {
								c.Ops = append(c.Ops, op{Kind: "sub", Style: "prompt", Cap: i % 3})
							}
						}
						c.Ops = append(c.Ops, op{Kind: "burst", Key: 0, N: n}, op{Kind: "batch", Key: 1}, op{Kind: "batch", Key: 1}, op{Kind: "adv", Adv: "interval"}, op{Kind: "cancel", I: pos})
						if !thenClose {
							c.Ops = append(c.Ops, op{Kind: "batch", Key: 2}, op{Kind: "adv", Adv: "2x"})
						}
						out, err := runBat(t, c)
						if err != nil {
							t.Fatalf("C10 batcher violated: %v\ncase: %s", err, c)
						}
						sec.Case(out.departSaturated, vk.FP(c.String()), "stalled-position")
						sec.Sample(func() any { return c.String() })
					}
				}
			}
		}
	}
	sec.SetExhaustive()
}
