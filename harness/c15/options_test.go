package c15

import (
	"math"
	"testing"
	"time"

	"verifharness/vk"
)

// Option values at and beyond the documented boundaries, enumerated: MaxTTL ("Maximum TTL value in seconds, if greater
// than 0": every value <= 0 is "no cap", 1 is the smallest cap, values around the number of seconds a time.Duration can
// hold and MaxInt64 are caps that never bite or bite only on the hugest TTLs) x CleanupInterval (negative, zero = the
// documented default, small, the largest Duration) x InitialSize (negative, zero = left to the library, small, 16384
// slots) x ttl (1, small, around the Duration limit, MaxInt64). For each: an entry is readable right after its Set,
// 1 ns before its expiry (TTL capped by MaxTTL only if MaxTTL is greater than 0) and after a Cleanup at that instant;
// it misses exactly at and after the expiry; a neighbour with a longer TTL is untouched; then the same once more after
// Stop. The reference map of runTTL decides; the grid is complete for the listed values.
func TestOptionBoundaries(t *testing.T) {
	sec := vk.Sec("OptionBoundaries")
	maxTTLs := []int64{math.MinInt64, -3600, -2, -1, 0, 1, 2, 3, 9223372035, 9223372036, 9223372037, math.MaxInt64}
	intervals := []time.Duration{math.MinInt64, -time.Hour, -1, 0, time.Second, math.MaxInt64}
	initials := []int32{math.MinInt32, -1, 0, 1, 1 << 14}
	ttls := []int64{1, 2, 3, 10, 9223372036, 9223372037, math.MaxInt64}
	idx := 0
	for _, maxTTL := range maxTTLs {
		for _, interval := range intervals {
			for _, initial := range initials {
				if initial == 1<<14 && !(interval == time.Second || interval == 0) {
					continue // looking up a key in a large, almost empty table is slow in the underlying map: only with two of the intervals
				}
				for _, ttl := range ttls {
					for _, adv := range []string{"before", "at", "after"} {
						if initial == 1<<14 && adv != "at" {
							continue
						}
						idx++
						if !vk.Mine(idx) {
							continue
						}
						c := ttlCase{MaxTTL: maxTTL, Interval: interval, Initial: initial}
						round := []op{{Kind: "set", Key: 1, TTL: ttl}, {Kind: "set", Key: 2, TTL: 12}, {Kind: "set", Key: 0, TTL: 1}, {Kind: "cleanup"},
							{Kind: "adv", Adv: adv, Dur: time.Second}, {Kind: "cleanup"}, {Kind: "adv", Adv: adv, Dur: time.Second}, {Kind: "cleanup"},
							{Kind: "adv", Adv: adv, Dur: time.Second}, {Kind: "cleanup"}}
						c.Ops = append(c.Ops, round...)
						c.Ops = append(c.Ops, op{Kind: "stop"})
						c.Ops = append(c.Ops, round...)
						out, err := runTTL(t, c)
						if err != nil {
							t.Fatalf("C15 ttlcache violated: %v\ncase: %s", err, c)
						}
						sec.Case(out.hits > 0 && out.misses > 0, vk.FP(c.String()), maxTTLClass(c.MaxTTL), intervalClass(c.Interval), initialClass(c.Initial), "operations-after-Stop")
						sec.Sample(func() any { return c.String() })
					}
				}
			}
		}
	}
	sec.SetExhaustive()
}
