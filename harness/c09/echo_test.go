package c09

import (
	"context"
	"fmt"
	"sync"
	"sync/atomic"
	"testing"
	"testing/synctest"
	"time"

	"github.com/dapr/kit/events/ratelimiting"
	clocktesting "k8s.io/utils/clock/testing"

	"verifharness/vk"
)

// The echo consumer: a consumer that answers every signal with new Adds straight away (a reconciler that re-queues
// itself), with a pending-events cap equal to the number of Adds per answer. Every answer reaches the cap, so the
// statement promises a signal for it "as soon as the cap is reached" - without any clock movement (the injected clock
// never moves here). The next Add is issued in the instant the previous signal has been received, which is exactly
// when the limiter's sender goroutine of that signal is on its way out: whatever bookkeeping the limiter does around
// a send must not swallow the next one. Oracle, timing-free: when every goroutine of the bubble is durably blocked,
// the consumer has received one signal per answer (rounds in total); a consumer parked on its channel with fewer
// means an Add was lost.
type echoCase struct {
	Cap    int
	Rounds int
	Procs  string
}

func (c echoCase) String() string {
	return fmt.Sprintf("coalescing.echo{cap=%d addsPerSignal=%d rounds=%d consumer=%s}", c.Cap, c.Cap, c.Rounds, c.Procs)
}

func runEcho(t *testing.T, c echoCase) (received int, err error) {
	var errs vk.Errs
	berr := vk.Bubble(t, c.String(), func() {
		init, max := 10*time.Millisecond, 40*time.Millisecond
		cp := c.Cap
		rl, nerr := ratelimiting.NewCoalescing(ratelimiting.OptionsCoalescing{InitialDelay: &init, MaxDelay: &max, MaxPendingEvents: &cp})
		if nerr != nil {
			errs.Failf("NewCoalescing: %v", nerr)
			return
		}
		fake := clocktesting.NewFakeClock(time.Date(2024, 1, 1, 0, 0, 0, 0, time.UTC))
		rl.(ratelimiting.RateLimiterWithTicker).WithTicker(fake)
		ctx, cancel := context.WithCancel(context.Background())
		defer cancel()
		ch := make(chan struct{})
		stop := make(chan struct{})
		var got atomic.Int64
		var wg sync.WaitGroup
		wg.Add(2)
		errs.Go(func() { defer wg.Done(); _ = rl.Run(ctx, ch) })
		errs.Go(func() {
			defer wg.Done()
			for i := 0; i < c.Rounds; i++ {
				select {
				case <-ch:
				case <-stop:
					return
				}
				got.Add(1)
				if i+1 < c.Rounds {
					if c.Procs == "answers-from-new-goroutine" {
						done := make(chan struct{})
						go func() {
							for k := 0; k < c.Cap; k++ {
								rl.Add()
							}
							close(done)
						}()
						<-done
					} else {
						for k := 0; k < c.Cap; k++ {
							rl.Add()
						}
					}
				}
			}
		})
		synctest.Wait()
		for k := 0; k < c.Cap; k++ {
			rl.Add()
		}
		synctest.Wait()
		received = int(got.Load())
		if received != c.Rounds {
			errs.Failf("the Add(s) answering signal %d were never signalled: every goroutine is parked, the injected clock has not moved, and the consumer (which answers each signal with %d Add(s), reaching the cap of %d) waits for signal %d of %d; all earlier Adds had been signalled and received", received, c.Cap, c.Cap, received+1, c.Rounds)
		}
		close(stop)
		cancel()
		rl.Close()
		wg.Wait()
	})
	if e := errs.Err(); e != nil {
		return received, e
	}
	return received, berr
}

func TestCoalescingEchoConsumer(t *testing.T) {
	sec := vk.Sec("CoalescingEchoConsumer")
	for rep := 0; rep < vk.Pick(2, 12); rep++ {
		for _, cp := range []int{1, 2, 3} {
			for _, procs := range []string{"answers-inline", "answers-from-new-goroutine"} {
				c := echoCase{Cap: cp, Rounds: vk.Pick(30000, 300000) / cp, Procs: procs}
				n, err := runEcho(t, c)
				if err != nil {
					t.Fatalf("C09 coalescing rate limiter violated: %v\ncase: %s", err, c)
				}
				sec.Case(true, vk.FP(c.String(), rep), "echo.cap-"+fmt.Sprint(cp), "echo."+procs)
				sec.ClassN("echo.signals-received", int64(n))
				sec.Sample(func() any { return c.String() })
			}
		}
	}
}
