package c07

import (
	"flag"
	"os"
	"path/filepath"
	"regexp"
	"strings"
	"testing"

	"verifharness/vk"
)

// TestMain is vk.Main plus two housekeeping steps: a crasher written by a native
// fuzzing campaign can be replayed through the driver (./check C07 --replay
// <dir>): the driver hands files named <Target>.fail to the test binary as
// -rapid.failfile; a file in the "go test fuzz v1" format is copied into the
// seed corpus directory of its target (relative to the scratch working
// directory of the run) where the testing package picks it up.
func TestMain(m *testing.M) {
	flag.Parse()
	if f := flag.Lookup("rapid.failfile"); f != nil && f.Value.String() != "" {
		p := f.Value.String()
		if data, err := os.ReadFile(p); err == nil && strings.HasPrefix(string(data), "go test fuzz v1") {
			name := strings.TrimSuffix(filepath.Base(p), ".fail")
			name = regexp.MustCompile(`-\d{14}-\d+$`).ReplaceAllString(name, "")
			dir := filepath.Join("testdata", "fuzz", name)
			if err := os.MkdirAll(dir, 0o755); err == nil {
				_ = os.WriteFile(filepath.Join(dir, "replayed-crasher"), data, 0o644)
			}
		}
	}
	code := m.Run()
	vk.Flush()
	cleanupScratch()
	os.Exit(code)
}
