package c14

// Part (b) of C14: ring.Ring[T] behaves exactly like container/ring. The same
// drawn operation sequence is applied to both; every element carries its id in
// Value, so "the same node" means "the node with the same id", and on the kit
// side the pointer identity of every returned/traversed node is checked against
// the registry as well.

import (
	cring "container/ring"
	"fmt"
	"strings"
	"testing"

	kring "github.com/dapr/kit/ring"
	"pgregory.net/rapid"

	"verifharness/vk"
)

type ringOp struct {
	Kind    string
	A, B, N int
}

func (o ringOp) String() string { return fmt.Sprintf("%s(a%d,b%d,n%d)", o.Kind, o.A, o.B, o.N) }

var ringKinds = []string{"New", "Zero", "Next", "Prev", "Move", "Link", "Link", "LinkNil", "Unlink", "Unlink", "Len", "Do", "NilLenDo"}

const ringMaxNodes = 48

// ringPair holds both implementations. Index = node id.
type ringPair struct {
	k        []*kring.Ring[int]
	s        []*cring.Ring
	pristine []bool // zero-value element no operation has touched yet (lazy init not yet triggered)
	grew     bool
	shrank   bool
}

func (rp *ringPair) add(k *kring.Ring[int], s *cring.Ring, pristine bool) {
	rp.k = append(rp.k, k)
	rp.s = append(rp.s, s)
	rp.pristine = append(rp.pristine, pristine)
}

// sameNode: the kit node and the std node are "the same" when both are nil or
// both carry the same id and the kit node is the registered object of that id.
func (rp *ringPair) sameNode(k *kring.Ring[int], s *cring.Ring) string {
	if k == nil || s == nil {
		if k == nil && s == nil {
			return ""
		}
		return fmt.Sprintf("kit returned nil=%v, container/ring returned nil=%v", k == nil, s == nil)
	}
	sid, ok := s.Value.(int)
	if !ok || sid < 0 || sid >= len(rp.s) || rp.s[sid] != s {
		return fmt.Sprintf("container/ring node with unexpected value %v (harness error)", s.Value)
	}
	if k.Value != sid {
		return fmt.Sprintf("kit returned node %d, container/ring returned node %d", k.Value, sid)
	}
	if rp.k[sid] != k {
		return fmt.Sprintf("kit returned an element that carries id %d but is not the element created with that id", sid)
	}
	return ""
}

// compareAround compares length, forward traversal (Do) and backward traversal
// (Prev walk) of the rings that contain the given node ids.
func (rp *ringPair) compareAround(ids ...int) string {
	for _, id := range ids {
		if id < 0 {
			continue
		}
		k, s := rp.k[id], rp.s[id]
		rp.pristine[id] = false
		kl, sl := k.Len(), s.Len()
		if kl != sl {
			return fmt.Sprintf("Len of the ring at node %d: kit %d, container/ring %d", id, kl, sl)
		}
		var kf, sf []int
		k.Do(func(v int) { kf = append(kf, v) })
		s.Do(func(v any) { sf = append(sf, v.(int)) })
		if fmt.Sprint(kf) != fmt.Sprint(sf) {
			return fmt.Sprintf("forward traversal from node %d: kit %v, container/ring %v", id, kf, sf)
		}
		var kb, sb []int
		kp, sp := k, s
		for i := 0; i < sl; i++ {
			kb, sb = append(kb, kp.Value), append(sb, sp.Value.(int))
			kp, sp = kp.Prev(), sp.Prev()
		}
		if fmt.Sprint(kb) != fmt.Sprint(sb) {
			return fmt.Sprintf("backward traversal from node %d: kit %v, container/ring %v", id, kb, sb)
		}
		if msg := rp.sameNode(kp, sp); msg != "" {
			return fmt.Sprintf("backward traversal from node %d after %d steps: %s", id, sl, msg)
		}
	}
	return ""
}

// compareLinks compares next and prev of every touched element in both
// implementations (this determines the whole structure).
func (rp *ringPair) compareLinks() string {
	for id := range rp.k {
		if rp.pristine[id] {
			continue // Next()/Prev() would trigger the lazy init; untouched zero elements are compared when used
		}
		if msg := rp.sameNode(rp.k[id].Next(), rp.s[id].Next()); msg != "" {
			return fmt.Sprintf("Next of node %d: %s", id, msg)
		}
		if msg := rp.sameNode(rp.k[id].Prev(), rp.s[id].Prev()); msg != "" {
			return fmt.Sprintf("Prev of node %d: %s", id, msg)
		}
	}
	return ""
}

func idOf(s *cring.Ring) int {
	if s == nil {
		return -1
	}
	return s.Value.(int)
}

// apply runs one operation on both implementations and returns a failure text or "".
func (rp *ringPair) apply(o ringOp) (what string, msg string) {
	pop := len(rp.k)
	kind := o.Kind
	if pop == 0 && kind != "New" && kind != "Zero" && kind != "NilLenDo" {
		kind = "New"
	}
	if kind == "New" && pop+5 > ringMaxNodes {
		kind = "Len"
	}
	a, b := 0, 0
	if pop > 0 {
		a, b = o.A%pop, o.B%pop
	}
	switch kind {
	case "New":
		n := o.N%7 - 1 // -1..5
		if pop == 0 && n < 1 {
			n = 1 + o.N%5
		}
		k, s := kring.New[int](n), cring.New(n)
		what = fmt.Sprintf("New(%d)", n)
		if n <= 0 {
			if k != nil || s != nil {
				return what, fmt.Sprintf("kit nil=%v container/ring nil=%v", k == nil, s == nil)
			}
			return what, ""
		}
		if k.Len() != n || s.Len() != n {
			return what, fmt.Sprintf("Len after New: kit %d, container/ring %d", k.Len(), s.Len())
		}
		first := len(rp.k)
		for i := 0; i < n; i++ {
			k.Value, s.Value = first+i, first+i
			rp.add(k, s, false)
			k, s = k.Next(), s.Next()
		}
		return what, rp.compareAround(first)
	case "Zero":
		if pop+1 > ringMaxNodes {
			return "Zero(skipped)", ""
		}
		id := len(rp.k)
		rp.add(&kring.Ring[int]{Value: id}, &cring.Ring{Value: id}, true)
		return fmt.Sprintf("Zero -> node %d", id), ""
	case "Next":
		rp.pristine[a] = false
		k, s := rp.k[a].Next(), rp.s[a].Next()
		return fmt.Sprintf("node%d.Next() -> %d", a, idOf(s)), rp.sameNode(k, s)
	case "Prev":
		rp.pristine[a] = false
		k, s := rp.k[a].Prev(), rp.s[a].Prev()
		return fmt.Sprintf("node%d.Prev() -> %d", a, idOf(s)), rp.sameNode(k, s)
	case "Move":
		rp.pristine[a] = false
		n := o.N%15 - 7
		k, s := rp.k[a].Move(n), rp.s[a].Move(n)
		return fmt.Sprintf("node%d.Move(%d) -> %d", a, n, idOf(s)), rp.sameNode(k, s)
	case "Link":
		rp.pristine[a], rp.pristine[b] = false, false
		before := rp.s[a].Len()
		k, s := rp.k[a].Link(rp.k[b]), rp.s[a].Link(rp.s[b])
		what = fmt.Sprintf("node%d.Link(node%d) -> %d", a, b, idOf(s))
		if msg := rp.sameNode(k, s); msg != "" {
			return what, msg
		}
		after := rp.s[a].Len()
		if after > before {
			rp.grew = true
		}
		if after < before {
			rp.shrank = true
		}
		return what, rp.compareAround(a, b, idOf(s))
	case "LinkNil":
		rp.pristine[a] = false
		k, s := rp.k[a].Link(nil), rp.s[a].Link(nil)
		what = fmt.Sprintf("node%d.Link(nil) -> %d", a, idOf(s))
		if msg := rp.sameNode(k, s); msg != "" {
			return what, msg
		}
		return what, rp.compareAround(a)
	case "Unlink":
		rp.pristine[a] = false
		n := o.N%11 - 1 // -1..9
		before := rp.s[a].Len()
		k, s := rp.k[a].Unlink(n), rp.s[a].Unlink(n)
		what = fmt.Sprintf("node%d.Unlink(%d) -> %d", a, n, idOf(s))
		if msg := rp.sameNode(k, s); msg != "" {
			return what, msg
		}
		if rp.s[a].Len() < before {
			rp.shrank = true
		}
		return what, rp.compareAround(a, idOf(s))
	case "Len":
		rp.pristine[a] = false
		kl, sl := rp.k[a].Len(), rp.s[a].Len()
		what = fmt.Sprintf("node%d.Len() -> %d", a, sl)
		if kl != sl {
			return what, fmt.Sprintf("kit %d, container/ring %d", kl, sl)
		}
		return what, ""
	case "Do":
		// Do first, before anything else (Len, Next, ...) touches the element: on a zero-value element Do itself has
		// to cope with the lazy initialisation
		first := rp.pristine[a]
		var kf, sf []int
		rp.k[a].Do(func(v int) { kf = append(kf, v) })
		rp.s[a].Do(func(v any) { sf = append(sf, v.(int)) })
		rp.pristine[a] = false
		what = fmt.Sprintf("node%d.Do", a)
		if first {
			what += "(first method on a zero-value element)"
		}
		if fmt.Sprint(kf) != fmt.Sprint(sf) {
			return what, fmt.Sprintf("Do visits: kit %v, container/ring %v", kf, sf)
		}
		return what, rp.compareAround(a)
	case "NilLenDo":
		var k *kring.Ring[int]
		var s *cring.Ring
		calls := 0
		k.Do(func(int) { calls++ })
		s.Do(func(any) { calls++ })
		if k.Len() != 0 || s.Len() != 0 || calls != 0 {
			return "nil.Len/Do", fmt.Sprintf("nil ring: kit Len %d, container/ring Len %d, Do calls %d", k.Len(), s.Len(), calls)
		}
		return "nil.Len/Do", ""
	}
	panic("unknown ring op " + kind)
}

// runRingCase returns (failure text, trace, grew&&shrank).
func runRingCase(ops []ringOp) (string, []string, bool) {
	rp := &ringPair{}
	var trace []string
	for i, o := range ops {
		what, msg := rp.apply(o)
		trace = append(trace, what)
		if msg == "" {
			msg = rp.compareLinks()
		}
		if msg != "" {
			return fmt.Sprintf("step %d %s: %s", i, what, msg), trace, false
		}
	}
	// final: every element, traversed both ways
	for id := range rp.k {
		if msg := rp.compareAround(id); msg != "" {
			return "final comparison: " + msg, trace, false
		}
	}
	return "", trace, rp.grew && rp.shrank
}

func TestRingVsContainerRing(t *testing.T) {
	sec := vk.Sec(t.Name())
	vk.Check(t, 8000, 200000, func(rt *rapid.T) {
		n := rapid.IntRange(1, 60).Draw(rt, "len")
		ops := make([]ringOp, n)
		for i := range ops {
			ops[i] = ringOp{
				Kind: rapid.SampledFrom(ringKinds).Draw(rt, "kind"),
				A:    rapid.IntRange(0, 999).Draw(rt, "a"),
				B:    rapid.IntRange(0, 999).Draw(rt, "b"),
				N:    rapid.IntRange(0, 76).Draw(rt, "n"),
			}
		}
		msg, trace, nt := runRingCase(ops)
		if msg != "" {
			rt.Fatalf("C14 ring.Ring vs container/ring violated: %s\ndrawn ops: %v\nexecuted: %s", msg, ops, strings.Join(trace, "; "))
		}
		cls := "ring.static"
		if nt {
			cls = "ring.grew-and-shrank"
		}
		sec.Case(nt, vk.FP(fmt.Sprint(ops)), cls)
		sec.Sample(func() any { return strings.Join(trace, "; ") })
	})
}
