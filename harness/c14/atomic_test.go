package c14

import (
	"fmt"
	"sort"
	"strings"
	"testing"

	"github.com/anishathalye/porcupine"
	"github.com/dapr/kit/concurrency/cmap"
)

// ---- cmap.Atomic[int,int64] + AtomicValue against map[key]*counter ---------
//
// The model state maps keys to counter objects and counter objects to values.
// The real code hands out *AtomicValue pointers; after a run every distinct
// pointer is given a small id, and the model binds an id to a model object the
// first time a GetOrCreate that had to create returns it: such a GetOrCreate is
// legal only if the key is absent in the model AND the id has never been
// created before. Counter objects outlive Delete/Clear (a goroutine may keep
// using a pointer it holds), exactly as in the real structure.

const maxObjs = 20 // at most 4x5 operations, each creating at most one counter

var atomicKinds = []string{"GetOrCreate", "Get", "Add", "Load", "Store", "Delete", "ForEach", "Clear"}

type av = cmap.AtomicValue[int64]

type atIn struct {
	Kind string
	Key  int
	Val  int64 // initial value, delta or stored value
	Obj  int   // Add/Load/Store: id of the counter operated on
	p    *av
}

type atPair struct {
	k int
	p *av
}

type atOut struct {
	Obj   int // GetOrCreate/Get: id of the returned counter, -1 for nil
	OK    bool
	V     int64  // Add/Load
	Set   string // ForEach: "key>obj,..." sorted
	p     *av
	pairs []atPair
}

type atState struct {
	Key     [maxKeys]int8 // object id + 1, 0 = absent
	Created uint32        // bit per object id
	Val     [maxObjs]int64
}

func atomicStep(state, input, output any) (bool, any) {
	s := state.(atState)
	in := input.(*atIn)
	out := output.(*atOut)
	created := func(id int) bool { return id >= 0 && id < maxObjs && s.Created&(1<<uint(id)) != 0 }
	switch in.Kind {
	case "GetOrCreate":
		if cur := s.Key[in.Key]; cur != 0 {
			return out.Obj == int(cur)-1, s
		}
		if out.Obj < 0 || out.Obj >= maxObjs || created(out.Obj) {
			return false, s // absent key: the result must be a counter nobody has seen before
		}
		s.Created |= 1 << uint(out.Obj)
		s.Val[out.Obj] = in.Val
		s.Key[in.Key] = int8(out.Obj + 1)
		return true, s
	case "Get":
		if cur := s.Key[in.Key]; cur != 0 {
			return out.OK && out.Obj == int(cur)-1, s
		}
		return !out.OK && out.Obj == -1, s
	case "Add":
		if !created(in.Obj) {
			return false, s
		}
		s.Val[in.Obj] += in.Val
		return out.V == s.Val[in.Obj], s
	case "Load":
		return created(in.Obj) && out.V == s.Val[in.Obj], s
	case "Store":
		if !created(in.Obj) {
			return false, s
		}
		s.Val[in.Obj] = in.Val
		return true, s
	case "Delete":
		s.Key[in.Key] = 0
		return true, s
	case "Clear":
		s.Key = [maxKeys]int8{}
		return true, s
	case "ForEach":
		var parts []string
		for k, cur := range s.Key {
			if cur != 0 {
				parts = append(parts, fmt.Sprintf("%d>%d", k, int(cur)-1))
			}
		}
		return out.Set == strings.Join(parts, ","), s
	}
	panic("unknown kind " + in.Kind)
}

func describeAtomic(input, output any) string {
	in, out := input.(*atIn), output.(*atOut)
	switch in.Kind {
	case "GetOrCreate":
		return fmt.Sprintf("GetOrCreate(k%d,%d) -> o%d", in.Key, in.Val, out.Obj)
	case "Get":
		if out.Obj < 0 {
			return fmt.Sprintf("Get(k%d) -> (nil,%v)", in.Key, out.OK)
		}
		return fmt.Sprintf("Get(k%d) -> (o%d,%v)", in.Key, out.Obj, out.OK)
	case "Add":
		return fmt.Sprintf("o%d.Add(%d) -> %d", in.Obj, in.Val, out.V)
	case "Load":
		return fmt.Sprintf("o%d.Load() -> %d", in.Obj, out.V)
	case "Store":
		return fmt.Sprintf("o%d.Store(%d)", in.Obj, in.Val)
	case "Delete":
		return fmt.Sprintf("Delete(k%d)", in.Key)
	case "Clear":
		return "Clear()"
	default:
		return fmt.Sprintf("ForEach() -> {%s}", out.Set)
	}
}

var atomicStructure = &structure{
	name:  "cmap.Atomic",
	kinds: atomicKinds,
	fresh: func(p program) func(g int) func(i int, sp opSpec) (any, any) {
		m := cmap.NewAtomic[int, int64]()
		return func(g int) func(i int, sp opSpec) (any, any) {
			var held []*av // counters this goroutine has obtained so far
			return func(i int, sp opSpec) (any, any) {
				in := &atIn{Kind: atomicKinds[sp.Kind], Key: sp.Key, Obj: -1}
				out := &atOut{Obj: -1}
				switch in.Kind {
				case "Add", "Load", "Store":
					if len(held) == 0 {
						in.Kind = "GetOrCreate" // nothing to operate on yet: obtain a counter instead
					}
				}
				switch in.Kind {
				case "GetOrCreate":
					in.Val = int64(sp.Val)
					out.p = m.GetOrCreate(in.Key, in.Val)
					held = append(held, out.p)
				case "Get":
					out.p, out.OK = m.Get(in.Key)
					if out.OK {
						held = append(held, out.p)
					}
				case "Add":
					in.Key, in.p, in.Val = -1, held[sp.Aux%len(held)], int64(sp.Val-3)
					out.V = in.p.Add(in.Val)
				case "Load":
					in.Key, in.p = -1, held[sp.Aux%len(held)]
					out.V = in.p.Load()
				case "Store":
					in.Key, in.p, in.Val = -1, held[sp.Aux%len(held)], int64(sp.Val)
					in.p.Store(in.Val)
				case "Delete":
					m.Delete(in.Key)
				case "Clear":
					in.Key = -1
					m.Clear()
				case "ForEach":
					in.Key = -1
					// the callback runs under the map's read lock: it only records
					m.ForEach(func(k int, v *av) { out.pairs = append(out.pairs, atPair{k, v}) })
					sort.Slice(out.pairs, func(a, b int) bool { return out.pairs[a].k < out.pairs[b].k })
					for _, kp := range out.pairs {
						held = append(held, kp.p)
					}
				}
				return in, out
			}
		}
	},
	// finish numbers the distinct pointers (in order of the response stamps, so the
	// numbering is a function of the history) and fills ids, sets and resources.
	finish: func(recs []rec) {
		byRet := make([]int, len(recs))
		for i := range byRet {
			byRet[i] = i
		}
		sort.Slice(byRet, func(a, b int) bool { return recs[byRet[a]].Ret < recs[byRet[b]].Ret })
		ids := map[*av]int{}
		id := func(p *av) int {
			if p == nil {
				return -1
			}
			n, ok := ids[p]
			if !ok {
				n = len(ids)
				ids[p] = n
			}
			return n
		}
		for _, i := range byRet {
			in, out := recs[i].In.(*atIn), recs[i].Out.(*atOut)
			switch in.Kind {
			case "GetOrCreate", "Get":
				out.Obj = id(out.p)
			case "Add", "Load", "Store":
				in.Obj = id(in.p)
			case "ForEach":
				parts := make([]string, len(out.pairs))
				for j, kp := range out.pairs {
					parts[j] = fmt.Sprintf("%d>%d", kp.k, id(kp.p))
				}
				out.Set = strings.Join(parts, ",")
			}
			switch {
			case in.Obj >= 0:
				recs[i].Res = resObj + in.Obj
			case in.Key >= 0:
				recs[i].Res = resKey + in.Key
			default:
				recs[i].Res = resAll
			}
		}
	},
	model: porcupine.Model{
		Init:              func() any { return atState{} },
		Step:              atomicStep,
		Equal:             func(a, b any) bool { return a.(atState) == b.(atState) },
		DescribeOperation: describeAtomic,
	},
	describe: describeAtomic,
}

func TestLinAtomic(t *testing.T) {
	linProperty(t, atomicStructure, linPrograms(), linProgramsThorough(), linReps())
}
