CFG = dict(
     claimed=True,
     rule="(A) readiness: every order of the first calls to Run, Ready and GetX509SVID (one or two consumers) from different "
          "goroutines, with a settle after each so that every call reaches its blocking point, initial fetch succeeding or failing, "
          "returning at once or only after all calls were issued (exhaustive enumeration); after the fetch finished every call must "
          "have returned with the outcome the fetch decided, else a settled snapshot = deadlock. (B) renewal: scripted issuer "
          "(0..6 responses: failure | certificate with validity 20 s .. 1 year and NotBefore in the past / already past half-life / "
          "in the future, then a long-lived default), 1..12 clock steps of 1 s .. 24 h in virtual time, optional identity directory "
          "with a trust-anchor source whose bundle changes per fetch; after every step: served SVID = most recently fetched one "
          "with the private key of that request, CSR keys pairwise distinct, renewal requested no later than 1 min after "
          "half-life, failed renewals retried exactly 10 s later, served SVID untouched by failures, directory = key + chain + "
          "anchors of that one fetch. Non-trivial: (A) a consumer parked before Run was called; (B) >= 1 failed and >= 2 successful "
          "renewals. Distinct by case.",
     technique="model-based property testing (rapid; scripted issuer and timelines in testing/synctest bubbles; exhaustive call-order enumeration; deadlock = stable goroutine-state predicate)",
     level_text="Exhaustive enumeration of first-call orders with a state-predicate deadlock verdict; generated renewal timelines "
                "with exact virtual time against the renewal law.",
     level_note="Trusts testing/synctest, runtime.Stack goroutine states, rapid, crypto/x509 for the test CA. Only the upper bound of "
                "the renewal time is asserted. With the identity directory, fetches happen at distinct virtual instants (version "
                "directories are named by the clock).",
     assumptions=["testing/synctest virtual time is correct", "the SPIFFE object's default real clock is virtual inside the bubble"],
     timeout_quick=600, timeout_thorough=3000)
CFG["rule"] += ' Added after independently written breaking changes: Issuer answers also include ones the client must refuse (empty chain, no / non-SPIFFE / two URI SANs, trust-anchor failure).'
CFG["rule"] += (' Run\'s context: the readiness enumeration is crossed with the state of the context Run is called with - live / already cancelled / '
                'deadline already passed at the call / cancelled while the initial fetch is in flight - and with an issuer that honours that '
                'context or ignores it; a generated companion (ReadinessContexts) adds a context of the caller\'s own type and the error value of a '
                'failing initial fetch. Oracle: at a settled point after the fetch was let through (and so once Run has returned, whatever it '
                'returned) Ready and GetX509SVID have returned - the SVID iff the issuer was asked and answered with a certificate, an error '
                'otherwise; Run itself has returned when its context is done. Error values: every scripted failure (issuer, trust-anchor source; '
                'initial fetch and renewals) returns an error value drawn from a menu - errors.New, context.Canceled / DeadlineExceeded bare, '
                'wrapped, joined, from the requester\'s own per-request context (timeout, cancel, cause), *url.Error, *net.OpError, '
                'os.ErrDeadlineExceeded, io.EOF / ErrUnexpectedEOF, own error types with Is / Unwrap() []error / Timeout methods; the retry-after-10-s, '
                'half-life and served-SVID oracles apply unchanged, and while the initial fetch succeeded and Run\'s context is live Run has not '
                'returned. Classes run-context.*, initial-failure.*, renewal-failure-error.* count what was generated and reached.')
CFG["rule"] += (' Further Run calls: the readiness enumeration also contains every order of Run, Ready and GetX509SVID with a SECOND call of Run '
                'among them (the generated companion: up to three Run calls, two consumers, all context states), the first Run held in the initial '
                'fetch at the gate or already past it. Oracle: the further Run is refused with an error at once, and nobody gets through before '
                'the initial fetch has finished - at every settled point at which no Run has been called yet, or the issuer has been asked for the '
                'initial certificate and has not answered, no Ready / GetX509SVID call has returned. Non-trivial (A) also: a further Run refused '
                'while the initial fetch was in flight with a consumer waiting or arriving. Certificate chains: a scripted certificate answer is '
                'a leaf alone or a real chain - the leaf signed by an intermediate CA, 1..2 intermediates up to the root - whose intermediates\' '
                'validity windows differ from the leaf\'s (started 1 s .. 10 years earlier or a quarter / half of the leaf\'s validity later; '
                'outlive it by 1 h .. 10 years or by 1..4 times its validity, or expire before it). The half-life law is applied to the current '
                'certificate = the leaf; the served SVID\'s Certificates and cert.pem of the identity directory must be the chain as issued (same '
                'certificates, same order). Classes further-Run-refused.*, run-calls.N, issuer-chain.* (".renewed" = the chain\'s leaf stayed '
                'current until its renewal was requested) count what was generated and reached.')
