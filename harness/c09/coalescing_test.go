package c09

import (
	"context"
	"fmt"
	"strings"
	"sync"
	"sync/atomic"
	"testing"
	"testing/synctest"
	"time"

	"github.com/dapr/kit/events/ratelimiting"
	"pgregory.net/rapid"

	"verifharness/vk"
)

type op struct {
	Kind string // add burst adv read close cancel
	N    int    // burst: number of Adds; read: number of reads
	G    int    // burst: number of goroutines issuing them
	Adv  string // half | end-1ns | end | end+1ms | 1ms | quiet
	Also string // burst: "close" or "cancel" issued at the same instant, concurrently with the Adds
}

type rlCase struct {
	InitMS   int
	MaxMul   int  // MaxDelay = Init * MaxMul + MaxExtra
	MaxExtra int  // milliseconds beyond the whole multiple (MaxDelay need not be a multiple of InitialDelay, let alone a power-of-two multiple)
	Cap      int  // 0 = unset
	Exact    bool // settled single Adds, prompt consumer, exact model
	Slow     bool // consumer reads only on command (racy mode only)
	Ops      []op
	EndWith  string // close | cancel | close+cancel
}

func opStr(o op) string {
	switch o.Kind {
	case "burst":
		if o.Also != "" {
			return fmt.Sprintf("burst(%d adds/%d goroutines || %s)", o.N, o.G, o.Also)
		}
		return fmt.Sprintf("burst(%d adds/%d goroutines)", o.N, o.G)
	case "adv":
		return "adv(" + o.Adv + ")"
	case "read":
		return fmt.Sprintf("read(%d)", o.N)
	}
	return o.Kind
}

func (c rlCase) String() string {
	var p []string
	for _, o := range c.Ops {
		p = append(p, opStr(o))
	}
	return fmt.Sprintf("coalescing{init=%dms max=%dms cap=%d exact=%v slow=%v ops=[%s] end=%s}", c.InitMS, c.InitMS*c.MaxMul+c.MaxExtra, c.Cap, c.Exact, c.Slow, strings.Join(p, " "), c.EndWith)
}

// model of the limiter for settled single Adds (deterministic).
type model struct {
	init, max time.Duration
	cap       int
	idle      bool
	end       time.Time
	dur       time.Duration
	backoff   int
	pending   int
	signals   []time.Time
}

func (m *model) expire(now time.Time) {
	if !m.idle && !m.end.After(now) {
		if m.pending > 0 {
			m.signals = append(m.signals, m.end)
		}
		m.idle, m.pending = true, 0
	}
}

func (m *model) add(now time.Time) {
	m.expire(now)
	m.pending++
	if m.idle {
		m.signals = append(m.signals, now)
		m.pending = 0
		m.idle, m.end, m.dur, m.backoff = false, now.Add(m.init), m.init, 1
		return
	}
	if m.cap > 0 && m.pending >= m.cap {
		m.signals = append(m.signals, now)
		m.pending = 0
		return
	}
	if m.dur < m.max {
		m.backoff *= 2
		m.dur = time.Duration(float64(m.init) * float64(m.backoff))
		if m.dur > m.max {
			m.dur = m.max
		}
	}
	m.end = now.Add(m.dur)
}

type outcome struct {
	signals, adds                    int
	coalesced, capHit, closeInFlight bool
	exactExpiryBurst                 bool
}

func runRL(t *testing.T, c rlCase) (out outcome, err error) {
	var errs vk.Errs
	berr := vk.Bubble(t, c.String(), func() {
		init := time.Duration(c.InitMS) * time.Millisecond
		max := init*time.Duration(c.MaxMul) + time.Duration(c.MaxExtra)*time.Millisecond
		opts := ratelimiting.OptionsCoalescing{InitialDelay: &init, MaxDelay: &max}
		if c.Cap > 0 {
			cp := c.Cap
			opts.MaxPendingEvents = &cp
		}
		rl, nerr := ratelimiting.NewCoalescing(opts)
		if nerr != nil {
			errs.Failf("NewCoalescing failed: %v", nerr)
			return
		}
		ctx, cancel := context.WithCancel(context.Background())
		defer cancel()
		ch := make(chan struct{})
		var mu sync.Mutex
		var got []time.Time
		stopReader := make(chan struct{})
		var wg sync.WaitGroup
		if !c.Slow {
			wg.Add(1)
			errs.Go(func() {
				defer wg.Done()
				for {
					select {
					case <-ch:
						mu.Lock()
						got = append(got, time.Now())
						mu.Unlock()
					case <-stopReader:
						return
					}
				}
			})
		}
		var runReturned, closeReturned atomic.Bool
		wg.Add(1)
		errs.Go(func() {
			defer wg.Done()
			if e := rl.Run(ctx, ch); e != nil {
				errs.Failf("Run returned %v", e)
			}
			runReturned.Store(true)
		})
		synctest.Wait()

		m := &model{init: init, max: max, cap: c.Cap, idle: true}
		var addTimes []time.Time
		closeIssued := false
		settle := func() bool {
			if !closeIssued {
				synctest.Wait()
				return true
			}
			p, e := vk.SettleStacks()
			if e != nil {
				errs.Failf("%v\n%s", e, p.Dump)
				return false
			}
			if p.OnMutex > 0 && !closeReturned.Load() {
				vk.Wedged(fmt.Sprintf("C09 coalescing rate limiter violated: Close has not returned and %d goroutine(s) are parked on the limiter's lock, which Close holds while it waits for them: deadlock\ncase: %s", p.OnMutex, c))
			}
			return true
		}
		closeCalls := 0
		doClose := func() {
			if closeCalls >= 3 {
				return
			}
			closeCalls++
			closeIssued = true
			wg.Add(1)
			errs.Go(func() {
				defer wg.Done()
				rl.Close()
				// every Close call - also one overlapping another - returns only when the helper goroutines have finished
				if n, st := vk.HelpersParked("events/ratelimiting."); n > 0 {
					errs.Failf("a Close call returned while %d helper goroutine(s) of the limiter are still parked, e.g.\n%s", n, st)
				}
				closeReturned.Store(true)
			})
		}
		signals := func() []time.Time {
			mu.Lock()
			defer mu.Unlock()
			return append([]time.Time(nil), got...)
		}
		for n, o := range c.Ops {
			step := fmt.Sprintf("op %d %s", n, opStr(o))
			switch o.Kind {
			case "add":
				now := time.Now()
				if !closeIssued {
					addTimes = append(addTimes, now)
					before := len(m.signals)
					wasIdle := m.idle || !m.end.After(now)
					m.add(now)
					if !wasIdle && len(m.signals) == before {
						out.coalesced = true
					}
					if !wasIdle && len(m.signals) > before && c.Cap > 0 {
						out.capHit = true
					}
				}
				rl.Add()
			case "burst":
				if o.Also == "at-expiry" && !m.idle && m.end.After(time.Now()) {
					// sleep to the very instant the window timer fires and issue the Adds without settling:
					// the expiry and the Adds' tokens race in the run loop
					time.Sleep(m.end.Sub(time.Now()))
				}
				now := time.Now()
				if !closeIssued {
					if !m.idle && m.end.Equal(now) {
						out.exactExpiryBurst = true
					}
					for i := 0; i < o.N; i++ {
						addTimes = append(addTimes, now)
						m.add(now) // racy mode: only used to guess where the window ends (for at-expiry bursts)
					}
				}
				var bw sync.WaitGroup
				per := (o.N + o.G - 1) / o.G
				left := o.N
				for g := 0; g < o.G && left > 0; g++ {
					k := per
					if k > left {
						k = left
					}
					left -= k
					bw.Add(1)
					errs.Go(func() {
						defer bw.Done()
						for i := 0; i < k; i++ {
							rl.Add()
						}
					})
				}
				switch o.Also {
				case "close":
					out.closeInFlight = true
					doClose()
				case "close2":
					out.closeInFlight = true
					doClose()
					doClose()
				case "cancel":
					cancel()
				}
				if !settle() { // (detects the wedge in which the Add calls themselves can never return)
					return
				}
				bw.Wait()
			case "adv":
				now := time.Now()
				var d time.Duration
				inWindow := !m.idle && m.end.After(now)
				switch o.Adv {
				case "1ms":
					d = time.Millisecond
				case "quiet":
					d = max + time.Millisecond
				default:
					if !inWindow {
						d = init / 2
						break
					}
					rem := m.end.Sub(now)
					switch o.Adv {
					case "half":
						d = rem / 2
					case "end-1ns":
						d = rem - time.Nanosecond
					case "end":
						d = rem
						if c.Exact {
							d = rem + time.Millisecond // an Add exactly at expiry has no defined order
						}
					case "end+1ms":
						d = rem + time.Millisecond
					}
				}
				if d > 0 {
					time.Sleep(d)
				}
				m.expire(time.Now())
			case "read":
				for i := 0; i < o.N; i++ {
					select {
					case <-ch:
						mu.Lock()
						got = append(got, time.Now())
						mu.Unlock()
					default:
					}
				}
			case "close":
				if len(addTimes) > 0 && !closeIssued {
					out.closeInFlight = true
				}
				doClose()
			case "cancel":
				cancel()
			}
			if !settle() {
				return
			}
			sig := signals()
			if len(sig) > len(addTimes) {
				errs.Failf("after %s: %d signals for %d Adds", step, len(sig), len(addTimes))
				return
			}
			// no Add lost: once MaxDelay has passed since the most recent Add, a signal at or after it must exist
			if !c.Slow && !closeIssued && ctx.Err() == nil && len(addTimes) > 0 {
				last := addTimes[len(addTimes)-1]
				if now := time.Now(); now.Sub(last) > max && (len(sig) == 0 || sig[len(sig)-1].Before(last)) {
					errs.Failf("after %s: the Add at +%v was never followed by a signal although more than MaxDelay (%v) has passed without further Adds (signals at %v)", step, last.Sub(addTimes[0]), max, rel(sig, addTimes))
					return
				}
			}
			// cap: once every token is handled, fewer than MaxPendingEvents Adds can be waiting for their signal. Adds
			// issued after the most recent signal are certainly waiting (Adds at the same instant may or may not be).
			if c.Cap > 0 && !c.Slow && !closeIssued && ctx.Err() == nil {
				waiting := 0
				for _, at := range addTimes {
					if len(sig) == 0 || at.After(sig[len(sig)-1]) {
						waiting++
					}
				}
				if waiting >= c.Cap {
					out.capHit = true // (about to fail)
					errs.Failf("after %s: %d Adds issued after the most recent signal are still waiting for theirs although MaxPendingEvents is %d: no signal was sent when the cap was reached (adds at %v, signals at %v)", step, waiting, c.Cap, rel(addTimes, addTimes), rel(sig, addTimes))
					return
				}
			}
			if c.Exact && !closeIssued && ctx.Err() == nil {
				m.expire(time.Now())
				if len(sig) != len(m.signals) {
					errs.Failf("after %s: got %d signals at %v, the model expects %d at %v (offsets from the first Add)", step, len(sig), rel(sig, addTimes), len(m.signals), rel(m.signals, addTimes))
					return
				}
				for i := range sig {
					if !sig[i].Equal(m.signals[i]) {
						errs.Failf("after %s: signal %d came at %v, the model expects it at %v (all: %v vs %v)", step, i, rel(sig[i:i+1], addTimes), rel(m.signals[i:i+1], addTimes), rel(sig, addTimes), rel(m.signals, addTimes))
						return
					}
				}
			}
		}
		// No Add lost: after a quiet period the last Add has been followed by a signal, and the limiter is idle again.
		if !closeIssued && ctx.Err() == nil && !c.Slow {
			time.Sleep(max + time.Millisecond)
			synctest.Wait()
			sig := signals()
			if len(addTimes) > 0 {
				last := addTimes[len(addTimes)-1]
				if len(sig) == 0 || sig[len(sig)-1].Before(last) {
					errs.Failf("the last Add (at +%v) was never followed by a signal although %v of quiet passed (signals at %v)", last.Sub(addTimes[0]), max+time.Millisecond, rel(sig, addTimes))
					return
				}
				if lim := last.Add(max); sig[len(sig)-1].After(lim) {
					errs.Failf("a signal came %v after the last Add, later than the maximum delay %v", sig[len(sig)-1].Sub(last), max)
					return
				}
			}
			// idle again: a single Add is signalled immediately
			before := len(sig)
			now := time.Now()
			addTimes = append(addTimes, now)
			rl.Add()
			synctest.Wait()
			sig = signals()
			if len(sig) != before+1 || !sig[before].Equal(now) {
				errs.Failf("after a quiet period an Add was not signalled immediately (signals after it: %v)", rel(sig[before:], []time.Time{now}))
				return
			}
			if len(sig) > len(addTimes) {
				errs.Failf("%d signals for %d Adds", len(sig), len(addTimes))
				return
			}
		}
		out.signals, out.adds = len(signals()), len(addTimes)
		switch c.EndWith {
		case "cancel":
			cancel()
			if !settle() {
				return
			}
			if !runReturned.Load() {
				errs.Failf("Run did not return after its context was cancelled")
				return
			}
			doClose()
		case "close+cancel":
			doClose()
			cancel()
		default:
			doClose()
		}
		if !settle() {
			return
		}
		if !closeReturned.Load() {
			p, _ := vk.SettleStacks()
			vk.Wedged(fmt.Sprintf("C09 coalescing rate limiter violated: Close did not return (goroutines parked on a lock: %d)\ncase: %s", p.OnMutex, c))
		}
		if !runReturned.Load() {
			errs.Failf("Run did not return after Close")
			return
		}
		rl.Close() // idempotent
		close(stopReader)
		wg.Wait()
		// helper goroutines still parked now are reported by the bubble ("blocked goroutines remain")
	})
	if e := errs.Err(); e != nil {
		return out, e
	}
	return out, berr
}

func rel(ts []time.Time, adds []time.Time) []time.Duration {
	var base time.Time
	if len(adds) > 0 {
		base = adds[0]
	}
	out := make([]time.Duration, len(ts))
	for i, t := range ts {
		out[i] = t.Sub(base)
	}
	return out
}

// genMaxExtra: mostly none; otherwise a part of one InitialDelay, so that MaxDelay / InitialDelay is not a whole number.
func genMaxExtra(rt *rapid.T, initMS int) int {
	return rapid.SampledFrom([]int{0, 0, 0, 1, initMS / 2, initMS - 1}).Draw(rt, "maxExtraMS")
}

func genCase(rt *rapid.T, exact bool) rlCase {
	c := rlCase{
		InitMS: rapid.SampledFrom([]int{2, 10, 100}).Draw(rt, "initMS"),
		MaxMul: rapid.SampledFrom([]int{1, 2, 3, 4, 8, 10}).Draw(rt, "maxMul"),
		Cap:    rapid.SampledFrom([]int{0, 0, 1, 2, 3, 4}).Draw(rt, "cap"),
		Exact:  exact,
	}
	c.MaxExtra = genMaxExtra(rt, c.InitMS)
	if !exact {
		c.Slow = rapid.IntRange(0, 3).Draw(rt, "slow") == 0
	}
	n := rapid.IntRange(1, 30).Draw(rt, "nops")
	for i := 0; i < n; i++ {
		k := rapid.IntRange(0, 19).Draw(rt, "kind")
		switch {
		case k <= 8 && exact:
			c.Ops = append(c.Ops, op{Kind: "add"})
		case k <= 8:
			c.Ops = append(c.Ops, op{Kind: "burst", N: rapid.IntRange(1, 6).Draw(rt, "n"), G: rapid.IntRange(1, 3).Draw(rt, "g"),
				Also: rapid.SampledFrom([]string{"", "", "", "", "", "at-expiry", "at-expiry", "close", "close2", "cancel"}).Draw(rt, "also")})
		case k <= 16:
			c.Ops = append(c.Ops, op{Kind: "adv", Adv: rapid.SampledFrom([]string{"half", "half", "end-1ns", "end", "end+1ms", "1ms", "quiet"}).Draw(rt, "adv")})
		case k == 17 && c.Slow:
			c.Ops = append(c.Ops, op{Kind: "read", N: rapid.IntRange(1, 4).Draw(rt, "n")})
		case k == 18 && !exact && rapid.IntRange(0, 2).Draw(rt, "reallyClose") == 0:
			c.Ops = append(c.Ops, op{Kind: rapid.SampledFrom([]string{"close", "cancel"}).Draw(rt, "how")})
		default:
			// a long uninterrupted stream: far more extensions of one window than the backoff needs to saturate
			if k == 19 && rapid.IntRange(0, 3).Draw(rt, "stream") == 0 {
				m := rapid.SampledFrom([]int{12, 36, 70, 140}).Draw(rt, "streamLen")
				gap := rapid.Bool().Draw(rt, "streamGap")
				for j := 0; j < m; j++ {
					if exact {
						c.Ops = append(c.Ops, op{Kind: "add"})
					} else {
						c.Ops = append(c.Ops, op{Kind: "burst", N: 1 + j%3, G: 1 + j%2})
					}
					if gap && j%4 == 3 {
						c.Ops = append(c.Ops, op{Kind: "adv", Adv: "1ms"})
					}
				}
				continue
			}
			if exact {
				c.Ops = append(c.Ops, op{Kind: "add"})
			} else {
				c.Ops = append(c.Ops, op{Kind: "burst", N: 1, G: 1})
			}
		}
	}
	c.EndWith = rapid.SampledFrom([]string{"close", "cancel", "close+cancel"}).Draw(rt, "end")
	return c
}

func record(sec *vk.Section, c rlCase, out outcome) {
	var cls []string
	for name, b := range map[string]bool{"coalesced-burst": out.coalesced, "cap-hit": out.capHit, "close-with-adds-in-flight": out.closeInFlight, "burst-exactly-at-expiry": out.exactExpiryBurst, "slow-consumer": c.Slow} {
		if b {
			cls = append(cls, name)
		}
	}
	nt := out.signals >= 2 && (out.coalesced || out.capHit || out.closeInFlight || !c.Exact)
	sec.Case(nt, vk.FP(c.String()), cls...)
	sec.Sample(func() any { return c.String() })
}

// TestCoalescingExact: single Adds and clock advances against the exact reference machine.
func TestCoalescingExact(t *testing.T) {
	sec := vk.Sec("CoalescingExact")
	vk.Check(t, 12000, 2500000, func(rt *rapid.T) {
		c := genCase(rt, true)
		out, err := runRL(t, c)
		if err != nil {
			rt.Fatalf("C09 coalescing rate limiter violated: %v\ncase: %s", err, c)
		}
		record(sec, c, out)
	})
}

// TestCoalescingRacy: bursts from several goroutines, Adds exactly at expiry, slow consumers, Close/cancel anywhere.
func TestCoalescingRacy(t *testing.T) {
	sec := vk.Sec("CoalescingRacy")
	vk.Check(t, 8000, 1200000, func(rt *rapid.T) {
		c := genCase(rt, false)
		out, err := runRL(t, c)
		if err != nil {
			rt.Fatalf("C09 coalescing rate limiter violated: %v\ncase: %s", err, c)
		}
		record(sec, c, out)
	})
}

// TestCoalescingExpiryRace: an Add issued at the very instant the window timer fires, after another Add is already
// pending in that window - the expiry and the token race in the run loop. Whatever the order, every Add must be
// followed by a signal. Deterministic menu, many repetitions (the order is the Go scheduler's choice).
func TestCoalescingExpiryRace(t *testing.T) {
	sec := vk.Sec("CoalescingExpiryRace")
	reps := vk.Pick(400, 8000) / vk.Shards()
	for r := 0; r < reps; r++ {
		for _, n := range []int{1, 2} {
			c := rlCase{InitMS: 10, MaxMul: []int{1, 4}[r%2], Cap: 0, Ops: []op{{Kind: "burst", N: 1, G: 1}, {Kind: "adv", Adv: "half"}, {Kind: "burst", N: 1, G: 1},
				{Kind: "burst", N: n, G: n, Also: "at-expiry"}, {Kind: "adv", Adv: "quiet"}, {Kind: "adv", Adv: "quiet"}}, EndWith: "close"}
			if _, err := runRL(t, c); err != nil {
				t.Fatalf("C09 coalescing rate limiter violated: %v\ncase: %s", err, c)
			}
			sec.Case(true, vk.FP(c.String()), "expiry-race")
		}
	}
	sec.Sample(func() any {
		return "burst(1) adv(half) burst(1) burst(n, at the instant the window expires) adv(quiet) adv(quiet)"
	})
}

// TestCoalescingCloseRace: Close issued at the same instant as Adds (the helpers are then between
// loop iterations when Close takes the lock) - deterministic menu, many repetitions.
func TestCoalescingCloseRace(t *testing.T) {
	sec := vk.Sec("CoalescingCloseRace")
	reps := vk.Pick(300, 5000) / vk.Shards()
	for r := 0; r < reps; r++ {
		for _, n := range []int{1, 2, 3, 5} {
			for _, end := range []string{"close", "close+cancel"} {
				c := rlCase{InitMS: 10, MaxMul: 4, Cap: 0, Ops: []op{{Kind: "burst", N: 1, G: 1}, {Kind: "adv", Adv: "half"}, {Kind: "burst", N: n, G: 2, Also: []string{"close", "close2"}[r%2]}}, EndWith: end}
				out, err := runRL(t, c)
				if err != nil {
					t.Fatalf("C09 coalescing rate limiter violated: %v\ncase: %s", err, c)
				}
				_ = out
				sec.Case(true, vk.FP(c.String()), "close-race")
			}
		}
	}
	sec.Sample(func() any { return "burst(n adds/2 goroutines) immediately followed by Close, n in {1,2,3,5}" })
}
