package c10

import (
	"context"
	"fmt"
	"sync"
	"sync/atomic"
	"testing"
	"time"

	"github.com/dapr/kit/events/batcher"
	"github.com/dapr/kit/events/queue"

	"verifharness/vk"
)

// The batcher's delivery runs on the loop goroutine of its queue.Processor. This sweep parks that goroutine at each
// schedule point of the processor (verif build) - in particular between taking a due item off the queue and the
// fan-out taking the batcher's lock - and lets another call complete or block meanwhile: Close (once or twice), Batch
// of the same or another key, Subscribe, a subscriber leaving. Then the loop is released. Close and every other call
// must return (a settled state with goroutines parked on the batcher's lock while Close has not returned is a
// deadlock); at Close's return every subscriber channel is closed and nothing arrives afterwards; without Close the due
// value is delivered exactly once.
type pointPauser struct {
	mu     sync.Mutex
	armed  string
	parked bool
	ch     chan struct{}
}

var c10Pauser atomic.Pointer[pointPauser]

func init() {
	h := func(point string) {
		p := c10Pauser.Load()
		if p == nil {
			return
		}
		p.mu.Lock()
		var ch chan struct{}
		if p.armed == point && !p.parked {
			p.parked = true
			ch = p.ch
		}
		p.mu.Unlock()
		if ch != nil {
			<-ch
		}
	}
	queue.VerifHook.Store(&h)
}

func TestBatcherAtProcessorPoints(t *testing.T) {
	sec := vk.Sec("BatcherAtProcessorPoints")
	idx := 0
	for _, point := range []string{"loop.peeked", "loop.beforeTimer", "loop.timerFired", "execute.popped", "loop.empty"} {
		for _, mean := range []string{"close", "close2", "batch-same", "batch-other", "subscribe", "leave", "batch-same+close", "leave+close"} {
			for _, nsubs := range []int{1, 3} {
				idx++
				if !vk.Mine(idx) {
					continue
				}
				name := fmt.Sprintf("batcher.points{loop parked at %s; meanwhile %s; %d subscribers}", point, mean, nsubs)
				if err := runBatcherPoint(t, name, point, mean, nsubs); err != nil {
					t.Fatalf("C10 batcher violated: %v\ncase: %s", err, name)
				}
				sec.Case(true, vk.FP(name), "points."+point, "points.meanwhile."+mean)
				sec.Sample(func() any { return name })
			}
		}
	}
	sec.SetExhaustive()
}

func runBatcherPoint(t *testing.T, name, point, mean string, nsubs int) error {
	var errs vk.Errs
	berr := vk.Bubble(t, name, func() {
		const interval = 10 * time.Millisecond
		ps := &pointPauser{ch: make(chan struct{})}
		c10Pauser.Store(ps)
		defer c10Pauser.Store(nil)
		b := batcher.New[int, int](interval)
		type subr struct {
			ch     chan int
			cancel context.CancelFunc
			mu     sync.Mutex
			got    []int
			closed bool
		}
		var closeReturned atomic.Bool
		var wg sync.WaitGroup
		var subsMu sync.Mutex
		var subs []*subr
		allSubs := func() []*subr {
			subsMu.Lock()
			defer subsMu.Unlock()
			return append([]*subr(nil), subs...)
		}
		// Subscribers do not read on their own: their channel has room for everything this case can deliver, and
		// drain() takes what is there without blocking. So "what Close's return finds" is an exact snapshot.
		addSub := func() *subr {
			ctx, cancel := context.WithCancel(context.Background())
			s := &subr{ch: make(chan int, 8), cancel: cancel}
			subsMu.Lock()
			subs = append(subs, s)
			subsMu.Unlock()
			b.Subscribe(ctx, s.ch)
			return s
		}
		drain := func(s *subr) {
			s.mu.Lock()
			defer s.mu.Unlock()
			for !s.closed {
				select {
				case v, ok := <-s.ch:
					if !ok {
						s.closed = true
					} else {
						s.got = append(s.got, v)
					}
				default:
					return
				}
			}
		}
		for i := 0; i < nsubs; i++ {
			addSub()
		}
		settle := func(what string) bool {
			p, err := vk.SettleStacks()
			if err != nil {
				errs.Failf("%v\n%s", err, p.Dump)
				return false
			}
			_ = what
			return true
		}
		if !settle("subscribed") {
			return
		}
		// arm the point and make key 0 due: the loop parks there
		ps.mu.Lock()
		ps.armed = point
		ps.mu.Unlock()
		b.Batch(0, 100)
		if !settle("batch") {
			return
		}
		ps.mu.Lock()
		parked := ps.parked
		ps.mu.Unlock()
		if !parked {
			time.Sleep(interval)
			if !settle("interval") {
				return
			}
			ps.mu.Lock()
			parked = ps.parked
			ps.mu.Unlock()
		}
		if !parked {
			errs.Failf("harness: the loop never reached %s", point)
			return
		}
		due100 := point == "loop.timerFired" || point == "execute.popped" || point == "loop.empty" // the value was due when the loop parked (at loop.empty it has been delivered: the loop found nothing more to do and is on its way out)
		// meanwhile
		var calls sync.WaitGroup
		closes := 0
		closeDone := make([]atomic.Bool, 2)
		doClose := func() {
			i := closes
			closes++
			calls.Add(1)
			errs.Go(func() {
				defer calls.Done()
				b.Close()
				// Close has returned: every channel must be closed by now, and what they hold is final
				for j, s := range allSubs() {
					drain(s)
					s.mu.Lock()
					c := s.closed
					s.mu.Unlock()
					if !c {
						errs.Failf("when Close call %d returned the channel of subscriber %d was not closed", i, j)
					}
				}
				closeDone[i].Store(true)
				closeReturned.Store(true)
			})
		}
		var left *subr
		switch mean {
		case "close":
			doClose()
		case "close2":
			doClose()
			doClose()
		case "batch-same":
			calls.Add(1)
			errs.Go(func() { defer calls.Done(); b.Batch(0, 200) })
		case "batch-other":
			calls.Add(1)
			errs.Go(func() { defer calls.Done(); b.Batch(1, 300) })
		case "subscribe":
			calls.Add(1)
			errs.Go(func() { defer calls.Done(); addSub() })
		case "leave":
			left = allSubs()[0]
			left.cancel()
		case "batch-same+close":
			calls.Add(1)
			errs.Go(func() { defer calls.Done(); b.Batch(0, 200) })
			if !settle("batch while parked") {
				return
			}
			doClose()
		case "leave+close":
			left = allSubs()[0]
			left.cancel()
			if !settle("leave while parked") {
				return
			}
			doClose()
		}
		if !settle("meanwhile") {
			return
		}
		// release the loop
		ps.mu.Lock()
		ps.armed = ""
		close(ps.ch)
		ps.mu.Unlock()
		p, err := vk.SettleStacks()
		if err != nil {
			errs.Failf("%v\n%s", err, p.Dump)
			return
		}
		if closes > 0 && !closeDone[0].Load() && p.OnMutex > 0 {
			vk.Wedged(fmt.Sprintf("C10 batcher violated: Close has not returned and %d goroutine(s) are parked on the batcher's lock although the processor loop was released: deadlock\ncase: %s", p.OnMutex, name))
		}
		time.Sleep(3 * interval)
		p, err = vk.SettleStacks()
		if err != nil {
			errs.Failf("%v\n%s", err, p.Dump)
			return
		}
		for i := 0; i < closes; i++ {
			if !closeDone[i].Load() {
				if p.OnMutex > 0 {
					vk.Wedged(fmt.Sprintf("C10 batcher violated: Close call %d has not returned, %d goroutine(s) parked on the batcher's lock: deadlock\ncase: %s", i, p.OnMutex, name))
				}
				errs.Failf("Close call %d did not return", i)
				return
			}
		}
		if closes > 0 {
			for j, s := range allSubs() {
				drain(s)
				s.mu.Lock()
				closed, got := s.closed, append([]int(nil), s.got...)
				s.mu.Unlock()
				if !closed {
					errs.Failf("after Close returned the channel of subscriber %d is not closed", j)
					return
				}
				if len(got) > 2 {
					errs.Failf("subscriber %d received %v: more than the pending values", j, got)
					return
				}
			}
		} else {
			// no Close: the staying subscribers got what the quiet intervals call for, once each, in the same order
			var want []int
			switch mean {
			case "batch-same":
				if due100 {
					want = []int{100, 200}
				} else {
					want = []int{200}
				}
			case "batch-other":
				want = []int{100, 300}
			default:
				want = []int{100}
			}
			for j, s := range allSubs() {
				if s == left {
					continue
				}
				drain(s)
				s.mu.Lock()
				got := append([]int(nil), s.got...)
				s.mu.Unlock()
				if mean == "subscribe" && j == len(allSubs())-1 {
					// subscribed while the loop was parked: whether it was in time for value 100 depends on the point
					if len(got) > 1 || (len(got) == 1 && got[0] != 100) {
						errs.Failf("the subscriber added meanwhile received %v", got)
						return
					}
					continue
				}
				if mean == "batch-same" && point == "loop.timerFired" && fmt.Sprint(got) == "[200]" {
					continue // re-batched at the very instant the old value became due, before it was taken off the queue: suppressing it is the other legal outcome
				}
				if fmt.Sprint(got) != fmt.Sprint(want) {
					errs.Failf("subscriber %d received %v, the quiet intervals call for %v", j, got, want)
					return
				}
			}
			b.Close()
			closeReturned.Store(true)
		}
		calls.Wait()
		for _, s := range allSubs() {
			s.cancel()
		}
		wg.Wait()
	})
	if e := errs.Err(); e != nil {
		return e
	}
	return berr
}
