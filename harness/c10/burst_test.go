package c10

import (
	"context"
	"fmt"
	"runtime"
	"strings"
	"sync"
	"sync/atomic"
	"testing"
	"testing/synctest"
	"time"

	"github.com/dapr/kit/events/batcher"
	clocktesting "k8s.io/utils/clock/testing"
	"pgregory.net/rapid"

	"verifharness/vk"
)

// Bursts: MANY DISTINCT KEYS whose quiet interval ends with the same clock step (60..300 keys, due at one instant or
// at up to that many instants 1us apart), so that the batcher executes them back to back, with one or two stalled
// subscribers (no reader, channel capacity 0..2) next to 1..3 prompt ones. The burst is far larger than what a
// stalled subscriber can take (1 value in its forwarder + 50 buffered + its channel), so the delivery of the burst is
// parked on its full buffer in mid-burst. Then every stalled subscriber either
//
//	catches up: it reads everything (in chunks, settling in between), or
//	leaves:     its context ends while the delivery is blocked on its buffer (after reading 0..60 values).
//
// Oracle (statement): every subscriber that stays subscribed receives, for each key, the value of the most recent
// Batch call exactly once and no suppressed value; never more than 0.5ms before the interval has elapsed; in due
// order - the order among keys due at the same instant is not specified, so it is TAKEN from the first prompt
// subscriber (after checking that it is a due order) and every other subscriber that stayed must have received exactly
// the same sequence; what a leaver received is a prefix of it. Once every stalled subscriber has left or caught up,
// nothing may be held back: the settled state has no goroutine parked on the batcher's lock, the others have
// everything, the leaver's channel is closed, a later Batch is delivered one interval later, Close returns, every
// channel is closed and nothing arrives afterwards. Variant: Close is called right after the last leaver's cancel
// (Close in mid-burst): it returns, every channel is closed, the sequences are prefixes of one another.
type bSub struct {
	Style      string // prompt | stalled
	Cap        int    // capacity of the subscriber's channel
	Fate       string // stalled: catchup | leave
	Ctx        string // "" | relay | busy-parent
	ReadBefore int    // leave: values read before the cancel
	SettleB4   bool   // leave: settle between those reads and the cancel
	Chunk      int    // catchup: values read between two settles
}

type burstCase struct {
	IntervalMS int
	Clock      string // bubble (virtual real clock) | fake (injected clock, stepped)
	Procs      int    // GOMAXPROCS: 0 = default, 1
	Subs       []bSub
	Prelude    int // events delivered one per interval before the burst (distinct keys)
	Keys       int // keys of the burst
	Instants   int // number of distinct due instants (1us apart) the keys are spread over
	Dup        int // keys batched a second time (1us later): the first value is suppressed
	LeaveFirst bool
	End        string // epilogue | close-after-leave
}

func (c burstCase) String() string {
	var p []string
	for _, s := range c.Subs {
		switch {
		case s.Style == "prompt":
			p = append(p, fmt.Sprintf("prompt(cap=%d)", s.Cap))
		case s.Fate == "leave":
			cx := ""
			if s.Ctx != "" {
				cx = ",ctx=" + s.Ctx
			}
			p = append(p, fmt.Sprintf("stalled(cap=%d,reads %d,settle=%v,then leaves%s)", s.Cap, s.ReadBefore, s.SettleB4, cx))
		default:
			p = append(p, fmt.Sprintf("stalled(cap=%d,then catches up in chunks of %d)", s.Cap, s.Chunk))
		}
	}
	return fmt.Sprintf("batcher.burst{interval=%dms clock=%s gomaxprocs=%d subscribers=[%s] prelude=%d keys=%d dueInstants=%d rebatched=%d leaveFirst=%v end=%s}",
		c.IntervalMS, c.Clock, c.Procs, strings.Join(p, " "), c.Prelude, c.Keys, c.Instants, c.Dup, c.LeaveFirst, c.End)
}

type bsubscriber struct {
	spec      bSub
	cancel    context.CancelFunc
	ch        chan int
	mu        sync.Mutex
	got       []rcv
	closed    bool
	cancelled bool
	stop      chan struct{}
	firm      int // so many values had been received when the subscriber's context ended / Close was called (-1: n/a)
}

func (s *bsubscriber) seq() []rcv {
	s.mu.Lock()
	defer s.mu.Unlock()
	return append([]rcv(nil), s.got...)
}

func (s *bsubscriber) isClosed() bool {
	s.mu.Lock()
	defer s.mu.Unlock()
	return s.closed
}

func runBurst(t *testing.T, c burstCase) error {
	var errs vk.Errs
	caseStr := c.String()
	berr := vk.Bubble(t, caseStr, func() {
		if c.Procs > 0 {
			defer runtime.GOMAXPROCS(runtime.GOMAXPROCS(c.Procs))
		}
		interval := time.Duration(c.IntervalMS) * time.Millisecond
		now := time.Now
		advance := time.Sleep
		b := batcher.New[int, int](interval)
		if c.Clock == "fake" {
			clk := clocktesting.NewFakeClock(time.Now().Add(365 * 24 * time.Hour))
			b.WithClock(clk)
			now = clk.Now
			advance = clk.Step
		}
		var wg sync.WaitGroup
		var subs []*bsubscriber
		var closeIssued bool
		var closeReturned atomic.Bool
		issueClose := func() {
			closeIssued = true
			wg.Add(1)
			errs.Go(func() {
				defer wg.Done()
				b.Close()
				closeReturned.Store(true)
			})
		}
		defer func() {
			for _, s := range subs {
				s.cancel()
			}
			if !closeIssued {
				issueClose()
			}
			vk.SettleStacks()
			for _, s := range subs {
				close(s.stop)
			}
			wg.Wait()
		}()
		take := func(s *bsubscriber) bool {
			s.mu.Lock()
			defer s.mu.Unlock()
			if s.closed {
				return false
			}
			select {
			case v, ok := <-s.ch:
				if !ok {
					s.closed = true
					return false
				}
				s.got = append(s.got, rcv{v, now()})
				return true
			default:
				return false
			}
		}
		settle := func() (vk.Parked, bool) {
			p, err := vk.SettleStacks()
			if err != nil {
				errs.Failf("%v\n%s", err, p.Dump)
				return p, false
			}
			return p, true
		}

		// subscribers
		for _, spec := range c.Subs {
			ctx, cancel := context.WithCancel(context.Background())
			var sctx context.Context = ctx
			switch spec.Ctx {
			case "relay":
				sctx = vk.NewRelayCtx(ctx, 20)
			case "busy-parent":
				vk.BusyParent(ctx, 300)
			}
			s := &bsubscriber{spec: spec, cancel: cancel, ch: make(chan int, spec.Cap), stop: make(chan struct{}), firm: -1}
			subs = append(subs, s)
			if spec.Style == "prompt" {
				wg.Add(1)
				errs.Go(func() {
					defer wg.Done()
					for {
						select {
						case v, ok := <-s.ch:
							s.mu.Lock()
							if !ok {
								s.closed = true
								s.mu.Unlock()
								return
							}
							s.got = append(s.got, rcv{v, now()})
							s.mu.Unlock()
						case <-s.stop:
							return
						}
					}
				})
			}
			b.Subscribe(sctx, s.ch)
		}
		synctest.Wait()

		// the model: values in the order every staying subscriber must see them, as far as it is specified
		due := map[int]time.Time{} // value -> due instant, for the values that must be delivered
		suppressed := map[int]bool{}
		nextVal := 0
		for i := 0; i < c.Prelude; i++ {
			nextVal++
			due[nextVal] = now().Add(interval)
			b.Batch(100000+i, nextVal)
			synctest.Wait()
			advance(interval)
			synctest.Wait()
		}
		last := map[int]int{} // key -> last value
		batch := func(k int) {
			nextVal++
			if old, ok := last[k]; ok {
				delete(due, old)
				suppressed[old] = true
			}
			last[k] = nextVal
			due[nextVal] = now().Add(interval)
			b.Batch(k, nextVal)
		}
		spread := time.Duration(0)
		for k := 0; k < c.Keys; k++ {
			if k > 0 && k*c.Instants/c.Keys != (k-1)*c.Instants/c.Keys {
				advance(time.Microsecond)
				spread += time.Microsecond
			}
			batch(k)
		}
		if c.Dup > 0 {
			advance(time.Microsecond)
			spread += time.Microsecond
			for i := 0; i < c.Dup; i++ {
				batch((i * 7) % c.Keys)
			}
		}
		total := len(due)
		synctest.Wait()
		// ONE clock step ends the quiet interval of every key
		advance(interval + spread)
		if _, ok := settle(); !ok {
			return
		}

		present := func() bool { // a stalled subscriber that is still subscribed and has not read everything
			for _, s := range subs {
				if s.spec.Style == "stalled" && !s.cancelled && len(s.seq()) < total {
					return true
				}
			}
			return false
		}
		counts := func() string {
			var p []string
			for i, s := range subs {
				p = append(p, fmt.Sprintf("s%d(%s):%d", i, s.spec.Style, len(s.seq())))
			}
			return strings.Join(p, " ")
		}
		wedgeCheck := func(p vk.Parked, when string) {
			if p.OnMutex > 0 && !present() {
				vk.Wedged(fmt.Sprintf("C10 batcher violated: %s, %d goroutine(s) are parked on the batcher's mutex in a settled state although every stalled subscriber has left or has read everything (of %d due values received: %s): a delivery is blocked on a buffer nobody drains, nothing can be delivered any more and Close cannot return\ncase: %s", when, p.OnMutex, total, counts(), caseStr))
			}
		}
		lastLeaver := -1
		for i, s := range c.Subs {
			if s.Fate == "leave" {
				lastLeaver = i
			}
		}
		leave := func() bool {
			for i, s := range subs {
				if s.spec.Fate != "leave" {
					continue
				}
				for r := 0; r < s.spec.ReadBefore; r++ {
					if take(s) {
						continue
					}
					if _, ok := settle(); !ok {
						return false
					}
					if !take(s) {
						break
					}
				}
				if s.spec.SettleB4 {
					if _, ok := settle(); !ok {
						return false
					}
				}
				s.cancelled = true
				s.firm = len(s.seq())
				s.cancel()
				if c.End == "close-after-leave" && i == lastLeaver {
					for _, o := range subs {
						if !o.cancelled {
							o.firm = len(o.seq())
						}
					}
					issueClose()
				}
				p, ok := settle()
				if !ok {
					return false
				}
				wedgeCheck(p, fmt.Sprintf("after stalled subscriber s%d left in the middle of the burst", i))
			}
			return true
		}
		catchup := func() bool {
			for {
				progress := false
				for _, s := range subs {
					if s.spec.Fate != "catchup" {
						continue
					}
					for k := 0; k < s.spec.Chunk && take(s); k++ {
						progress = true
					}
				}
				p, ok := settle()
				if !ok {
					return false
				}
				if !progress {
					// one more look after the settle
					for _, s := range subs {
						if s.spec.Fate == "catchup" && take(s) {
							progress = true
						}
					}
					if !progress {
						wedgeCheck(p, "after the stalled subscribers read everything there was to read")
						return true
					}
				}
			}
		}
		if c.LeaveFirst {
			if !leave() || !catchup() {
				return
			}
		} else {
			if !catchup() || !leave() || !catchup() {
				return
			}
		}
		p, ok := settle()
		if !ok {
			return
		}
		wedgeCheck(p, "after every stalled subscriber left or caught up")

		// validate a sequence: each due value at most once, in due
		// order, no suppressed or unknown value, nothing early
		validate := func(i int, got []rcv) bool {
			seen := map[int]bool{}
			var prev time.Time
			for _, g := range got {
				d, ok := due[g.val]
				switch {
				case suppressed[g.val]:
					errs.Failf("subscriber s%d received %d, which was replaced by a later Batch call for its key inside the interval (suppressed value delivered)", i, g.val)
					return false
				case !ok:
					errs.Failf("subscriber s%d received %d, which is not the value of any Batch call", i, g.val)
					return false
				case seen[g.val]:
					errs.Failf("subscriber s%d received %d twice: %v", i, g.val, vals(got))
					return false
				case d.Before(prev):
					errs.Failf("subscriber s%d received %d (due %v) after a value that was due %v later: not in due order: %v", i, g.val, d.Format("05.000000"), prev.Sub(d), vals(got))
					return false
				case g.at.Before(d.Add(-500 * time.Microsecond)):
					errs.Failf("subscriber s%d received %d %v before one interval after its Batch call had elapsed", i, g.val, d.Sub(g.at))
					return false
				}
				seen[g.val] = true
				prev = d
			}
			return true
		}
		// sameOrder: the values two subscribers have in common come in the same relative order
		sameOrder := func(a, b []rcv) bool {
			pos := map[int]int{}
			for i, x := range a {
				pos[x.val] = i
			}
			prev := -1
			for _, x := range b {
				if p, ok := pos[x.val]; ok {
					if p < prev {
						return false
					}
					prev = p
				}
			}
			return true
		}
		// agree: two subscribers saw the same sequence. What each had received when its context ended / Close was
		// called ("firm"; everything for a subscriber to which neither applies) must be identical position by
		// position as far as both go; values that are in flight at that moment may or may not still arrive, each
		// one independently, so the rest is only required to come in the same relative order.
		agree := func(a, b *bsubscriber) bool {
			ga, gb := a.seq(), b.seq()
			fa, fb := len(ga), len(gb)
			if a.firm >= 0 {
				fa = min(fa, a.firm)
			}
			if b.firm >= 0 {
				fb = min(fb, b.firm)
			}
			for i := 0; i < min(fa, fb); i++ {
				if ga[i].val != gb[i].val {
					return false
				}
			}
			return sameOrder(ga, gb)
		}
		stays := func(s *bsubscriber) bool { return s.spec.Fate != "leave" }

		if c.End == "close-after-leave" {
			// Close was called right after the last stalled subscriber's cancel, in the middle of the burst
			if !closeReturned.Load() {
				vk.Wedged(fmt.Sprintf("C10 batcher violated: Close, called right after the last stalled subscriber left in the middle of a burst, has not returned in a settled state (goroutines parked on a mutex: %d; received: %s)\ncase: %s", p.OnMutex, counts(), caseStr))
			}
			for i, s := range subs {
				if s.spec.Style == "stalled" {
					for take(s) {
					}
				}
				if !s.isClosed() {
					errs.Failf("after Close returned the channel of subscriber s%d (%s) is not closed", i, s.spec.Style)
					return
				}
				if !validate(i, s.seq()) {
					return
				}
			}
			for i, s := range subs {
				for j := i + 1; j < len(subs); j++ {
					if !agree(s, subs[j]) {
						errs.Failf("subscribers s%d and s%d saw different sequences (Close in mid-burst: what they had received when Close was called / their context ended - %d and %d values - must be identical as far as both go, the rest in the same relative order): %v vs %v", i, j, s.firm, subs[j].firm, vals(s.seq()), vals(subs[j].seq()))
						return
					}
				}
			}
		} else {
			ref := -1
			for i, s := range subs {
				if s.spec.Style == "prompt" {
					ref = i
					break
				}
			}
			rs := subs[ref].seq()
			if !validate(ref, rs) {
				return
			}
			for i, s := range subs {
				got := s.seq()
				if stays(s) {
					if len(got) != total {
						errs.Failf("every stalled subscriber has left or caught up and the batcher is settled, but subscriber s%d (%s), which stayed subscribed, has received %d of the %d values that are due (received: %s)", i, s.spec.Style, len(got), total, counts())
						return
					}
					if !validate(i, got) {
						return
					}
					for j := range got {
						if got[j].val != rs[j].val {
							errs.Failf("subscribers s%d (%s) and s%d (%s) saw different sequences: first difference at position %d: %v vs %v", ref, subs[ref].spec.Style, i, s.spec.Style, j, vals(rs[j:min(j+8, len(rs))]), vals(got[j:min(j+8, len(got))]))
							return
						}
					}
					continue
				}
				for take(s) {
				}
				got = s.seq()
				if !s.isClosed() {
					errs.Failf("the channel of subscriber s%d, whose context has ended, has not been closed in a settled state", i)
					return
				}
				if !validate(i, got) {
					return
				}
				if !agree(s, subs[ref]) {
					errs.Failf("what the leaving subscriber s%d received (%d values before its context ended) does not agree with what subscriber s%d received: %v vs %v", i, s.firm, ref, vals(got), vals(rs[:min(len(got)+8, len(rs))]))
					return
				}
			}
			// a later Batch is delivered one interval later
			nextVal++
			due[nextVal] = now().Add(interval)
			b.Batch(0, nextVal)
			synctest.Wait()
			advance(interval)
			if _, ok := settle(); !ok {
				return
			}
			for i, s := range subs {
				if !stays(s) {
					continue
				}
				if s.spec.Style == "stalled" {
					take(s)
					if _, ok := settle(); !ok {
						return
					}
					take(s)
				}
				got := s.seq()
				if len(got) != total+1 || got[total].val != nextVal {
					errs.Failf("a Batch call after the burst was not delivered to subscriber s%d one interval later (its last values: %v)", i, tail(vals(got)))
					return
				}
				if got[total].at.Before(due[nextVal].Add(-500 * time.Microsecond)) {
					errs.Failf("subscriber s%d received %d before its interval had elapsed", i, nextVal)
					return
				}
			}
			issueClose()
			p, ok := settle()
			if !ok {
				return
			}
			if !closeReturned.Load() {
				vk.Wedged(fmt.Sprintf("C10 batcher violated: Close did not return after the burst had been delivered (goroutines parked on a mutex: %d)\ncase: %s", p.OnMutex, caseStr))
			}
			for i, s := range subs {
				if s.spec.Style == "stalled" {
					for take(s) {
					}
				}
				if !s.isClosed() {
					errs.Failf("after Close returned the channel of subscriber s%d (%s) is not closed", i, s.spec.Style)
					return
				}
			}
		}
		// nothing is sent after Close returned
		before := counts()
		b.Batch(1, 999999)
		advance(10 * interval)
		synctest.Wait()
		if after := counts(); after != before {
			errs.Failf("a value was received after Close returned: %s -> %s", before, after)
		}
	})
	if e := errs.Err(); e != nil {
		return e
	}
	return berr
}

func genBurst(rt *rapid.T) burstCase {
	c := burstCase{
		IntervalMS: rapid.SampledFrom([]int{2, 10, 1000}).Draw(rt, "intervalMS"),
		Clock:      rapid.SampledFrom([]string{"bubble", "fake"}).Draw(rt, "clock"),
		Procs:      rapid.SampledFrom([]int{0, 1}).Draw(rt, "gomaxprocs"),
		Keys:       rapid.IntRange(60, 300).Draw(rt, "keys"),
		Prelude:    rapid.SampledFrom([]int{0, 0, 0, 3, 51, 55}).Draw(rt, "prelude"),
		LeaveFirst: rapid.Bool().Draw(rt, "leaveFirst"),
		End:        "epilogue",
	}
	switch rapid.SampledFrom([]string{"one", "one", "two", "five", "every-key"}).Draw(rt, "instants") {
	case "one":
		c.Instants = 1
	case "two":
		c.Instants = 2
	case "five":
		c.Instants = 5
	default:
		c.Instants = c.Keys
	}
	switch rapid.SampledFrom([]string{"none", "none", "few", "half"}).Draw(rt, "rebatched") {
	case "few":
		c.Dup = 5
	case "half":
		c.Dup = c.Keys / 2
	}
	nPrompt := rapid.IntRange(1, 3).Draw(rt, "prompt")
	for i := 0; i < nPrompt; i++ {
		c.Subs = append(c.Subs, bSub{Style: "prompt", Cap: rapid.IntRange(0, 2).Draw(rt, "cap")})
	}
	nStalled := rapid.SampledFrom([]int{1, 1, 2}).Draw(rt, "stalled")
	allLeave := true
	for i := 0; i < nStalled; i++ {
		s := bSub{Style: "stalled", Cap: rapid.IntRange(0, 2).Draw(rt, "cap"), Fate: rapid.SampledFrom([]string{"catchup", "leave"}).Draw(rt, "fate")}
		if s.Fate == "leave" {
			s.Ctx = rapid.SampledFrom([]string{"", "", "relay", "busy-parent"}).Draw(rt, "ctxKind")
			s.ReadBefore = rapid.SampledFrom([]int{0, 0, 1, 7, 60}).Draw(rt, "readBefore")
			s.SettleB4 = rapid.Bool().Draw(rt, "settleBeforeCancel")
		} else {
			s.Chunk = rapid.SampledFrom([]int{1, 7, 50, 1000}).Draw(rt, "chunk")
			allLeave = false
		}
		pos := rapid.IntRange(0, len(c.Subs)).Draw(rt, "position")
		c.Subs = append(c.Subs[:pos], append([]bSub{s}, c.Subs[pos:]...)...)
	}
	if allLeave && rapid.IntRange(0, 2).Draw(rt, "closeMidBurst") == 0 {
		c.End = "close-after-leave"
	}
	return c
}

func burstClasses(c burstCase) []string {
	cls := []string{"burst.clock=" + c.Clock, fmt.Sprintf("burst.gomaxprocs=%d", c.Procs)}
	if c.Instants == 1 {
		cls = append(cls, "burst.all-keys-due-at-one-instant")
	} else {
		cls = append(cls, "burst.keys-due-at-several-instants-one-step")
	}
	if c.Dup > 0 {
		cls = append(cls, "burst.suppressed-values")
	}
	if c.Prelude > 50 {
		cls = append(cls, "burst.buffer-full-before-burst")
	}
	if c.Keys > 2*51+6 {
		cls = append(cls, "burst.more-than-two-buffers")
	}
	nst := 0
	for _, s := range c.Subs {
		if s.Style == "stalled" {
			nst++
			if s.Fate == "leave" {
				cls = append(cls, "burst.stalled-leaves-in-mid-burst")
			} else {
				cls = append(cls, "burst.stalled-catches-up")
			}
		}
	}
	if nst > 1 {
		cls = append(cls, "burst.two-stalled")
	}
	if c.End == "close-after-leave" {
		cls = append(cls, "burst.close-in-mid-burst")
	}
	return cls
}

// TestBatcherBurst: generated bursts (see the top of this file).
func TestBatcherBurst(t *testing.T) {
	sec := vk.Sec("BatcherBurst")
	vk.Check(t, 400, 60000, func(rt *rapid.T) {
		c := genBurst(rt)
		if err := runBurst(t, c); err != nil {
			rt.Fatalf("C10 batcher violated: %v\ncase: %s", err, c)
		}
		// non-trivial: every case has a subscriber more than one buffer behind in the middle of a back-to-back burst
		sec.Case(true, vk.FP(c.String()), burstClasses(c)...)
		sec.Sample(func() any { return c.String() })
	})
}

// TestBatcherBurstGrid: the two basic scenarios at fixed sizes under both GOMAXPROCS settings and both clocks
// (deterministic; every process runs its share).
func TestBatcherBurstGrid(t *testing.T) {
	sec := vk.Sec("BatcherBurstGrid")
	idx := 0
	for _, procs := range []int{1, 0} {
		for _, clock := range []string{"fake", "bubble"} {
			for _, fate := range []string{"catchup", "leave"} {
				for _, keys := range []int{60, 120, 300} {
					for _, instants := range []int{1, 3, keys} {
						for _, pos := range []int{0, 1} {
							idx++
							if !vk.Mine(idx) {
								continue
							}
							st := bSub{Style: "stalled", Cap: idx % 3, Fate: fate, Chunk: []int{1000, 1, 7}[idx%3], Ctx: []string{"", "relay", "busy-parent"}[idx%3]}
							if fate == "leave" {
								st.Chunk = 0
							} else {
								st.Ctx = ""
							}
							c := burstCase{IntervalMS: 10, Clock: clock, Procs: procs, Keys: keys, Instants: instants, LeaveFirst: true, End: "epilogue"}
							if pos == 0 {
								c.Subs = []bSub{st, {Style: "prompt", Cap: 1}}
							} else {
								c.Subs = []bSub{{Style: "prompt", Cap: 0}, st, {Style: "prompt", Cap: 2}}
							}
							if idx%4 == 0 {
								c.Prelude = 51
							}
							if err := runBurst(t, c); err != nil {
								t.Fatalf("C10 batcher violated: %v\ncase: %s", err, c)
							}
							sec.Case(true, vk.FP(c.String()), burstClasses(c)...)
							sec.Sample(func() any { return c.String() })
						}
					}
				}
			}
		}
	}
}
