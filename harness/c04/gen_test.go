package c04

import (
	"fmt"
	"strings"
	"sync"
	"sync/atomic"
	"time"
	_ "time/tzdata" // zones are embedded: the check works offline from a fresh restore

	"github.com/dapr/kit/cron"
	"pgregory.net/rapid"

	"verifharness/refcron"
)

// ---------------------------------------------------------------- option sets

// optSet is one parser configuration, described once for kit (ParseOption bits)
// and once for the reference parser.
type optSet struct {
	name string
	std  bool // use cron.ParseStandard
	kit  cron.ParseOption
	ref  refcron.Options
}

func mkOpt(name string, sec refcron.Mode, min, hour, dom, month bool, dow refcron.Mode, desc bool) optSet {
	o := optSet{name: name, ref: refcron.Options{Second: sec, Minute: min, Hour: hour, Dom: dom, Month: month, Dow: dow, Descriptors: desc}}
	switch sec {
	case refcron.Required:
		o.kit |= cron.Second
	case refcron.Optional:
		o.kit |= cron.SecondOptional
	}
	if min {
		o.kit |= cron.Minute
	}
	if hour {
		o.kit |= cron.Hour
	}
	if dom {
		o.kit |= cron.Dom
	}
	if month {
		o.kit |= cron.Month
	}
	switch dow {
	case refcron.Required:
		o.kit |= cron.Dow
	case refcron.Optional:
		o.kit |= cron.DowOptional
	}
	if desc {
		o.kit |= cron.Descriptor
	}
	return o
}

var (
	optStandard = optSet{name: "ParseStandard", std: true, ref: refcron.Standard}
	optSeconds  = mkOpt("seconds", refcron.Required, true, true, true, true, refcron.Required, true)
	namedOpts   = []optSet{
		optStandard,
		mkOpt("standard-nodesc", refcron.Absent, true, true, true, true, refcron.Required, false),
		optSeconds, // cron.WithSeconds()
		mkOpt("seconds-nodesc", refcron.Required, true, true, true, true, refcron.Required, false),
		mkOpt("seconds-optional", refcron.Optional, true, true, true, true, refcron.Required, true), // the parser of doc.go "Alternative Formats"
		mkOpt("seconds-optional-nodesc", refcron.Optional, true, true, true, true, refcron.Required, false),
		mkOpt("dow-optional", refcron.Absent, true, true, true, true, refcron.Optional, true),
		mkOpt("seconds+dow-optional", refcron.Required, true, true, true, true, refcron.Optional, true),
		mkOpt("dom-month-dow", refcron.Absent, false, false, true, true, refcron.Required, false),        // NewParser doc example
		mkOpt("dom-month-dowoptional", refcron.Absent, false, false, true, true, refcron.Optional, true), // NewParser doc example
	}
)

func (o optSet) parse(expr string) (cron.Schedule, error) {
	if o.std {
		return cron.ParseStandard(expr)
	}
	return cron.NewParser(o.kit).Parse(expr)
}

// present lists the fields of the format and which one (if any) is optional (-1: none).
func (o optSet) present() (fields []int, optional int) {
	optional = -1
	if o.ref.Second != refcron.Absent {
		fields = append(fields, refcron.FSecond)
		if o.ref.Second == refcron.Optional {
			optional = refcron.FSecond
		}
	}
	for i, on := range []bool{o.ref.Minute, o.ref.Hour, o.ref.Dom, o.ref.Month} {
		if on {
			fields = append(fields, refcron.FMinute+i)
		}
	}
	if o.ref.Dow != refcron.Absent {
		fields = append(fields, refcron.FDow)
		if o.ref.Dow == refcron.Optional {
			optional = refcron.FDow
		}
	}
	return
}

// genOpt draws a named option set or a reduced field subset (at most one
// optional field, at least one mandatory field).
func genOpt(rt *rapid.T) optSet {
	if rapid.IntRange(0, 9).Draw(rt, "optKind") < 8 {
		return rapid.SampledFrom(namedOpts).Draw(rt, "opt")
	}
	for {
		sec := refcron.Mode(rapid.IntRange(0, 2).Draw(rt, "sec"))
		dow := refcron.Mode(rapid.IntRange(0, 2).Draw(rt, "dow"))
		if sec == refcron.Optional && dow == refcron.Optional {
			dow = refcron.Required
		}
		mask := rapid.IntRange(0, 15).Draw(rt, "subset")
		o := mkOpt("", sec, mask&1 != 0, mask&2 != 0, mask&4 != 0, mask&8 != 0, dow, rapid.Bool().Draw(rt, "desc"))
		fields, opt := o.present()
		n := len(fields)
		if opt >= 0 {
			n--
		}
		if n < 1 {
			continue
		}
		o.name = fmt.Sprintf("subset{sec=%d min=%v hour=%v dom=%v month=%v dow=%d desc=%v}", sec, o.ref.Minute, o.ref.Hour, o.ref.Dom, o.ref.Month, dow, o.ref.Descriptors)
		return o
	}
}

// ---------------------------------------------------------------- zones

var (
	fixedZones    = []string{"UTC", "Etc/GMT+5", "Etc/GMT-14", "Etc/GMT+12", "Asia/Kathmandu", "Asia/Kolkata", "Asia/Tokyo", "Africa/Monrovia", "Europe/Amsterdam"}
	ordinaryZones = []string{"America/New_York", "Europe/London", "Europe/Berlin", "Australia/Sydney", "America/Los_Angeles",
		"Pacific/Auckland", "Europe/Lisbon", "Europe/Dublin", "America/Chicago", "Europe/Moscow", "Africa/Casablanca"}
	unusualZones = []string{"Australia/Lord_Howe", "America/St_Johns", "Pacific/Apia", "America/Asuncion", "America/Havana",
		"Africa/Cairo", "America/Santiago", "Asia/Beirut", "Antarctica/Troll", "America/Sao_Paulo", "Asia/Tehran", "Asia/Amman",
		"Asia/Damascus", "Asia/Gaza", "Atlantic/Azores", "America/Scoresbysund", "Pacific/Kiritimati", "Pacific/Kwajalein",
		"Pacific/Fakaofo", "Pacific/Chatham", "Asia/Pyongyang", "America/Caracas", "America/Campo_Grande", "Antarctica/Casey",
		"America/Nuuk", "Pacific/Tongatapu", "Africa/Juba", "Asia/Kabul", "Pacific/Norfolk"}
	presentZones = []string{"UTC", "America/New_York", "Asia/Tokyo", "Pacific/Apia", "Australia/Lord_Howe"}
)

type zoneInfo struct {
	name  string
	loc   *time.Location
	trans []int64 // unix seconds of the offset changes in 1990..2040
}

var (
	zoneMu    sync.Mutex
	zoneCache = map[string]*zoneInfo{}
)

func zone(name string) *zoneInfo {
	zoneMu.Lock()
	defer zoneMu.Unlock()
	if z, ok := zoneCache[name]; ok {
		return z
	}
	loc, err := time.LoadLocation(name)
	if err != nil {
		panic("C04 harness: zone " + name + " is not available: " + err.Error())
	}
	z := &zoneInfo{name: name, loc: loc}
	t := time.Date(1990, 1, 1, 0, 0, 0, 0, time.UTC).In(loc)
	limit := time.Date(2040, 1, 1, 0, 0, 0, 0, time.UTC)
	for {
		_, end := t.ZoneBounds()
		if end.IsZero() || end.After(limit) || !end.After(t) {
			break
		}
		_, o1 := end.Add(-time.Second).Zone()
		_, o2 := end.Zone()
		if o1 != o2 { // a change of abbreviation only is not a transition of the wall clock
			z.trans = append(z.trans, end.Unix())
		}
		t = end
	}
	zoneCache[name] = z
	return z
}

func genZone(rt *rapid.T) *zoneInfo {
	var name string
	switch k := rapid.IntRange(0, 9).Draw(rt, "zoneKind"); {
	case k < 2:
		name = rapid.SampledFrom(fixedZones).Draw(rt, "zone")
	case k < 5:
		name = rapid.SampledFrom(ordinaryZones).Draw(rt, "zone")
	default:
		name = rapid.SampledFrom(unusualZones).Draw(rt, "zone")
	}
	return zone(name)
}

// transitionClass describes the offset change at unix second tr in z:
// "nonhour-shift", "midnight" (the gap or overlap touches local 00:00),
// "day-skip" (a shift of 23 h or more) or "hour".
func transitionClass(z *zoneInfo, tr int64) string {
	before := time.Unix(tr-1, 0).In(z.loc)
	after := time.Unix(tr, 0).In(z.loc)
	_, o1 := before.Zone()
	_, o2 := after.Zone()
	d := o2 - o1
	if d < 0 {
		d = -d
	}
	switch {
	case d >= 23*3600:
		return "day-skip"
	case d%3600 != 0:
		return "nonhour-shift"
	}
	// wall clock just before and right at the change
	wallEnd := time.Unix(tr+int64(o1), 0).UTC()   // old wall clock reading at the change
	wallStart := time.Unix(tr+int64(o2), 0).UTC() // new wall clock reading at the change
	lo, hi := wallEnd, wallStart
	if hi.Before(lo) {
		lo, hi = hi, lo
	}
	// does [lo, hi] contain a local midnight?
	mid := time.Date(hi.Year(), hi.Month(), hi.Day(), 0, 0, 0, 0, time.UTC)
	if !mid.Before(lo) && !mid.After(hi) {
		return "midnight"
	}
	return "hour"
}

// ---------------------------------------------------------------- expressions

var monthNames = []string{"jan", "feb", "mar", "apr", "may", "jun", "jul", "aug", "sep", "oct", "nov", "dec"}
var dowNames = []string{"sun", "mon", "tue", "wed", "thu", "fri", "sat"}

func recase(rt *rapid.T, s string) string {
	switch rapid.IntRange(0, 3).Draw(rt, "case") {
	case 0:
		return s
	case 1:
		return strings.ToUpper(s)
	case 2:
		return strings.ToUpper(s[:1]) + s[1:]
	}
	mask := rapid.IntRange(0, 7).Draw(rt, "caseMask")
	b := []byte(s)
	for i := range b {
		if mask&(1<<i) != 0 {
			b[i] = b[i] - 'a' + 'A'
		}
	}
	return string(b)
}

// renderValue writes value v of field f as a number (sometimes with leading
// zeros, as in the documentation's "30 04 * * *") or as a month / day name.
func renderValue(rt *rapid.T, f, v int) string {
	if (f == refcron.FMonth || f == refcron.FDow) && rapid.IntRange(0, 9).Draw(rt, "named") < 4 {
		if f == refcron.FMonth {
			return recase(rt, monthNames[v-1])
		}
		return recase(rt, dowNames[v])
	}
	switch rapid.IntRange(0, 11).Draw(rt, "numStyle") {
	case 0:
		return fmt.Sprintf("%02d", v)
	case 1:
		return fmt.Sprintf("%03d", v)
	}
	return fmt.Sprint(v)
}

// hugeSteps are step values around the widths of the machine integers a parser may keep a step in. Every one of
// them exceeds any field's range, so as a step each selects the first value of its range only (a parser may also
// refuse the ones it cannot represent; a refusal is recorded, not judged).
var hugeSteps = []string{
	"2147483647", "2147483648", "4294967295", "4294967296", "4294967297",
	"9223372036854775807", "9223372036854775808", "18446744073709551615", "18446744073709551616",
	"10000000000000000000", "99999999999999999999", "340282366920938463463374607431768211456",
}

// genStep draws the step of a term whose range starts at value start and covers span values.
func genStep(rt *rapid.T, start, span int) string {
	// span = number of values the step runs over; steps beyond it select only the first value
	switch k := rapid.IntRange(0, 39).Draw(rt, "bigStep"); {
	case k == 0:
		return rapid.SampledFrom(hugeSteps).Draw(rt, "hugeStep")
	case k == 1:
		// 2^64 - d and 2^32 - d for small d: start + step comes back into the field's range in a 64- or
		// 32-bit unsigned sum
		d := uint64(rapid.IntRange(1, start+span).Draw(rt, "wrapBy"))
		if rapid.Bool().Draw(rt, "wrap32") {
			return fmt.Sprint(uint64(1)<<32 - d)
		}
		return fmt.Sprint(^uint64(0) - d + 1)
	case k < 6:
		return fmt.Sprint(rapid.IntRange(span+1, 2*span+60).Draw(rt, "step"))
	}
	return fmt.Sprint(rapid.IntRange(1, span+1).Draw(rt, "step"))
}

const (
	kSingle = iota
	kRange
	kStarStep
	kSingleStep
	kRangeStep
	kStar
)

// genTerm draws one term of field f: n, n-m, */s, n/s, n-m/s, * (or ?).
func genTerm(rt *rapid.T, f int, allowStar bool) string {
	lo, hi := refcron.Lo[f], refcron.Hi[f]
	kinds := []int{kSingle, kSingle, kSingle, kRange, kRange, kStarStep, kSingleStep, kRangeStep}
	if allowStar {
		kinds = append(kinds, kStar)
	}
	star := "*"
	if (f == refcron.FDom || f == refcron.FDow) && rapid.IntRange(0, 3).Draw(rt, "qmark") == 0 {
		star = "?"
	}
	switch rapid.SampledFrom(kinds).Draw(rt, "termKind") {
	case kSingle:
		return renderValue(rt, f, rapid.IntRange(lo, hi).Draw(rt, "n"))
	case kRange:
		a := rapid.IntRange(lo, hi).Draw(rt, "n")
		b := rapid.IntRange(a, hi).Draw(rt, "m")
		return renderValue(rt, f, a) + "-" + renderValue(rt, f, b)
	case kStarStep:
		return fmt.Sprintf("%s/%s", star, genStep(rt, lo, hi-lo+1))
	case kSingleStep:
		a := rapid.IntRange(lo, hi).Draw(rt, "n")
		return fmt.Sprintf("%s/%s", renderValue(rt, f, a), genStep(rt, a, hi-a+1))
	case kRangeStep:
		a := rapid.IntRange(lo, hi).Draw(rt, "n")
		b := rapid.IntRange(a, hi).Draw(rt, "m")
		return fmt.Sprintf("%s-%s/%s", renderValue(rt, f, a), renderValue(rt, f, b), genStep(rt, a, b-a+1))
	}
	return star
}

// starWeight[f] of 100: how often field f is written as a plain star.
var starWeight = [6]int{20, 25, 30, 55, 60, 55}

// genField draws the text of field f: a star, a single term or a list of 2-3 terms.
func genField(rt *rapid.T, f int) string {
	if rapid.IntRange(0, 99).Draw(rt, "starP") < starWeight[f] {
		if (f == refcron.FDom || f == refcron.FDow) && rapid.IntRange(0, 2).Draw(rt, "qmark") == 0 {
			return "?"
		}
		return "*"
	}
	n := 1
	switch k := rapid.IntRange(0, 9).Draw(rt, "listLen"); {
	case k >= 9:
		n = 3
	case k >= 7:
		n = 2
	}
	terms := make([]string, n)
	for i := range terms {
		// a star as one item of a longer list is legal but rare
		terms[i] = genTerm(rt, f, n > 1 && rapid.IntRange(0, 19).Draw(rt, "starInList") == 0)
	}
	return strings.Join(terms, ",")
}

type exprCase struct {
	opt    optSet
	fields []string // the written fields
	fidx   []int    // which field each written one is
	prefix string   // "", "TZ=<zone> " or "CRON_TZ=<zone> "
	zone   *zoneInfo
}

func (e exprCase) text() string { return e.prefix + strings.Join(e.fields, " ") }

var descriptors = []string{"@yearly", "@annually", "@monthly", "@weekly", "@daily", "@midnight", "@hourly"}

// genExpr draws an expression of the documented grammar for option set o. With
// a zone prefix the schedule's zone is the prefix zone; without, it is the
// location of the instant passed to Next (kit documents schedules without a
// zone as "local to the time provided"), which the caller arranges.
func genExpr(rt *rapid.T, o optSet) exprCase {
	e := exprCase{opt: o, zone: genZone(rt)}
	switch rapid.IntRange(0, 4).Draw(rt, "prefix") {
	case 0, 1:
		e.prefix = "TZ=" + e.zone.name + " "
	case 2:
		e.prefix = "CRON_TZ=" + e.zone.name + " "
	}
	if o.ref.Descriptors && rapid.IntRange(0, 11).Draw(rt, "useDescriptor") == 0 {
		e.fields = []string{rapid.SampledFrom(descriptors).Draw(rt, "descriptor")}
		e.fidx = []int{-1}
		return e
	}
	present, optional := o.present()
	if optional >= 0 && rapid.Bool().Draw(rt, "omitOptional") {
		if optional == refcron.FSecond {
			present = present[1:]
		} else {
			present = present[:len(present)-1]
		}
	}
	// now and then a date that exists rarely or never (29-31 of a short month): these searches run for
	// years, reach the five-year bound, and are where "no such time" has to be reported
	rareDay := rapid.IntRange(0, 24).Draw(rt, "rareDay") == 0
	for _, f := range present {
		e.fidx = append(e.fidx, f)
		switch {
		case rareDay && f == refcron.FDom:
			e.fields = append(e.fields, rapid.SampledFrom([]string{"29", "30", "31", "30,31", "29-31", "31/2", "30-31"}).Draw(rt, "rareDom"))
		case rareDay && f == refcron.FMonth:
			e.fields = append(e.fields, rapid.SampledFrom([]string{"2", "feb", "FEB", "2", "Feb", "4", "2,4", "feb,jun", "4,6,9,11", "NOV", "9-9", "2/12"}).Draw(rt, "rareMonth"))
		case rareDay && f == refcron.FDow:
			e.fields = append(e.fields, rapid.SampledFrom([]string{"*", "?", "*", "mon"}).Draw(rt, "rareDow"))
		default:
			e.fields = append(e.fields, genField(rt, f))
		}
	}
	return e
}

// ---------------------------------------------------------------- instants

type instant struct {
	t     time.Time
	class string
}

func unixOf(y int, m time.Month, d int, loc *time.Location) int64 {
	return time.Date(y, m, d, 0, 0, 0, 0, loc).Unix()
}

// genInstant draws a start instant biased to the places where a calendar
// search can go wrong in zone z.
func genInstant(rt *rapid.T, z *zoneInfo) instant {
	var sec int64
	class := ""
	k := rapid.IntRange(0, 12).Draw(rt, "instantKind")
	if k >= 2 && k <= 6 && len(z.trans) == 0 {
		k = 0
	}
	if k == 11 && len(z.trans) != 0 {
		// The far future is only drawn for zones without transitions. Beyond its tables (2037) the time
		// package evaluates the zone's rule string on every look-up and, on 31 December of leap years, reports
		// a period end that is already past, which both kit (after the fix) and the reference can only cross
		// second by second (tens of milliseconds per search). The five-year bound does not depend on the zone;
		// zones with rules are covered there by TestFiveYearBound and the pinned cases.
		k = 0
	}
	switch {
	case k < 2:
		class = "uniform"
		sec = rapid.Int64Range(unixOf(1990, 1, 1, time.UTC), unixOf(2036, 1, 1, time.UTC)).Draw(rt, "unix")
	case k <= 6:
		tr := z.trans[rapid.IntRange(0, len(z.trans)-1).Draw(rt, "transition")]
		class = "transition:" + transitionClass(z, tr)
		switch rapid.IntRange(0, 9).Draw(rt, "near") {
		case 0, 1:
			sec = tr + rapid.Int64Range(-2, 1).Draw(rt, "delta")
		case 2, 3, 4:
			sec = tr + rapid.Int64Range(-3*3600, 3*3600).Draw(rt, "delta")
		default:
			sec = tr + rapid.Int64Range(-36*3600, 36*3600).Draw(rt, "delta")
		}
	case k == 7 || k == 8:
		class = "month-end"
		y := rapid.IntRange(1990, 2035).Draw(rt, "year")
		m := rapid.IntRange(1, 12).Draw(rt, "month")
		sec = unixOf(y, time.Month(m+1), 1, z.loc) + rapid.Int64Range(-2*86400, 2*3600).Draw(rt, "delta")
	case k == 9:
		class = "leap-day"
		y := rapid.SampledFrom([]int{1992, 1996, 2000, 2004, 2008, 2012, 2016, 2020, 2023, 2024, 2025, 2028, 2032}).Draw(rt, "year")
		sec = unixOf(y, 3, 1, z.loc) + rapid.Int64Range(-3*86400, 86400).Draw(rt, "delta")
	case k == 10:
		class = "year-end"
		y := rapid.IntRange(1990, 2035).Draw(rt, "year")
		sec = unixOf(y+1, 1, 1, z.loc) + rapid.Int64Range(-2*86400, 86400).Draw(rt, "delta")
	case k == 12:
		// Before standard time every zone runs on local mean time, whose UTC offset is not a whole number of
		// minutes (New_York -4:56:02 until 1883, Amsterdam +0:19:32 until 1937, Monrovia -0:44:30 until 1972):
		// wall-clock minutes and seconds are then not aligned with UTC minutes.
		class = "historical"
		sec = rapid.Int64Range(unixOf(1850, 1, 1, time.UTC), unixOf(1975, 1, 1, time.UTC)).Draw(rt, "unix")
	default:
		// 2100 is not a leap year: 29 February is 8 years apart here, which is what
		// reaches the five-year bound for a satisfiable expression
		class = "century"
		sec = rapid.Int64Range(unixOf(2095, 12, 1, time.UTC), unixOf(2104, 3, 2, time.UTC)).Draw(rt, "unix")
	}
	var ns int64
	switch rapid.IntRange(0, 3).Draw(rt, "nsKind") {
	case 0:
		ns = 0
	case 1:
		ns = 999999999
	case 2:
		ns = 1
	default:
		ns = rapid.Int64Range(0, 999999999).Draw(rt, "ns")
	}
	return instant{t: time.Unix(sec, ns), class: class}
}

// genPresentation picks the location in which the start instant is handed to
// Next when the expression carries its own zone: the schedule's zone, UTC, a
// third zone or an anonymous fixed offset.
func genPresentation(rt *rapid.T, z *zoneInfo) *time.Location {
	switch rapid.IntRange(0, 3).Draw(rt, "present") {
	case 0:
		return z.loc
	case 1:
		return time.UTC
	case 2:
		return zone(rapid.SampledFrom(presentZones).Draw(rt, "presentZone")).loc
	}
	return time.FixedZone("", rapid.IntRange(-12*4, 14*4).Draw(rt, "fixedQuarterHours")*900)
}

// ---------------------------------------------------------------- termination guard

// A Next that never returns must become a failure with the case in the log,
// not a killed process. Every call of kit's Parse and Next made by the searches
// is announced here; a watchdog goroutine fails the process if one call runs
// for longer than nextDeadline, which is several orders of magnitude above the
// slowest legitimate call (micro- to milliseconds).
const nextDeadline = 60 * time.Second

type inflight struct {
	start time.Time
	desc  func() string
}

var (
	current      atomic.Pointer[inflight]
	watchdogOnce sync.Once
)

func guarded(desc func() string, call func()) {
	watchdogOnce.Do(func() {
		go func() {
			for {
				time.Sleep(500 * time.Millisecond)
				if c := current.Load(); c != nil && time.Since(c.start) > nextDeadline {
					panic(fmt.Sprintf("C04 termination violated: the call did not return within %v\ncase: %s", nextDeadline, c.desc()))
				}
			}
		}()
	})
	current.Store(&inflight{start: time.Now(), desc: desc})
	defer current.Store(nil)
	call()
}

func guardedNext(s cron.Schedule, t time.Time, desc func() string) (r time.Time) {
	guarded(desc, func() { r = s.Next(t) })
	return r
}

// safeParse runs kit's Parse under the termination guard and turns a panic
// into a value (a panic is a failure of the refusal property, reported with
// the whole case).
func safeParse(o optSet, text string) (s cron.Schedule, err error, panicked any) {
	guarded(func() string { return fmt.Sprintf("Parse {parser=%s expr=%q}", o.name, text) }, func() {
		defer func() {
			if r := recover(); r != nil {
				panicked = r
			}
		}()
		s, err = o.parse(text)
	})
	return
}

// nextWithDeadline runs one call in a child goroutine (pinned regression inputs).
func nextWithDeadline(s cron.Schedule, t time.Time, d time.Duration) (time.Time, bool) {
	ch := make(chan time.Time, 1)
	go func() { ch <- s.Next(t) }()
	tm := time.NewTimer(d)
	defer tm.Stop()
	select {
	case r := <-ch:
		return r, true
	case <-tm.C:
		return time.Time{}, false
	}
}
