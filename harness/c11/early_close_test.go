package c11

import (
	"context"
	"fmt"
	"runtime"
	"testing"

	"github.com/dapr/kit/events/broadcaster"

	"verifharness/vk"
)

// Close at once: subscribers are added (one call, several channels), a value is broadcast, and the broadcaster is
// closed before the forwarder goroutines may have executed their first instruction. At the instant Close returns no
// goroutine created by the package may be parked or unstarted, and what the channels hold is final.
func TestCloseRightAfterSubscribe(t *testing.T) {
	sec := vk.Sec("CloseRightAfterSubscribe")
	for _, procs := range []int{1, 0} {
		for _, subs := range []int{1, 4, 40} {
			for _, bcast := range []int{0, 1} {
				name := fmt.Sprintf("earlyclose{gomaxprocs=%d channels=%d broadcasts=%d}", procs, subs, bcast)
				var errs vk.Errs
				berr := vk.Bubble(t, name, func() {
					if procs > 0 {
						defer runtime.GOMAXPROCS(runtime.GOMAXPROCS(procs))
					}
					for i := 0; i < vk.Pick(150, 3000); i++ {
						b := broadcaster.New[int]()
						ctx, cancel := context.WithCancel(context.Background())
						chans := make([]chan int, subs)
						send := make([]chan<- int, subs)
						for k := range chans {
							chans[k] = make(chan int, 2)
							send[k] = chans[k]
						}
						b.Subscribe(ctx, send...)
						for v := 0; v < bcast; v++ {
							b.Broadcast(v + 1)
						}
						b.Close()
						if c, st := vk.HelpersParked("events/broadcaster."); c > 0 {
							errs.Failf("round %d: Close returned while a forwarder has not exited (parked or not even started):\n%s", i, st)
							cancel()
							return
						}
						lens := make([]int, subs)
						for k, ch := range chans {
							lens[k] = len(ch)
						}
						runtime.Gosched()
						cancel()
						for k, ch := range chans {
							if len(ch) > lens[k] {
								errs.Failf("round %d: subscriber %d received a value after Close had returned", i, k)
								return
							}
						}
					}
				})
				if e := errs.Err(); e != nil {
					t.Fatalf("C11 broadcaster violated: %v\ncase: %s", e, name)
				}
				if berr != nil {
					t.Fatalf("C11 broadcaster violated: %v\ncase: %s", berr, name)
				}
				sec.Case(true, vk.FP(name), "close-right-after-subscribe")
				sec.Sample(func() any { return name })
			}
		}
	}
}
