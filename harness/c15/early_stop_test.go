package c15

import (
	"fmt"
	"runtime"
	"testing"

	"github.com/dapr/kit/ttlcache"

	"verifharness/vk"
)

// Stop at once: a cache that is stopped right after it was made (an early-return path, a deferred Stop) - its
// background cleaner may not even have executed its first instruction yet. "Stop returns only after the background
// cleaner has exited": at the instant Stop returns no goroutine created by the package may be parked or unstarted.
// Run with one P (the new goroutine cannot start before Stop is called) and with all of them.
func TestStopRightAfterNew(t *testing.T) {
	sec := vk.Sec("StopRightAfterNew")
	for _, procs := range []int{1, 0} {
		for _, work := range []int{0, 1, 3} {
			name := fmt.Sprintf("earlystop{gomaxprocs=%d setsBeforeStop=%d}", procs, work)
			var errs vk.Errs
			berr := vk.Bubble(t, name, func() {
				if procs > 0 {
					defer runtime.GOMAXPROCS(runtime.GOMAXPROCS(procs))
				}
				for i := 0; i < vk.Pick(300, 5000); i++ {
					c := ttlcache.NewCache[int](ttlcache.CacheOptions{})
					for k := 0; k < work; k++ {
						c.Set(fmt.Sprint(k), k, 5)
					}
					c.Stop()
					if n, st := vk.HelpersParked("ttlcache."); n > 0 {
						errs.Failf("round %d: Stop returned while the background cleaner has not exited (parked or not even started):\n%s", i, st)
						return
					}
				}
			})
			if e := errs.Err(); e != nil {
				t.Fatalf("C15 ttlcache violated: %v\ncase: %s", e, name)
			}
			if berr != nil {
				t.Fatalf("C15 ttlcache violated: %v\ncase: %s", berr, name)
			}
			sec.Case(true, vk.FP(name), "stop-right-after-new")
			sec.Sample(func() any { return name })
		}
	}
}
