#!/bin/sh
# Builds every check binary once so that later runs are incremental. Offline; files on disk only.
set -e
cd "$(dirname "$0")"
export GOFLAGS=-mod=mod GOPROXY=off GOSUMDB=off GOTOOLCHAIN=local
python3 - <<'PY'
import sys, os
sys.path.insert(0, os.getcwd())
import importlib.util, importlib.machinery
loader = importlib.machinery.SourceFileLoader("check", os.path.join(os.getcwd(), "check"))
spec = importlib.util.spec_from_loader("check", loader)
chk = importlib.util.module_from_spec(spec)
loader.exec_module(chk)
chk.prepare_module("/repo")
for pid, cfg in chk.PROPS.items():
    if pid not in set(open("CLAIMED.txt").read().split()):
        continue
    out, s = chk.build(pid, cfg)
    os.remove(out)  # the point is the warm build cache; every ./check run links its own binary
    print("built %s in %.1fs" % (pid, s))
PY
# C03 runs one class of cases (RSA keys without CRT values) with the machine's default go, the repository's own
# toolchain: warm its build cache for the packages that program needs (no files are written into /repo).
( cd /repo && GOFLAGS=-mod=readonly go build ./crypto/ 2>/dev/null || true )
