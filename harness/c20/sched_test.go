package c20

import (
	"testing"

	"verifharness/vk"
)

// TestPoolCallSchedules enumerates the places at which a member can end WHILE NewPool or Add is looking at the
// contexts. The members are contexts of the harness's own type; one schedule point (member i, its n-th method call,
// before / after the method computed its result, the member that ends there: any of them or the member itself) is set
// per case:
//
//	(a) NewPool: every pool of 1..3 initial contexts (each live or already ended) x every schedule point on an initial
//	    context (calls 1..4) x {nothing, Add(live)} afterwards x both finishes;
//	(b) Add: every pool of 0..2 live initial contexts x Add(live | ended context) with every schedule point on the
//	    added context (calls 1..3; the member that ends: an initial one, the added one) x {nothing, end member 0,
//	    Add(live)} afterwards x both finishes.
//
// Afterwards the ordinary oracle applies: once all members have ended the pool is done, never earlier; Size counts the
// tracked members (a member that ended during the call may or may not be one of them); the watcher is gone.
func TestPoolCallSchedules(t *testing.T) {
	sec := vk.Sec("PoolCallSchedules")
	idx := 0
	run := func(c poolCase) {
		idx++
		if !vk.Mine(idx) {
			return
		}
		out, err := runPool(t, c)
		if err != nil {
			t.Fatalf("C20 context.Pool violated: %v\ncase: %s", err, c)
		}
		sec.Case(out.nontrivial(), vk.FP(c.String()), out.classes()...)
		sec.Sample(func() any { return c.String() })
	}
	finishes := []string{"members", "cancel"}
	// (a)
	for n := 1; n <= 3; n++ {
		for mask := 0; mask < 1<<n; mask++ {
			in := make([]bool, n)
			for i := range in {
				in[i] = mask&(1<<i) != 0
			}
			for i := 0; i < n; i++ {
				for call := 1; call <= 4; call++ {
					for target := -1; target < n; target++ {
						for _, after := range []bool{false, true} {
							for _, ops := range [][]op{nil, {{Kind: "add"}}} {
								for _, fin := range finishes {
									trigs := make([][]trig, n)
									trigs[i] = []trig{{N: call, Target: target, After: after}}
									run(poolCase{Init: in, InitTrig: trigs, Own: true, Ops: ops, Finish: fin})
								}
							}
						}
					}
				}
			}
		}
	}
	// (b)
	for n := 0; n <= 2; n++ {
		for _, ended := range []bool{false, true} {
			for call := 1; call <= 3; call++ {
				for target := -1; target < n; target++ {
					for _, after := range []bool{false, true} {
						for _, more := range [][]op{nil, {{Kind: "end", I: 0}}, {{Kind: "add"}}} {
							for _, fin := range finishes {
								ops := append([]op{{Kind: "add", Ended: ended, Trig: []trig{{N: call, Target: target, After: after}}}}, more...)
								run(poolCase{Init: make([]bool, n), Own: true, Ops: ops, Finish: fin})
							}
						}
					}
				}
			}
		}
	}
	sec.SetExhaustive()
}

// TestPoolDeadlineSweep enumerates pools whose members end by DEADLINE (virtual time of the bubble): every pool of 0..3
// initial contexts, each of {live without deadline, already ended, deadline +1 unit, deadline +3 units}, x every
// history of up to 3 (thorough: 4) operations from the menu {Add(live, no deadline), Add(deadline +1), Add(deadline
// +5), tick +2 units, tick +4 units, end member 0, end member 1} x both finishes ("members" first lets the clock pass
// every deadline and compares, then ends what is left); the unit is a second or an hour. In particular: all initial contexts with deadlines and a later
// Add of a context without one (or with a later one), which must keep the pool alive past the initial deadlines.
func TestPoolDeadlineSweep(t *testing.T) {
	sec := vk.Sec("PoolDeadlineSweep")
	menu := []op{{Kind: "add"}, {Kind: "add", DL: 1}, {Kind: "add", DL: 3}, {Kind: "tick", K: 1}, {Kind: "tick", K: 2}, {Kind: "end", I: 0}, {Kind: "end", I: 1}}
	depth := vk.Pick(3, 4)
	type initSpec struct {
		ended []bool
		dl    []int
	}
	var inits []initSpec
	for n := 0; n <= 3; n++ {
		total := 1
		for i := 0; i < n; i++ {
			total *= 4
		}
		for code := 0; code < total; code++ {
			sp := initSpec{ended: make([]bool, n), dl: make([]int, n)}
			for i, x := 0, code; i < n; i, x = i+1, x/4 {
				switch x % 4 {
				case 1:
					sp.ended[i] = true
				case 2:
					sp.dl[i] = 1
				case 3:
					sp.dl[i] = 2
				}
			}
			inits = append(inits, sp)
		}
	}
	idx := 0
	var rec func(ops []op)
	rec = func(ops []op) {
		for _, in := range inits {
			for _, fin := range []string{"members", "cancel"} {
				idx++
				if !vk.Mine(idx) {
					continue
				}
				c := poolCase{Init: in.ended, InitDL: in.dl, Unit: 1 + len(ops)%2, Ops: append([]op(nil), ops...), Finish: fin}
				out, err := runPool(t, c)
				if err != nil {
					t.Fatalf("C20 context.Pool violated: %v\ncase: %s", err, c)
				}
				sec.Case(out.nontrivial(), vk.FP(c.String()), out.classes()...)
				sec.Sample(func() any { return c.String() })
			}
		}
		if len(ops) == depth {
			return
		}
		for _, o := range menu {
			rec(append(ops, o))
		}
	}
	rec(nil)
	sec.SetExhaustive()
}
