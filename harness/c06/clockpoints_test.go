package c06

import (
	"fmt"
	"runtime"
	"sync"
	"sync/atomic"
	"testing"
	"testing/synctest"
	"time"

	"github.com/dapr/kit/events/queue"
	kclock "k8s.io/utils/clock"
	clocktesting "k8s.io/utils/clock/testing"
	"pgregory.net/rapid"

	"verifharness/vk"
)

// Clock calls as schedule points (no verif build needed): the loop asks its injected clock for the time (between
// peeking the head and deciding what to do with it), for a timer, and stops that timer. At the n-th such call another
// goroutine performs one API call and is given a bounded number of yields. Oracle (timing-free, on the fake clock): an
// item never dequeued or replaced runs exactly once, not more than 0.5 ms early, and has run once the clock is well
// past its time; a dequeued or replaced item runs at most once and never after its removal call returned if it had not
// run before; nothing runs after Close returned.
type pointClock struct {
	kclock.WithTicker
	on func(string)
}

func (p pointClock) Now() time.Time {
	p.on("Now")
	return p.WithTicker.Now()
}

func (p pointClock) NewTimer(d time.Duration) kclock.Timer {
	p.on("NewTimer.before")
	t := pointTimer{p.WithTicker.NewTimer(d), p.on}
	p.on("NewTimer.after")
	return t
}

type pointTimer struct {
	kclock.Timer
	on func(string)
}

func (t pointTimer) Stop() bool {
	t.on("Stop.before")
	r := t.Timer.Stop()
	t.on("Stop.after")
	return r
}

type cpCase struct {
	Point  string
	Nth    int
	Inject string // enq-earlier | enq-same-later | enq-same-earlier | deq-head | deq-other | close | enq-due-now
	Steps  []int  // clock advances in ms
}

func (c cpCase) String() string { return fmt.Sprintf("proc.clockpoint%+v", cpPlain(c)) }

type cpPlain cpCase

func runProcClockPoint(t *testing.T, c cpCase) (fired bool, err error) {
	var errs vk.Errs
	berr := vk.Bubble(t, c.String(), func() {
		base := time.Date(2024, 1, 1, 0, 0, 0, 0, time.UTC)
		fake := clocktesting.NewFakeClock(base)
		var mu sync.Mutex
		type run struct {
			id         int
			at         time.Time
			afterClose bool
		}
		var runs []run
		var closeReturned atomic.Bool
		var proc *queue.Processor[int, *item]
		seen := 0
		var injected atomic.Bool
		var injectedReturned atomic.Bool
		var iwg sync.WaitGroup
		removedAt := map[int]int{}                                                        // item id -> number of runs of it when its removal call returned
		live := map[int]time.Time{1: base.Add(time.Second), 2: base.Add(2 * time.Second)} // item id -> scheduled time, for items that must run
		var runsOf func(id int) int
		var armed atomic.Bool // set once the two initial items are queued: the injected call never overlaps the set-up (an injected Enqueue of key 2 that lands BEFORE the set-up's own Enqueue of key 2 would be replaced by it, which the model does not describe)
		on := func(point string) {
			if !armed.Load() || point != c.Point || injected.Load() {
				return
			}
			mu.Lock()
			seen++
			hit := seen == c.Nth
			mu.Unlock()
			if !hit {
				return
			}
			injected.Store(true)
			done := make(chan struct{})
			iwg.Add(1)
			go func() {
				defer iwg.Done()
				defer close(done)
				now := fake.Now()
				switch c.Inject {
				case "enq-earlier":
					proc.Enqueue(&item{key: 5, due: now.Add(100 * time.Millisecond), id: 50})
					mu.Lock()
					live[50] = now.Add(100 * time.Millisecond)
					mu.Unlock()
				case "enq-due-now":
					proc.Enqueue(&item{key: 5, due: now, id: 50})
					mu.Lock()
					live[50] = now
					mu.Unlock()
				case "enq-same-later":
					proc.Enqueue(&item{key: 1, due: now.Add(3 * time.Second), id: 11})
					mu.Lock()
					removedAt[1] = runsOf(1)
					delete(live, 1)
					live[11] = now.Add(3 * time.Second)
					mu.Unlock()
				case "enq-same-earlier":
					proc.Enqueue(&item{key: 2, due: now.Add(50 * time.Millisecond), id: 21})
					mu.Lock()
					removedAt[2] = runsOf(2)
					delete(live, 2)
					live[21] = now.Add(50 * time.Millisecond)
					mu.Unlock()
				case "deq-head":
					proc.Dequeue(1)
					mu.Lock()
					removedAt[1] = runsOf(1)
					delete(live, 1)
					mu.Unlock()
				case "deq-other":
					proc.Dequeue(2)
					mu.Lock()
					removedAt[2] = runsOf(2)
					delete(live, 2)
					mu.Unlock()
				case "close":
					_ = proc.Close()
					closeReturned.Store(true)
					mu.Lock()
					for id := range live {
						delete(live, id)
					}
					mu.Unlock()
				}
				injectedReturned.Store(true)
			}()
			for i := 0; i < 3000; i++ {
				select {
				case <-done:
					return
				default:
					runtime.Gosched()
				}
			}
		}
		runsOf = func(id int) int { // mu held
			n := 0
			for _, r := range runs {
				if r.id == id {
					n++
				}
			}
			return n
		}
		proc = queue.NewProcessor[int, *item](func(it *item) {
			mu.Lock()
			runs = append(runs, run{it.id, fake.Now(), closeReturned.Load()})
			mu.Unlock()
		}).WithClock(pointClock{fake, on})
		items := map[int]*item{
			1: {key: 1, due: base.Add(time.Second), id: 1}, 2: {key: 2, due: base.Add(2 * time.Second), id: 2},
			50: {key: 5, id: 50}, 11: {key: 1, id: 11}, 21: {key: 2, id: 21},
		}
		proc.Enqueue(items[1])
		proc.Enqueue(items[2])
		synctest.Wait()
		armed.Store(true)
		// at every settled point: whatever is live and whose time the clock has reached has run
		onTime := func(step string) bool {
			if injected.Load() && !injectedReturned.Load() {
				return true // the injected call is still in progress (parked): judged at the end
			}
			mu.Lock()
			defer mu.Unlock()
			now := fake.Now()
			for id, due := range live {
				if !due.After(now) && runsOf(id) == 0 {
					errs.Failf("after %s: item %d is live, the clock passed its time %v ago, nothing is blocked, but it has not been executed", step, id, now.Sub(due))
					return false
				}
			}
			return true
		}
		for i, ms := range c.Steps {
			fake.Step(time.Duration(ms) * time.Millisecond)
			synctest.Wait()
			if !onTime(fmt.Sprintf("step %d (+%dms)", i, ms)) {
				return
			}
		}
		fake.Step(10 * time.Second)
		synctest.Wait()
		fake.Step(10 * time.Second)
		synctest.Wait()
		iwg.Wait()
		fired = injected.Load()
		if fired && !injectedReturned.Load() {
			errs.Failf("the call issued during the loop's clock call %s never returned", c.Point)
			return
		}
		mu.Lock()
		defer mu.Unlock()
		count := map[int]int{}
		for _, r := range runs {
			count[r.id]++
			if r.afterClose {
				errs.Failf("item %d was handed to the callback after Close had returned", r.id)
				return
			}
		}
		for id, n := range count {
			if n > 1 {
				errs.Failf("item %d executed %d times", id, n)
				return
			}
		}
		closed := fired && c.Inject == "close"
		removed := map[int]bool{}
		if fired {
			switch c.Inject {
			case "enq-same-later", "deq-head":
				removed[1] = true
			case "enq-same-earlier", "deq-other":
				removed[2] = true
			}
		}
		for id, before := range removedAt {
			if count[id] > before {
				errs.Failf("item %d was executed after the call that dequeued / replaced it had returned (it had run %d times by then)", id, before)
				return
			}
		}
		if closed {
			return
		}
		// everything live must have run by now (the clock is 20 s past every scheduled time)
		must := []int{1, 2}
		if fired {
			switch c.Inject {
			case "enq-earlier", "enq-due-now":
				must = append(must, 50)
			case "enq-same-later":
				must = append(must, 11)
			case "enq-same-earlier":
				must = append(must, 21)
			}
		}
		for _, id := range must {
			if removed[id] {
				continue
			}
			if count[id] != 1 {
				errs.Failf("item %d is live and the clock is far past its time, but it ran %d times (runs: %v)", id, count[id], runs)
				return
			}
		}
		_ = proc.Close()
	})
	if e := errs.Err(); e != nil {
		return fired, e
	}
	return fired, berr
}

func TestProcessorClockCallPoints(t *testing.T) {
	sec := vk.Sec("ProcessorClockCallPoints")
	points := []string{"Now", "Now", "NewTimer.before", "NewTimer.after", "Stop.before"}
	injects := []string{"enq-earlier", "enq-due-now", "enq-same-later", "enq-same-earlier", "deq-head", "deq-other", "close"}
	vk.Check(t, 3000, 400000, func(rt *rapid.T) {
		c := cpCase{Point: rapid.SampledFrom(points).Draw(rt, "point"), Nth: rapid.IntRange(1, 3).Draw(rt, "nth"), Inject: rapid.SampledFrom(injects).Draw(rt, "inject")}
		n := rapid.IntRange(0, 5).Draw(rt, "nsteps")
		for i := 0; i < n; i++ {
			c.Steps = append(c.Steps, rapid.SampledFrom([]int{1, 400, 500, 999, 1000, 1001, 2000}).Draw(rt, "step"))
		}
		fired, err := runProcClockPoint(t, c)
		if err != nil {
			rt.Fatalf("C06 queue.Processor violated: %v\ncase: %s", err, c)
		}
		cls := "clockpoint.not-reached"
		if fired {
			cls = "clockpoint." + c.Point + "." + c.Inject
		}
		sec.Case(fired, vk.FP(c.String()), cls)
		sec.Sample(func() any { return c.String() })
	})
}
