CFG = dict(
     claimed=True,
     rule="Cases: configuration InitialDelay 2|10|100 ms x MaxDelay = 1|2|3|4|8|10 x InitialDelay x MaxPendingEvents unset|1..4, "
          "histories of up to 30 steps. Exact mode: single Adds and clock advances (to the middle of the window, 1 ns before its "
          "end, past it, 1 ms, a quiet period) with a prompt consumer, compared signal by signal (count and exact virtual instant) "
          "with a reference machine (idle / window with doubling delay / pending / cap). Racy mode: bursts of 1..6 Adds from 1..3 "
          "goroutines at one instant (also exactly at window expiry), optionally with Close or context cancellation issued "
          "concurrently, slow consumer; invariants: signals <= Adds at every settled point, the last Add is followed by a signal "
          "within MaxDelay, after a quiet period the next Add is signalled immediately, Run returns on cancel/Close, Close returns "
          "(else settled snapshot with goroutines parked on the limiter's lock = deadlock), no helper goroutine left at bubble "
          "exit. Plus a deterministic Close-during-burst menu repeated many times. Non-trivial: >= 2 signals and a coalesced burst, "
          "a cap hit, or Close/cancel with Adds in flight. Distinct by history.",
     technique="model-based property testing (rapid; histories in testing/synctest bubbles; exact reference machine for settled timelines, invariants for racing ones; deadlock = stable goroutine-state predicate)",
     level_text="Exact timeline equality against a reference machine where the history is deterministic; order-insensitive "
                "invariants where several goroutines act at one instant (interleavings are the Go scheduler's: statistical).",
     level_note="Trusts testing/synctest, runtime.Stack goroutine states and rapid. An Add exactly at window expiry has no defined "
                "order and is only issued in racy mode.",
     assumptions=["testing/synctest virtual time is correct", "the limiter's default real clock is virtual inside the bubble"],
     timeout_quick=600, timeout_thorough=3000)
CFG["rule"] += ' Added after independently written breaking changes: The pending-events cap is asserted in racy bursts too: once settled, the Adds issued after the most recent signal number fewer than the cap.'
CFG["rule"] += ' MaxDelay = InitialDelay*mul + extra, so the ratio need not be a whole number. TestCoalescingEchoConsumer: the consumer answers every signal with cap Adds at once while the injected clock never moves; when the bubble is quiescent it must have received one signal per answer (non-trivial: every case).'
CFG["rule"] += " TestCloseRightAfterAdd and TestCloseAroundRunStart: Close a few scheduler yields after Add, before Run, racing the start of Run, and again afterwards - census of parked / unstarted limiter goroutines at Close's return, nothing arrives afterwards, every call returns. TestCoalescingParallelCap: k simultaneous Adds (one goroutine each, behind a gate) with cap k and the clock standing still: exactly one signal per round."
