package c15

import (
	"fmt"
	"runtime"
	"testing"
	"time"

	"github.com/dapr/kit/ttlcache"

	"verifharness/vk"
)

// Stop while a periodic pass is under way. The cache holds a few hundred thousand expired entries, so the pass that
// the ticker starts takes milliseconds of real work; Stop is called at the instant of the tick (after 0..400 scheduler
// yields, so that it lands before, at the start of and in the middle of the pass). "Stop returns only after the
// background cleaner has exited": at the instant Stop returns, no goroutine created by the cache may still be inside
// Cleanup (a census of the bubble's goroutines in any state, by creator and frame - no timing involved).
func TestStopDuringPeriodicPass(t *testing.T) {
	sec := vk.Sec("StopDuringPeriodicPass")
	for _, entries := range []int{50000, 300000} {
		for _, procs := range []int{0, 2} {
			name := fmt.Sprintf("stop-during-pass{entries=%d gomaxprocs=%d}", entries, procs)
			var errs vk.Errs
			inFlight := 0
			berr := vk.Bubble(t, name, func() {
				if procs > 0 {
					defer runtime.GOMAXPROCS(runtime.GOMAXPROCS(procs))
				}
				yields := []int{0, 1, 3, 10, 30, 100, 400}
				for round := 0; round < vk.Pick(14, 140); round++ {
					vk.Progress() // one bubble runs all the rounds: tell the watchdog that the case is advancing (a loaded machine needs > 30 s for 70 rounds)
					c := ttlcache.NewCache[int](ttlcache.CacheOptions{CleanupInterval: time.Second, InitialSize: int32(entries)})
					for k := 0; k < entries; k++ {
						c.Set(fmt.Sprint(k), k, 1)
					}
					time.Sleep(time.Second) // the tick and this wake-up are due at the same instant
					for y := 0; y < yields[round%len(yields)]; y++ {
						runtime.Gosched()
					}
					if n, _ := vk.HelpersInside("ttlcache.", ").Cleanup"); n > 0 {
						inFlight++
					}
					// every other round a second Stop call overlaps the first: EVERY Stop call returns only after the cleaner
					// has exited, also the one that finds the cache already being stopped
					second := make(chan string, 1)
					if round%2 == 1 {
						go func() {
							for y := 0; y < yields[(round/2)%len(yields)]; y++ {
								runtime.Gosched()
							}
							c.Stop()
							if n, st := vk.HelpersInside("ttlcache.", ").Cleanup"); n > 0 {
								second <- st
								return
							}
							second <- ""
						}()
					} else {
						second <- ""
					}
					c.Stop()
					if n, st := vk.HelpersInside("ttlcache.", ").Cleanup"); n > 0 {
						errs.Failf("round %d (Stop called %d yields after the tick): Stop returned while a goroutine started by the cache is still inside Cleanup - the background cleaner has not exited:\n%s", round, yields[round%len(yields)], st)
						return
					}
					if st := <-second; st != "" {
						errs.Failf("round %d: a second, overlapping Stop call returned while a goroutine started by the cache is still inside Cleanup - the background cleaner has not exited:\n%s", round, st)
						return
					}
					if n, st := vk.HelpersParked("ttlcache."); n > 0 {
						errs.Failf("round %d: Stop returned while a goroutine of the cache is parked or not started:\n%s", round, st)
						return
					}
				}
			})
			if e := errs.Err(); e != nil {
				t.Fatalf("C15 ttlcache violated: %v\ncase: %s", e, name)
			}
			if berr != nil {
				t.Fatalf("C15 ttlcache violated: %v\ncase: %s", berr, name)
			}
			sec.Case(inFlight > 0, vk.FP(name), "stop-during-pass")
			sec.ClassN("stop-during-pass.stop-called-with-pass-in-flight", int64(inFlight))
			sec.Sample(func() any { return name })
		}
	}
}
