package c15

import (
	"fmt"
	"testing"
	"time"

	"github.com/dapr/kit/ttlcache"

	"verifharness/vk"
)

// Bulk sizes: Cleanup and Reset work on ALL entries at once, so code that walks, batches or pre-sizes by the number of
// entries has boundaries at entry counts no small key universe reaches. For N entries of which the first E carry a short
// TTL: after the short TTL has passed and Cleanup ran, exactly the other N-E keys hit (with their values); after
// Reset every key misses; keys set after the Reset hit again.
func TestBulkSizes(t *testing.T) {
	sec := vk.Sec("BulkSizes")
	sizes := []int{0, 1, 2, 3, 31, 32, 33, 63, 64, 65, 127, 128, 129, 255, 256, 257, 383, 384, 385, 511, 512, 513, 1000, 1023, 1024, 1025}
	if vk.Thorough() {
		for n := 4; n <= 300; n++ {
			sizes = append(sizes, n)
		}
		sizes = append(sizes, 2047, 2048, 2049, 4096, 8191, 8192, 8193)
	}
	idx := 0
	for _, n := range sizes {
		for _, e := range sizes {
			if e > n {
				continue
			}
			if vk.Thorough() && n > 300 && e > 4 && e < n-4 && e%64 > 1 && e%64 < 63 {
				continue // thorough: for big N only E near multiples of 64 and near the ends
			}
			for _, initial := range []int32{0, 8} {
				idx++
				if !vk.Mine(idx) {
					continue
				}
				name := fmt.Sprintf("bulk{entries=%d shortTTL=%d initialSize=%d}", n, e, initial)
				if err := runBulk(t, name, n, e, initial); err != nil {
					t.Fatalf("C15 ttlcache violated: %v\ncase: %s", err, name)
				}
				sec.Case(n >= 2, vk.FP(name), "bulk")
				sec.Sample(func() any { return name })
			}
		}
	}
}

func runBulk(t *testing.T, name string, n, e int, initial int32) error {
	var errs vk.Errs
	berr := vk.Bubble(t, name, func() {
		cache := ttlcache.NewCache[int](ttlcache.CacheOptions{CleanupInterval: time.Hour, InitialSize: initial})
		defer cache.Stop()
		k := func(i int) string {
			if i == 0 {
				return ""
			}
			return fmt.Sprintf("key-%d", i)
		}
		for i := 0; i < n; i++ {
			ttl := int64(100)
			if i < e {
				ttl = 2
			}
			cache.Set(k(i), i+1, ttl)
		}
		check := func(step string, live func(i int) (int, bool)) bool {
			for i := 0; i < n+2; i++ {
				want, ok := live(i)
				got, hit := cache.Get(k(i))
				switch {
				case ok && !hit:
					errs.Failf("after %s: Get(%q) missed but the entry is live (value %d)", step, k(i), want)
					return false
				case ok && got != want:
					errs.Failf("after %s: Get(%q)=%d, the most recent Set wrote %d", step, k(i), got, want)
					return false
				case !ok && hit:
					errs.Failf("after %s: Get(%q)=%d but the key must miss", step, k(i), got)
					return false
				}
			}
			return true
		}
		if !check("filling", func(i int) (int, bool) { return i + 1, i < n }) {
			return
		}
		time.Sleep(2 * time.Second) // the short TTL has passed exactly (expired: strictly less than the TTL must have elapsed)
		if !check("the short TTL passed", func(i int) (int, bool) { return i + 1, i >= e && i < n }) {
			return
		}
		cache.Cleanup()
		if !check("Cleanup", func(i int) (int, bool) { return i + 1, i >= e && i < n }) {
			return
		}
		// overwrite every third live key, delete every fifth
		for i := e; i < n; i++ {
			if i%3 == 0 {
				cache.Set(k(i), -i, 50)
			}
			if i%5 == 0 {
				cache.Delete(k(i))
			}
		}
		after := func(i int) (int, bool) {
			switch {
			case i < e || i >= n || i%5 == 0:
				return 0, false
			case i%3 == 0:
				return -i, true
			}
			return i + 1, true
		}
		cache.Cleanup()
		if !check("overwrites, deletes and a second Cleanup", after) {
			return
		}
		cache.Reset()
		if !check("Reset", func(int) (int, bool) { return 0, false }) {
			return
		}
		for i := 0; i < n; i += 2 {
			cache.Set(k(i), 7*i, 10)
		}
		if !check("refilling every second key", func(i int) (int, bool) { return 7 * i, i < n && i%2 == 0 }) {
			return
		}
		time.Sleep(10 * time.Second)
		cache.Cleanup()
		if !check("everything expired", func(int) (int, bool) { return 0, false }) {
			return
		}
	})
	if e := errs.Err(); e != nil {
		return e
	}
	return berr
}
