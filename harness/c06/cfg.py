CFG = dict(
     claimed=True,
     rule="Cases: histories of up to 25 steps over {Enqueue(key 0..3, due = past | now | +300us | +499us | +500us | +1ms | +10ms | +1s | +5s), "
          "Dequeue(key), clock advance (exactly to / 1ms before / 400us before / 1us after the next due time, or a duration), "
          "arm(schedule point P) which parks the processing loop when it next reaches P (verif-tagged points: after it saw the queue "
          "empty, after a non-empty peek, before arming the timer, after the timer fired, after the pop), resume, block/release of "
          "the callback, Close, group = 2..4 Enqueue/Dequeue on distinct keys from separate goroutines at one instant}, run in a "
          "synctest bubble (virtual clock) against a model of live items; plus the enumeration point x setup x pair-of-operations "
          "run while parked. Oracle: each item at most once; never more than 0.5ms early; never after a Dequeue/replace that "
          "completed before it became due; scheduled-time order among items that were queued; every live item executed once the "
          "clock reached its time and nothing is blocked (catches stranding); Close waits for a blocked callback and nothing runs "
          "after it returned. Non-trivial: >= 2 executions with a replace or dequeue, or operations completed while the loop was "
          "parked at a schedule point. Distinct by history.",
     technique="model-based property testing with owned schedule points (rapid; histories in testing/synctest bubbles; verif-tagged pause points place the context switch)",
     level_text="Generated histories, including the placement of a context switch at each of the loop's decision points, against a "
                "reference model with exact virtual time; the few-instruction windows become ordinary generated inputs that shrink "
                "and replay.",
     level_note="Trusts testing/synctest, rapid, and that the verif hook points (events/queue, build tag verif) sit where the comments "
                "say. Clock jumps are not issued while the loop is parked between computing its wait and arming the timer.",
     assumptions=["testing/synctest virtual time is correct", "hook points are add-only (commit in MANIFEST.hooks)"],
     timeout_quick=300, timeout_thorough=2400)
CFG["rule"] += " Added after independently written breaking changes: Also: a CALLER of Enqueue/Dequeue parked after its stopped-test while a whole Close or another call completes (exhaustive); items due 90 min / 3 h ahead; and an injected fake clock (WithClock) a year away from the bubble's time in settled histories."
CFG["rule"] += ' TestProcessorManyItems: up to 48 keys queued at once, dequeues from the middle and replacements against a map model on the bubble clock (non-trivial: a dequeue of a non-head item with >= 7 queued, or a replacement). TestProcessorTwoLoops: an exiting loop parked at loop.empty and the next loop parked at loop.peeked / loop.beforeTimer, a third call meanwhile, both release orders (exhaustive).'
