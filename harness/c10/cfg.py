CFG = dict(
     claimed=True,
     rule="Cases: interval 2ms|10ms|1s x histories of up to 24 steps over {Batch(key 0..2, fresh value), burst = n rounds of Batch + "
          "advance one interval (n up to 60, i.e. more than the 50-slot internal buffer), Subscribe(prompt reader | manual reader, "
          "channel capacity 0..2), read/drain of a manual subscriber, cancel(subscriber), clock advance (half / one / two "
          "intervals, to the next due instant, 1ms), Close}; then every stalled subscriber leaves with its buffer full, one more "
          "Batch, Close. Run in a synctest bubble. Oracle while nobody exerts backpressure: exact debounce model (last value per key, "
          "due = last Batch + interval, delivered once in due order, never > 0.5ms early and not late, identical sequence for all "
          "subscribers); under backpressure: no duplicates, Batch-call order, nothing early, subscribers agree on the period both "
          "covered; after departures: deliveries, later Batch and Close all complete (else a settled snapshot with goroutines parked "
          "on the batcher's mutex = wedge); after Close every subscriber channel is closed and nothing more arrives. Plus the "
          "enumeration stalled subscriber at every position among 1..3 prompt ones x 53/56/60 outstanding. Non-trivial: a "
          "suppressed value with >= 2 subscribers, or a departure with a full buffer. Distinct by history.",
     technique="model-based property testing (rapid; scripted histories in testing/synctest bubbles; debounce reference model; wedge = stable goroutine-state predicate)",
     level_text="Generated timelines against a reference debounce model with exact virtual time; the wedge is decided as a state "
                "predicate (settled snapshot, goroutines parked on a mutex that nothing present can release).",
     level_note="Trusts testing/synctest, runtime.Stack goroutine states, rapid. Backpressure from a present stalled subscriber is "
                "legal; Close is only issued while a subscriber is stalled when that subscriber is about to leave.",
     assumptions=["testing/synctest and runtime.Stack(all) snapshots are correct", "constant interval, so due order equals Batch-call order"],
     timeout_quick=600, timeout_thorough=3000)
CFG["rule"] += " Added after independently written breaking changes: Also Subscribe calls with several channels (one shared context) and an injected fake clock (WithClock) a year away from the bubble's time."
CFG["rule"] += ' Subscriber contexts are plain cancel contexts, contexts of a foreign type that relays cancellation some scheduler yields late (vk.RelayCtx), or busy parents with 300 other children. loop.empty is one of the processor points of the points sweep.'
CFG["rule"] += (' Bursts (TestBatcherBurst, TestBatcherBurstGrid): 60..300 DISTINCT keys whose quiet interval ends with ONE clock step (all due at one instant, '
                'or at 2 / 5 / as many instants as keys 1us apart; optionally 5 or half of the keys batched twice = suppressed values; optionally 3 / 51 / 55 single '
                'events before, so the buffer is already full), executed back to back, with 1..3 prompt subscribers and 1..2 stalled ones (no reader, channel capacity '
                '0..2) at every position; virtual clock of the bubble or an injected fake clock; GOMAXPROCS default or 1. Each stalled subscriber then either catches up '
                '(reads everything in chunks of 1 / 7 / 50 / all, settling in between) or leaves in the middle of the burst (after reading 0 / 1 / 7 / 60 values; plain, '
                'relaying or busy-parent context) while the delivery is blocked on its full buffer; optionally Close is called right after the last leaver\'s cancel. '
                'Oracle: every subscriber that stayed has each due value exactly once, no suppressed value, nothing > 0.5ms early, in due order; the order among keys due '
                'at the same instant is taken from the first prompt subscriber and every other subscriber that stayed must have exactly the same sequence (what a leaver '
                'had received when its context ended is a prefix of it, the rest in the same relative order); once every stalled subscriber has left or caught up the '
                'settled state has no goroutine parked on the batcher\'s lock (else wedge), the leaver\'s channel is closed, a later Batch is delivered one interval later, '
                'Close returns, all channels are closed, nothing arrives afterwards. With Close in mid-burst: Close returns, all channels closed, what each subscriber had '
                'when Close was called agrees position by position, the rest (in flight at Close: may be dropped one by one) in the same relative order.')
