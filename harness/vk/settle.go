package vk

import (
	"bytes"
	"fmt"
	"os"
	"runtime"
	"sync"
	"syscall"
	"time"
)

// LastDumps keeps the last accepted snapshots (debugging aid, VERIF_DEBUG_DUMP only).
var LastDumps []string

// KeepDumps makes SettleStacks keep the snapshots it accepted (for failure reports).
var KeepDumps bool

var stackBufPool = sync.Pool{New: func() any { b := make([]byte, 1<<20); return &b }}

// Parked describes the goroutines of the caller's bubble at a settled point.
type Parked struct {
	Durable int // blocked on bubble channels / timers / WaitGroups: only the bubble can wake them
	OnMutex int // parked on a sync.Mutex / sync.RWMutex (invisible to synctest.Wait)
	Dump    string
}

// SettleStacks is a quiescence barrier for bubbles in which goroutines may
// legitimately be parked on a sync.Mutex (where synctest.Wait would never
// return): it takes stop-the-world snapshots of all goroutine states until one
// snapshot shows every other goroutine of the caller's bubble blocked (durably
// or on a mutex). Such a state is stable: nothing in it can run, so nothing can
// release a mutex or a channel. It fails after maxTries snapshots.
// realNow is the machine's wall clock in nanoseconds, read through the system call (not through package time, which a
// synctest bubble replaces by its virtual clock).
func realNow() int64 {
	var tv syscall.Timeval
	if err := syscall.Gettimeofday(&tv); err != nil {
		return 0
	}
	return tv.Sec*1e9 + tv.Usec*1e3
}

func SettleStacks() (Parked, error) {
	bp := stackBufPool.Get().(*[]byte)
	defer stackBufPool.Put(bp)
	const maxTries = 20000
	began := realNow() // (inside a bubble the time package is virtual)
	for try := 0; try < maxTries || realNow()-began < 20e9; try++ {
		for i := 0; i < 3+try; i++ {
			runtime.Gosched()
			if i > 50 {
				break
			}
		}
		n := runtime.Stack(*bp, true)
		p, ok := parseSettled((*bp)[:n])
		if ok {
			if KeepDumps || os.Getenv("VERIF_DEBUG_DUMP") != "" {
				p.Dump = string((*bp)[:n])
				LastDumps = append(LastDumps, p.Dump)
				if len(LastDumps) > 3 {
					LastDumps = LastDumps[1:]
				}
			}
			return p, nil
		}
		Progress()
	}
	// Not a verdict about the code under test: some goroutine was running or runnable in every snapshot for at least
	// 20 s (observed once under a load average of 100: a goroutine inside a raw file-system call for that long). Like
	// the watchdog's "no progress but goroutines are runnable", this ends the shard as inconclusive.
	n := runtime.Stack(*bp, true)
	fmt.Printf("VERIF-STUCK: bubble did not settle after %d snapshots and %v (some goroutine keeps running); inconclusive.\n---- stacks ----\n%s\n", maxTries, time.Duration(realNow()-began).Round(time.Second), (*bp)[:n])
	Flush()
	os.Exit(ExitStuck)
	return Parked{}, nil
}

func parseSettled(dump []byte) (Parked, bool) {
	var p Parked
	type g struct {
		state  []byte
		bubble []byte
	}
	var gs []g
	var mine []byte
	first := true
	for len(dump) > 0 {
		i := bytes.IndexByte(dump, '\n')
		var line []byte
		if i < 0 {
			line, dump = dump, nil
		} else {
			line, dump = dump[:i], dump[i+1:]
		}
		if !bytes.HasPrefix(line, []byte("goroutine ")) || !bytes.HasSuffix(line, []byte("]:")) {
			continue
		}
		lb := bytes.IndexByte(line, '[')
		if lb < 0 {
			continue
		}
		inner := line[lb+1 : len(line)-2]
		var bubble []byte
		if k := bytes.Index(inner, []byte("synctest bubble ")); k >= 0 {
			bubble = inner[k+len("synctest bubble "):]
			inner = bytes.TrimSuffix(bytes.TrimSpace(inner[:k]), []byte(","))
		}
		if k := bytes.IndexByte(inner, ','); k >= 0 { // ", 2 minutes"
			inner = inner[:k]
		}
		if first {
			// runtime.Stack prints the calling goroutine first; every other goroutine - also one that is
			// "running" (e.g. inside a raw system call) - is judged below
			first = false
			mine = bubble
			continue
		}
		gs = append(gs, g{state: inner, bubble: bubble})
	}
	if mine == nil {
		return p, false
	}
	for _, x := range gs {
		if x.bubble == nil {
			// A bubble goroutine inside the allocator's GC-assist path is temporarily detached from its
			// bubble by the runtime and shows up untagged, in whatever state that path puts it (GC assist
			// wait, semacquire, runnable, ...). So an untagged goroutine only counts as "not mine" when
			// it is in one of the parked states of the test framework / runtime service goroutines.
			if !idleUntagged(x.state) {
				return p, false
			}
			continue
		}
		if !bytes.Equal(x.bubble, mine) {
			continue
		}
		switch {
		case bytes.HasSuffix(x.state, []byte("(durable)")):
			p.Durable++
		case bytes.HasPrefix(x.state, []byte("sync.Mutex.Lock")), bytes.HasPrefix(x.state, []byte("sync.RWMutex.")):
			p.OnMutex++
		default:
			return p, false
		}
	}
	return p, true
}

var idleUntaggedStates = [][]byte{
	[]byte("chan receive"), []byte("chan send"), []byte("select"), []byte("sleep"), []byte("IO wait"), []byte("syscall"),
	[]byte("GC worker (idle)"), []byte("GC sweep wait"), []byte("GC scavenge wait"), []byte("finalizer wait"), []byte("cleanup wait"),
	[]byte("force gc (idle)"), []byte("trace reader (blocked)"), []byte("sync.WaitGroup.Wait"), []byte("sync.Cond.Wait"),
}

func idleUntagged(state []byte) bool {
	for _, s := range idleUntaggedStates {
		if bytes.Equal(state, s) {
			return true
		}
	}
	return false
}

// HelpersParked takes one snapshot and counts the goroutines of the caller's bubble that were CREATED by code of
// the given package (substring of the "created by" line) and are parked (durably or on a mutex). It is meant to be
// called at the instant a Close/Stop call returns: a helper goroutine that is still parked inside the component
// then has not finished, whereas one that has signalled completion and is merely on its way out is running or
// runnable and is not counted. A goroutine that has been created but has not executed its first instruction yet
// (runnable, program counter at the entry of its function: the frame is printed without a "+0x" offset) has not
// finished either and is counted: a Close/Stop that waits on a counter the helper itself increments misses exactly those.
func unstarted(state, body []byte) bool {
	if !bytes.Equal(state, []byte("runnable")) {
		return false
	}
	lines := bytes.Split(body, []byte("\n"))
	// lines[0] "goroutine N [runnable]:", lines[1] the goroutine's function, lines[2] "\tfile:line" without a "+0x.."
	// offset, lines[3] "created by ...": ONE frame, at its entry. (An inlined leaf frame of a goroutine that is well on
	// its way is also printed without an offset, but as "f(...)" and with more frames below it.)
	return len(lines) >= 4 && bytes.HasPrefix(lines[2], []byte("\t")) && !bytes.Contains(lines[2], []byte(" +0x")) &&
		!bytes.HasSuffix(lines[1], []byte("(...)")) && bytes.HasPrefix(lines[3], []byte("created by "))
}

func HelpersParked(createdBy string) (int, string) { return helpers(createdBy, "") }

// HelpersInside counts the goroutines of the bubble - in ANY state, running ones included - that were created by a
// function whose name contains createdBy and have a frame whose function name contains frame on their stack: helper
// goroutines that are still at work in that function (a goroutine that is merely on its way out, between its last
// signal and its return, has no such frame and is not counted).
func HelpersInside(createdBy, frame string) (int, string) { return helpers(createdBy, frame) }

func helpers(createdBy, frame string) (int, string) {
	bp := stackBufPool.Get().(*[]byte)
	defer stackBufPool.Put(bp)
	n := runtime.Stack(*bp, true)
	dump := (*bp)[:n]
	var mine []byte
	type g struct {
		state, bubble []byte
		body          []byte
	}
	var gs []g
	firstBlk := true
	for _, blk := range bytes.Split(dump, []byte("\n\n")) {
		nl := bytes.IndexByte(blk, '\n')
		if nl < 0 {
			nl = len(blk)
		}
		line := blk[:nl]
		if !bytes.HasPrefix(line, []byte("goroutine ")) || !bytes.HasSuffix(line, []byte("]:")) {
			continue
		}
		lb := bytes.IndexByte(line, '[')
		inner := line[lb+1 : len(line)-2]
		var bubble []byte
		if k := bytes.Index(inner, []byte("synctest bubble ")); k >= 0 {
			bubble = inner[k+len("synctest bubble "):]
			inner = bytes.TrimSuffix(bytes.TrimSpace(inner[:k]), []byte(","))
		}
		if k := bytes.IndexByte(inner, ','); k >= 0 {
			inner = inner[:k]
		}
		if firstBlk {
			firstBlk = false
			mine = bubble
			continue
		}
		gs = append(gs, g{inner, bubble, blk})
	}
	count := 0
	var first string
	for _, x := range gs {
		if mine == nil || !bytes.Equal(x.bubble, mine) {
			continue
		}
		parked := bytes.HasSuffix(x.state, []byte("(durable)")) || bytes.HasPrefix(x.state, []byte("sync.Mutex.Lock")) || bytes.HasPrefix(x.state, []byte("sync.RWMutex."))
		if frame == "" && !parked && !unstarted(x.state, x.body) {
			continue
		}
		if i := bytes.LastIndex(x.body, []byte("created by ")); i >= 0 && bytes.Contains(x.body[i:], []byte(createdBy)) {
			if frame != "" && !bytes.Contains(x.body[:i], []byte(frame)) {
				continue
			}
			count++
			if first == "" {
				first = string(x.body)
			}
		}
	}
	return count, first
}
