package c10

import (
	"context"
	"fmt"
	"strings"
	"sync"
	"testing"
	"testing/synctest"
	"time"

	"github.com/dapr/kit/events/batcher"
	clocktesting "k8s.io/utils/clock/testing"
	"pgregory.net/rapid"

	"verifharness/vk"
)

// Injected clock (Batcher.WithClock): the interval of the statement runs on the batcher's clock. The fake clock is a
// year away from the bubble's (virtual) time, which stands still here. One prompt subscriber; after every step exactly
// the keys whose quiet interval has ended on the fake clock have been delivered, once, with the most recent value.
type fcOp struct {
	Kind string // batch | adv
	Key  int
	Adv  string // interval | half | next | 1ms | 2x
}

type fcCase struct {
	IntervalMS int
	Ops        []fcOp
}

func (c fcCase) String() string {
	var p []string
	for _, o := range c.Ops {
		if o.Kind == "batch" {
			p = append(p, fmt.Sprintf("batch(k%d)", o.Key))
		} else {
			p = append(p, "adv("+o.Adv+")")
		}
	}
	return fmt.Sprintf("batcher.fakeclock{interval=%dms ops=[%s]}", c.IntervalMS, strings.Join(p, " "))
}

func runBatcherFakeClock(t *testing.T, c fcCase) (suppressed bool, err error) {
	var errs vk.Errs
	berr := vk.Bubble(t, c.String(), func() {
		interval := time.Duration(c.IntervalMS) * time.Millisecond
		clk := clocktesting.NewFakeClock(time.Now().Add(365 * 24 * time.Hour))
		b := batcher.New[int, int](interval)
		b.WithClock(clk)
		ctx, cancel := context.WithCancel(context.Background())
		defer cancel()
		ch := make(chan int)
		type rcv struct {
			v  int
			at time.Time
		}
		var mu sync.Mutex
		var got []rcv
		stop := make(chan struct{})
		var wg sync.WaitGroup
		wg.Add(1)
		errs.Go(func() {
			defer wg.Done()
			for {
				select {
				case v, ok := <-ch:
					if !ok {
						return
					}
					mu.Lock()
					got = append(got, rcv{v, clk.Now()})
					mu.Unlock()
				case <-stop:
					return
				}
			}
		})
		b.Subscribe(ctx, ch)
		synctest.Wait()
		type pend struct {
			val int
			due time.Time
		}
		pending := map[int]pend{}
		var want []rcv
		nextVal := 0
		seen := 0
		judge := func(step string) bool {
			synctest.Wait()
			now := clk.Now()
			// everything due by now moves to the expected log, in due order
			for {
				best, found := -1, false
				for k, p := range pending {
					if !p.due.After(now) && (!found || p.due.Before(pending[best].due)) {
						best, found = k, true
					}
				}
				if !found {
					break
				}
				want = append(want, rcv{pending[best].val, pending[best].due})
				delete(pending, best)
			}
			mu.Lock()
			g := append([]rcv(nil), got...)
			mu.Unlock()
			if len(g) != len(want) {
				errs.Failf("after %s: %d deliveries, the quiet intervals that have ended on the batcher's clock call for %d (got %v, want %v)", step, len(g), len(want), fcVals(g), fcVals(want))
				return false
			}
			for ; seen < len(g); seen++ {
				if g[seen].v != want[seen].v {
					// ties on the due instant have no defined order
					if !(seen+1 < len(want) && want[seen].at.Equal(want[seen+1].at)) && !(seen > 0 && want[seen].at.Equal(want[seen-1].at)) {
						errs.Failf("after %s: delivery %d is value %d, want %d (got %v, want %v)", step, seen, g[seen].v, want[seen].v, fcVals(g), fcVals(want))
						return false
					}
				}
			}
			return true
		}
		for n, o := range c.Ops {
			step := fmt.Sprintf("op %d", n)
			switch o.Kind {
			case "batch":
				nextVal++
				if _, ok := pending[o.Key]; ok {
					suppressed = true
				}
				pending[o.Key] = pend{val: o.Key*1000 + nextVal, due: clk.Now().Add(interval)}
				b.Batch(o.Key, o.Key*1000+nextVal)
			case "adv":
				d := interval
				switch o.Adv {
				case "half":
					d = interval / 2
				case "2x":
					d = 2 * interval
				case "1ms":
					d = time.Millisecond
				case "next":
					var next time.Time
					for _, p := range pending {
						if next.IsZero() || p.due.Before(next) {
							next = p.due
						}
					}
					if !next.IsZero() {
						d = next.Sub(clk.Now())
					}
				}
				if d <= 0 {
					d = time.Millisecond
				}
				clk.Step(d)
			}
			if !judge(step) {
				return
			}
		}
		clk.Step(3 * interval)
		if !judge("final advance") {
			return
		}
		b.Close()
		synctest.Wait()
		close(stop)
		wg.Wait()
	})
	if e := errs.Err(); e != nil {
		return suppressed, e
	}
	return suppressed, berr
}

func fcVals[T any](rs []T) string { return fmt.Sprintf("%v", rs) }

func TestBatcherInjectedClock(t *testing.T) {
	sec := vk.Sec("BatcherInjectedClock")
	vk.Check(t, 2500, 400000, func(rt *rapid.T) {
		c := fcCase{IntervalMS: rapid.SampledFrom([]int{2, 10, 100, 5000}).Draw(rt, "interval")}
		n := rapid.IntRange(1, 20).Draw(rt, "nops")
		for i := 0; i < n; i++ {
			if rapid.IntRange(0, 2).Draw(rt, "kind") > 0 {
				c.Ops = append(c.Ops, fcOp{Kind: "batch", Key: rapid.IntRange(0, 2).Draw(rt, "key")})
			} else {
				c.Ops = append(c.Ops, fcOp{Kind: "adv", Adv: rapid.SampledFrom([]string{"interval", "half", "next", "1ms", "2x"}).Draw(rt, "adv")})
			}
		}
		sup, err := runBatcherFakeClock(t, c)
		if err != nil {
			rt.Fatalf("C10 batcher violated: %v\ncase: %s", err, c)
		}
		sec.Case(sup, vk.FP(c.String()), "injected-clock")
		sec.Sample(func() any { return c.String() })
	})
}
