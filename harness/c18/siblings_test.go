package c18

// Several targets in ONE base directory. The statement of C18 is about "the
// target path" of a Dir: at every instant it is absent (before its first
// committed Write) or resolves to exactly the complete file set of a single
// Write call - of ITS OWN Dir. Identities are written next to each other in
// practice (<base>/tls, <base>/sentry-tls), each by its own Dir, and the
// on-disk layout puts the version directories of all of them into the shared
// base directory as <nanoseconds>-<target name>. So every Write of one target -
// every hook point of it, every crash point, every error-return fault and every
// recovery by a fresh Dir - must leave every OTHER target exactly as its own
// last committed Write left it, however the names are related (one a prefix, a
// suffix, a "-"-suffix of the other; one looking like a version directory of
// the other). Only "<target>.new" is reserved by the design for the target's
// own temporary link, so a sibling of that name is never generated.
//
// A case is a script of Writes over 2..3 sibling targets (each step: which
// target, which file set, whether the owner of that target was restarted - a
// fresh Dir - before it) followed by one more Write of every target, plus one
// event: nothing, a crash at (step x hook point), or an error-return fault at
// (step x hook point x kind). All events of a script are enumerated. At every
// hook point of every Write ALL targets are resolved like a concurrent reader
// would. The "only the current version directory remains" clause is judged per
// target: what is left in the base directory besides the links and the version
// directories they point to must be attributable (by name) to a target whose
// Dir was hit by a crash, a fault or a restart (a fresh Dir does not know the
// previous version directory - `prev` is memory only).

import (
	"errors"
	"fmt"
	"os"
	"path/filepath"
	"regexp"
	"sort"
	"strings"
	"testing"

	"pgregory.net/rapid"

	"github.com/dapr/kit/concurrency/dir"

	"verifharness/vk"
)

type sstep struct {
	T     int  // index into shist.Names
	Set   wset // what is written
	Fresh bool // the owner of the target was restarted before this Write: a fresh Dir, the old one dropped
}

type shist struct {
	Nested     bool     // the base directory (two levels) does not exist before the first Write
	Names      []string // 2..3 distinct target names, siblings in one base directory
	Steps      []sstep  // the script; the event (crash / fault) falls into one of these
	Final      []sstep  // afterwards every target is written once more, in this order
	OneProcess bool     // a crash kills every Dir (one process owns all targets), not only the one that was writing
	Keep       bool     // a fault stays in force during the Write that follows the faulted one (whichever target it writes)
	Disk       bool     // scratch directory on disk (not part of the case identity)
}

func stepsString(names []string, st []sstep) string {
	var p []string
	for _, s := range st {
		f := ""
		if s.Fresh {
			f = "(fresh Dir)"
		}
		p = append(p, fmt.Sprintf("%q%s%v", names[s.T], f, s.Set))
	}
	return "[" + strings.Join(p, " ") + "]"
}

func (h shist) String() string {
	base := "existing"
	if h.Nested {
		base = "nested-missing"
	}
	kills := "the-writing-Dir"
	if h.OneProcess {
		kills = "every-Dir"
	}
	s := fmt.Sprintf("siblings{base=%s targets=%q steps=%s final=%s crash-kills=%s", base, h.Names, stepsString(h.Names, h.Steps), stepsString(h.Names, h.Final), kills)
	if h.Keep {
		s += " fault-kept-for-next-write"
	}
	return s + "}"
}

const (
	evNone = iota
	evCrash
	evFault
)

// sevent is the one event of a run: at hook point K of step S (index into shist.Steps).
type sevent struct {
	Kind int
	S, K int
	FK   faultKind
}

func (e sevent) String() string {
	switch e.Kind {
	case evCrash:
		return fmt.Sprintf("crash@s%d@%d", e.S, e.K)
	case evFault:
		return fmt.Sprintf("fault@s%d@%d/%v", e.S, e.K, e.FK)
	}
	return "none"
}

type sres struct {
	points       [][]string // hook point names per Write (Steps then Final), as far as they ran
	evName       string     // name of the hook point of the event
	crashed      bool
	errored      bool // the faulted Write returned an error
	afterRename  bool // ... after its rename had happened
	errno        string
	what         string
	kept         bool // the fault was in force during the next Write too
	keptOther    bool // ... and that Write was one of ANOTHER target
	keptErrored  bool
	sibAtEvent   int  // sibling targets committed when the event happened
	relAtEvent   bool // one of them with a name related to the target being written
	firstRelated bool // a Dir's first Write ran while a sibling with a related name was committed
	restarts     int
	leftovers    int // entries left in the base directory at the end besides links and live version directories (allowed: crash/fault/restart)
}

var versionPrefix = regexp.MustCompile(`[0-9]{19}-`)

// isVersionOf: entry has the form <decimal digits>-<name>, the form of a version directory of target name.
func isVersionOf(entry, name string) bool {
	d, ok := strings.CutSuffix(entry, "-"+name)
	if !ok || d == "" {
		return false
	}
	for _, c := range d {
		if c < '0' || c > '9' {
			return false
		}
	}
	return true
}

// nameRelation classifies how two distinct target names are related ("" = not at all).
func nameRelation(a, b string) string {
	short, long := a, b
	if len(short) > len(long) {
		short, long = long, short
	}
	switch {
	case isVersionOf(long, short):
		return "one-looks-like-a-version-directory-of-the-other"
	case strings.HasSuffix(long, "-"+short):
		return "one-is-a-dash-suffix-of-the-other"
	case strings.HasPrefix(long, short+"-"):
		return "one-is-a-dash-prefix-of-the-other"
	case strings.HasSuffix(long, short):
		return "one-is-a-suffix-of-the-other"
	case strings.HasPrefix(long, short):
		return "one-is-a-prefix-of-the-other"
	case strings.EqualFold(long, short):
		return "equal-up-to-case"
	}
	return ""
}

// reservedClash: the design reserves <target>.new for the temporary link of <target>.
func reservedClash(names []string) bool {
	for _, a := range names {
		for _, b := range names {
			if a == b+".new" {
				return true
			}
		}
	}
	return false
}

// siblingsBaseCheck: the per-target form of "only the current version directory remains". Everything
// in the base directory is the link of a committed target, the version directory such a link points
// to, or something that - by its name - can have been left by a target whose Dir was hit by a crash,
// a fault or a restart (loose).
func siblingsBaseCheck(base string, rs []*runner, loose []bool, where string) error {
	ents, err := os.ReadDir(base)
	if err != nil {
		return vio("base-not-clean-without-crash", "%s: listing the base directory: %v", where, err)
	}
	expected := map[string]bool{}
	for _, r := range rs {
		if r.committed == nil {
			continue
		}
		link, err := os.Readlink(r.target)
		if err != nil {
			return vio("base-not-clean-without-crash", "%s: target %s is not a link to a version directory: %v", where, filepath.Base(r.target), err)
		}
		if filepath.Dir(link) != base {
			return vio("base-not-clean-without-crash", "%s: target %s links to %s, outside its base directory", where, filepath.Base(r.target), link)
		}
		expected[filepath.Base(r.target)] = true
		expected[filepath.Base(link)] = true
	}
	anyLoose := false
	for _, l := range loose {
		anyLoose = anyLoose || l
	}
	var all []string
	for _, e := range ents {
		all = append(all, e.Name())
	}
	for _, e := range ents {
		if expected[e.Name()] {
			continue
		}
		byLoose, byClean := "", ""
		for i, r := range rs {
			nm := filepath.Base(r.target)
			if e.Name() == nm || e.Name() == nm+".new" || isVersionOf(e.Name(), nm) {
				if loose[i] {
					byLoose = nm
				} else if byClean == "" {
					byClean = nm
				}
			}
		}
		if byLoose != "" {
			continue
		}
		if byClean != "" {
			return vio("base-not-clean-without-crash", "%s: the base directory holds [%s]: %s is neither a target link nor the version directory a link points to, and by its name it belongs to target %q, whose Dir saw no crash, no fault and no restart",
				where, strings.Join(all, " "), e.Name(), byClean)
		}
		if !anyLoose {
			return vio("base-not-clean-without-crash", "%s: no crash, fault or restart so far, but the base directory holds [%s]: %s is neither a target link nor the version directory a link points to",
				where, strings.Join(all, " "), e.Name())
		}
	}
	return nil
}

// runSiblings executes h with the one event ev. viol is a violation of C18; herr a problem of the
// harness itself.
func runSiblings(h shist, ev sevent) (res sres, viol error, herr error) {
	if reservedClash(h.Names) {
		return res, nil, fmt.Errorf("generator produced a sibling named <target>.new: %q", h.Names)
	}
	parent := scratchParent(!h.Disk)
	if ev.Kind == evFault {
		if parent = faultScratch(h.Disk); parent == "" {
			return res, nil, errors.New("no scratch location where a directory can be made unmodifiable (immutable flag / chmod)")
		}
	}
	root, err := os.MkdirTemp(parent, fmt.Sprintf("c18-s%02d-", vk.Shard()))
	if err != nil {
		return res, nil, err
	}
	defer os.RemoveAll(root)
	defer unprotectTree(root)
	base := filepath.Join(root, "base")
	if h.Nested {
		base = filepath.Join(root, "x", "y")
	} else if err := os.Mkdir(base, 0o777); err != nil {
		return res, nil, err
	}
	n := len(h.Names)
	rs := make([]*runner, n)
	for i, nm := range h.Names {
		rs[i] = &runner{root: root, base: base, target: filepath.Join(base, nm)}
	}
	for i := range rs {
		for j := range rs {
			if i != j {
				rs[i].siblings = append(rs[i].siblings, rs[j])
			}
		}
	}
	defer func() {
		if viol == nil {
			return
		}
		var v *violation
		if !errors.As(viol, &v) {
			v = &violation{kind: "other", detail: viol.Error()}
		}
		msg := strings.ReplaceAll(v.detail, root, "<scratch>")
		viol = &violation{kind: v.kind, detail: versionPrefix.ReplaceAllString(msg, "<version>-")}
	}()

	ds := make([]*dir.Dir, n) // the Dir that owns each target (nil: none alive)
	wrote := make([]bool, n)  // that Dir has been inside a Write
	loose := make([]bool, n)  // leftovers attributable to the target are allowed from here on
	var lastNano int64        // version directories are named by the clock: strictly increasing over the whole case
	var carried *faultState   // a fault kept in force for the next Write
	crashedYet, faultedYet := false, false
	all := append(append([]sstep(nil), h.Steps...), h.Final...)
	for s, st := range all {
		r, name := rs[st.T], h.Names[st.T]
		if st.Fresh && ds[st.T] != nil && wrote[st.T] {
			// the owner was restarted (no crash): the fresh Dir does not know the current version directory
			ds[st.T], loose[st.T] = nil, true
			res.restarts++
		}
		if ds[st.T] == nil {
			ds[st.T], wrote[st.T] = r.newDir(), false
		}
		sibs, rel := 0, false
		for u, o := range rs {
			if u != st.T && o.committed != nil {
				sibs++
				rel = rel || nameRelation(name, h.Names[u]) != ""
			}
		}
		if !wrote[st.T] && rel {
			res.firstRelated = true
		}
		tag := fmt.Sprintf("%s#%d", name, s)
		who := fmt.Sprintf("write %d of the case (target %q, set %v)", s, name, st.Set)
		crashK := -1
		isEv := ev.Kind != evNone && s == ev.S
		if isEv {
			res.sibAtEvent, res.relAtEvent = sibs, rel
			if ev.Kind == evCrash {
				crashK = ev.K
			} else {
				r.fault = &faultState{armK: ev.K, kind: ev.FK}
			}
		} else if carried != nil {
			carried.armK = -1
			r.fault = carried
			res.kept, res.keptOther = true, st.T != h.Steps[ev.S].T
		}
		carried = nil
		r.lastNano = lastNano
		crashed, pts, werr, v := r.write(ds[st.T], tag, st.Set, crashK)
		lastNano = r.lastNano
		wrote[st.T] = true
		res.points = append(res.points, pts)
		if r.fault != nil && r.fault.herr != nil {
			return res, nil, r.fault.herr
		}
		if v != nil {
			return res, v, nil
		}
		if crashed {
			res.crashed, res.evName, crashedYet = true, pts[len(pts)-1], true
			ds[st.T], loose[st.T] = nil, true
			if h.OneProcess {
				for u := range ds {
					if ds[u] != nil && wrote[u] {
						loose[u] = true
					}
					ds[u] = nil
				}
			}
			if v := r.observe("after the crash at " + ev.String() + " (" + res.evName + ") in " + who); v != nil {
				return res, v, nil
			}
			continue
		}
		if isEv && ev.Kind == evCrash {
			return res, nil, fmt.Errorf("crash point %v not reached: %s passed only %d hook points %v", ev, who, len(pts), pts)
		}
		active := r.fault != nil && r.fault.armed
		if isEv && ev.Kind == evFault {
			if !active {
				return res, nil, fmt.Errorf("fault point %v not reached: %s passed only %d hook points %v", ev, who, len(pts), pts)
			}
			res.evName, res.what = r.fault.armedAt, r.fault.what
			if werr != nil {
				res.errored, res.errno = true, errnoClass(werr)
				res.afterRename = r.committed != nil && r.committed.tag == tag
			}
		} else if active {
			res.keptErrored = werr != nil
		}
		if active {
			loose[st.T], faultedYet = true, true
		}
		ret := "returned nil"
		if werr != nil {
			ret = fmt.Sprintf("returned %q", werr)
		}
		if active {
			ret += " with the fault (" + r.fault.kind.String() + ": " + r.fault.what + ", since " + r.fault.armedAt + ") in force"
		}
		if v := r.observe("after " + who + " " + ret); v != nil {
			return res, v, nil
		}
		if werr != nil && !active {
			switch {
			case crashedYet:
				return res, vio("recovering-write-failed", "after the crash at %v (%s) %s failed: %v", ev, res.evName, who, werr), nil
			case faultedYet:
				return res, vio("write-after-fault-failed", "%s returned %q although no fault is in force any more", who, werr), nil
			}
			return res, vio("write-failed-without-crash", "%s returned %q although no crash and no fault was injected", who, werr), nil
		}
		if werr == nil && (r.committed == nil || r.committed.tag != tag) {
			return res, vio("returned-nil-without-rename", "%s returned nil without passing its rename", who), nil
		}
		if f := r.fault; f != nil {
			r.fault = nil
			if active && isEv && h.Keep && s+1 < len(all) {
				carried = f // stays in force during the next Write
			} else {
				if err := f.disarm(); err != nil {
					return res, nil, fmt.Errorf("removing the fault: %w", err)
				}
				if v := r.observe("after the fault was removed (" + who + ")"); v != nil {
					return res, v, nil
				}
			}
		}
		if werr == nil && carried == nil {
			if v := siblingsBaseCheck(base, rs, loose, "after "+who+" returned nil"); v != nil {
				return res, v, nil
			}
		}
	}
	if ents, err := os.ReadDir(base); err == nil {
		res.leftovers = len(ents) - 2*n
	}
	return res, nil, nil
}

// checkSiblings runs h once without an event (which also yields the hook points of every Write) and
// then once for every crash point of the script and - with faults - once for every (hook point x
// applicable fault kind) of it.
func checkSiblings(h shist, faults bool, sec *vk.Section) *failure {
	fail := func(ev sevent, name string, v error) *failure {
		at := ev.String()
		if name != "" {
			at += " (" + name + ")"
		}
		kind := "harness"
		var vv *violation
		if errors.As(v, &vv) {
			kind = vv.kind
		}
		return &failure{
			full:   fmt.Sprintf("C18 dir.Write with sibling targets in one base directory violated: %v\ncase: %s event=%s", v, h, at),
			stable: fmt.Sprintf("C18 dir.Write with sibling targets in one base directory violated (%s)\ncase: %s", kind, h),
		}
	}
	harness := func(ev sevent, e error) {
		fmt.Printf("C18 harness error (inconclusive): %v\ncase: %s event=%s\n", e, h, ev)
		vk.Flush()
		os.Exit(2)
	}
	var nameCls []string
	for i, a := range h.Names {
		for _, b := range h.Names[i+1:] {
			if rel := nameRelation(a, b); rel != "" {
				nameCls = append(nameCls, "names:"+rel)
			} else {
				nameCls = append(nameCls, "names:unrelated")
			}
		}
	}
	sort.Strings(nameCls)
	nameCls = append(nameCls, fmt.Sprintf("targets-in-one-base:%d", len(h.Names)))
	if h.Nested {
		nameCls = append(nameCls, "base-missing-before-first-write")
	}
	classes := func(res sres, extra ...string) []string {
		cls := append(append([]string(nil), nameCls...), extra...)
		if res.firstRelated {
			cls = append(cls, "first-write-of-a-Dir-while-a-related-sibling-is-committed")
		}
		if res.restarts > 0 {
			cls = append(cls, "owner-restarted-without-crash(fresh-Dir)")
		}
		if res.leftovers > 0 {
			cls = append(cls, "stale-entries-at-the-end(allowed:crash/fault/restart)")
		}
		return cls
	}
	base, v, herr := runSiblings(h, sevent{})
	if herr != nil {
		harness(sevent{}, herr)
	}
	if v != nil {
		return fail(sevent{}, "", v)
	}
	// non-trivial run without an event: a Dir made its first Write while a sibling with a related name was committed
	sec.Case(base.firstRelated, vk.FP(h.String(), "none"), classes(base, "run.no-event", "scratch:"+scratchParent(!h.Disk))...)
	sec.Sample(func() any { return h.String() + " event=none" })
	for s := range h.Steps {
		pts := base.points[s]
		for k := range pts {
			ev := sevent{Kind: evCrash, S: s, K: k}
			res, v, herr := runSiblings(h, ev)
			if herr != nil {
				if _, statErr := os.Stat(os.TempDir()); statErr != nil {
					harness(ev, herr)
				}
				return fail(ev, pts[k], fmt.Errorf("harness: %v", herr))
			}
			if v != nil {
				return fail(ev, pts[k], v)
			}
			// non-trivial: the crash is strictly inside a Write, and at least one sibling target was
			// committed at that moment (there is a state of another target to preserve)
			nontrivial := k > 0 && k < len(pts)-1 && res.sibAtEvent > 0
			cls := classes(res, "run.crash", "crash-at:"+res.evName)
			if res.sibAtEvent > 0 {
				cls = append(cls, "crash-while-sibling-committed")
			}
			if res.relAtEvent {
				cls = append(cls, "crash-while-related-sibling-committed")
			}
			if h.OneProcess {
				cls = append(cls, "crash-kills-every-Dir")
			} else {
				cls = append(cls, "crash-kills-the-writing-Dir-only")
			}
			sec.Case(nontrivial, vk.FP(h.String(), ev.String()), cls...)
			sec.Sample(func() any { return fmt.Sprintf("%s event=%s (%s)", h, ev, res.evName) })
			if !faults {
				continue
			}
			for _, kind := range faultKindsAt(history{Nested: h.Nested}, s, pts, k) {
				ev := sevent{Kind: evFault, S: s, K: k, FK: kind}
				res, v, herr := runSiblings(h, ev)
				if herr != nil {
					harness(ev, herr)
				}
				if v != nil {
					return fail(ev, pts[k], v)
				}
				// non-trivial: the fault made the Write return an error while a sibling target was committed
				nontrivial := res.errored && res.sibAtEvent > 0
				cls := classes(res, "run.fault", "fault:"+kind.String(), "fault-armed-at:"+pts[k]+"/"+kind.String(), "scratch:"+faultScratch(h.Disk))
				if res.errored {
					cls = append(cls, "write-returned-error", "write-returned:"+res.errno)
					if res.afterRename {
						cls = append(cls, "error-returned-after-the-rename(target-already-switched)")
					}
				} else {
					cls = append(cls, "fault-did-not-bite(write-succeeded)")
				}
				if res.sibAtEvent > 0 {
					cls = append(cls, "fault-while-sibling-committed")
				}
				if res.relAtEvent {
					cls = append(cls, "fault-while-related-sibling-committed")
				}
				if res.kept {
					cls = append(cls, "fault-kept-during-next-write")
					if res.keptOther {
						cls = append(cls, "fault-kept-during-next-write-of-ANOTHER-target")
					}
					if res.keptErrored {
						cls = append(cls, "next-write-under-kept-fault-returned-error")
					}
				}
				sec.Case(nontrivial, vk.FP(h.String(), ev.String()), cls...)
				sec.Sample(func() any {
					return fmt.Sprintf("%s event=%s (%s; %s) errored=%v", h, ev, pts[k], res.what, res.errored)
				})
			}
		}
	}
	return nil
}

// How a sibling name is derived from a name already in the case.
var nameRelations = []struct {
	class string
	f     func(x string) string
}{
	{"dash-suffix", func(x string) string { return "sentry-" + x }},
	{"dash-suffix-twice", func(x string) string { return "a-b-" + x }},
	{"dash-prefix", func(x string) string { return x + "-sentry" }},
	{"suffix", func(x string) string { return "x" + x }},
	{"prefix", func(x string) string { return x + "x" }},
	{"extension", func(x string) string { return x + ".old" }},
	{"version-directory-like", func(x string) string { return "17000000000000000-" + x }},
	{"version-directory-like-short", func(x string) string { return "0-" + x }},
	{"leading-dash", func(x string) string { return "-" + x }},
	{"trailing-dash", func(x string) string { return x + "-" }},
	{"glob-characters", func(x string) string { return "*-" + x }},
	{"glob-characters-after", func(x string) string { return x + "*" }},
	{"upper-case", strings.ToUpper},
	{"cut-last-byte", func(x string) string {
		if len(x) > 1 {
			return x[:len(x)-1]
		}
		return x + x
	}},
	{"part-after-first-dash", func(x string) string {
		if i := strings.Index(x, "-"); i >= 0 && i+1 < len(x) {
			return x[i+1:]
		}
		return "id-" + x
	}},
	{"new-of-a-stranger", func(string) string { return "zz.new" }},
	{"unrelated", func(string) string { return "other" }},
}

var nameStems = []string{"tls", "s", "id.d", "0", "my-certs"}

func genSiblingNames(rt *rapid.T) []string {
	n := rapid.SampledFrom([]int{2, 2, 3}).Draw(rt, "targets")
	names := []string{rapid.SampledFrom(nameStems).Draw(rt, "stem")}
	for len(names) < n {
		i := len(names)
		from := names[rapid.IntRange(0, i-1).Draw(rt, fmt.Sprintf("name%d.from", i))]
		rel := rapid.IntRange(0, len(nameRelations)-1).Draw(rt, fmt.Sprintf("name%d.relation", i))
		nm := nameRelations[rel].f(from)
		ok := len(nm) <= 100
		for _, o := range names {
			ok = ok && o != nm
		}
		if !ok || reservedClash(append(append([]string(nil), names...), nm)) {
			nm = fmt.Sprintf("other%d", i)
		}
		names = append(names, nm)
	}
	// which of them is written first must not depend on who was derived from whom
	return rapid.Permutation(names).Draw(rt, "order")
}

var sibNames = []string{"a", "b", "c"}

func genSibSet(rt *rapid.T, label string) wset {
	mask := rapid.IntRange(0, 7).Draw(rt, label+".names")
	var ws wset
	for i, n := range sibNames {
		if mask&(1<<i) != 0 {
			ws = append(ws, fent{Name: n, Len: rapid.SampledFrom([]int{8, 8, 100, 0, -1}).Draw(rt, label+".len."+n)})
		}
	}
	return ws
}

func genSiblings(rt *rapid.T) shist {
	h := shist{Names: genSiblingNames(rt)}
	h.Nested = rapid.Bool().Draw(rt, "nested")
	h.OneProcess = rapid.Bool().Draw(rt, "crashKillsEveryDir")
	h.Keep = rapid.Bool().Draw(rt, "faultKeptForNextWrite")
	h.Disk = rapid.IntRange(0, 7).Draw(rt, "disk") == 0
	ns := rapid.IntRange(2, 5).Draw(rt, "steps")
	written := make([]bool, len(h.Names))
	for i := 0; i < ns; i++ {
		l := fmt.Sprintf("s%d", i)
		st := sstep{
			T:     rapid.IntRange(0, len(h.Names)-1).Draw(rt, l+".target"),
			Set:   genSibSet(rt, l),
			Fresh: rapid.IntRange(0, 2).Draw(rt, l+".restartBefore") == 2,
		}
		// a restart before the first Write of a target is no restart (one encoding per case)
		st.Fresh = st.Fresh && written[st.T]
		written[st.T] = true
		h.Steps = append(h.Steps, st)
	}
	idx := make([]int, len(h.Names))
	for i := range idx {
		idx[i] = i
	}
	for i, t := range rapid.Permutation(idx).Draw(rt, "finalOrder") {
		l := fmt.Sprintf("f%d", i)
		h.Final = append(h.Final, sstep{T: t, Set: genSibSet(rt, l), Fresh: rapid.Bool().Draw(rt, l+".restartBefore") && written[t]})
	}
	return h
}

// TestSiblingHistories: rapid draws the target names and the script; every crash point and every
// (hook point x fault kind) of the script is enumerated.
func TestSiblingHistories(t *testing.T) {
	sec := vk.Sec("SiblingHistories")
	vk.Check(t, 40, 3000, func(rt *rapid.T) {
		h := genSiblings(rt)
		if f := checkSiblings(h, true, sec); f != nil {
			rt.Logf("%s", f.full)
			rt.Fatalf("%s", f.stable)
		}
	})
}

// the name pairs of the sweep: every relation of nameRelations applied to the stem "tls", plus the
// pair of the identities the package is used for
func sweepNames() []string {
	out := []string{"tls"}
	seen := map[string]bool{"tls": true}
	for _, r := range nameRelations {
		if nm := r.f("tls"); !seen[nm] {
			seen[nm] = true
			out = append(out, nm)
		}
	}
	return out
}

// TestSiblingSweep enumerates a small finite space completely: every ORDERED pair (A, B) of the
// sweep names (the stem and every relation applied to it) that contains the stem, on an existing
// base directory (thorough: also on a missing one, and every ordered pair of all sweep names) x
// the script A{a} B{a,b} A{b} B(fresh Dir){} A(fresh Dir){a}, then B{b} A(fresh Dir){a,b} x no
// event and every crash point of the script, the crash killing the writing Dir only (thorough: and
// killing every Dir).
func TestSiblingSweep(t *testing.T) {
	sec := vk.Sec("SiblingSweep")
	names := sweepNames()
	a, b, ab := wset{{"a", 8}}, wset{{"b", 8}}, wset{{"a", 8}, {"b", 8}}
	idx := 0
	for _, nested := range []bool{false, true} {
		if nested && !vk.Thorough() {
			continue
		}
		for i, na := range names {
			for j, nb := range names {
				if i == j || reservedClash([]string{na, nb}) {
					continue
				}
				if !vk.Thorough() && i != 0 && j != 0 {
					continue
				}
				for _, one := range []bool{false, true} {
					if one && !vk.Thorough() {
						continue
					}
					idx++
					if !vk.Mine(idx) {
						continue
					}
					h := shist{Nested: nested, Names: []string{na, nb}, OneProcess: one,
						Steps: []sstep{{0, a, false}, {1, ab, false}, {0, b, false}, {1, wset{}, true}, {0, a, true}},
						Final: []sstep{{1, b, false}, {0, ab, true}}}
					if f := checkSiblings(h, false, sec); f != nil {
						t.Fatalf("%s", f.full)
					}
				}
			}
		}
	}
	sec.SetExhaustive()
}
