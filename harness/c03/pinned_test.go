package c03

import (
	"testing"

	"verifharness/vk"
)

// TestPinnedFindings re-runs the minimal cases of the defects this check found on
// the tree as it was pinned (all repaired by "fix:" commits, see KNOWN_FINDINGS.txt).
// They fail the check if a defect returns.
func TestPinnedFindings(t *testing.T) {
	sec := vk.Sec("PinnedFindings")
	if vk.Shard() != 0 {
		return // deterministic and tiny: one shard runs them
	}
	// crypto.Encrypt / crypto.Decrypt answered ErrUnsupportedAlgorithm for the listed NOPAD algorithms
	for _, alg := range []string{"A128CBC-NOPAD", "A192CBC-NOPAD", "A256CBC-NOPAD"} {
		runSym(t, sec, symCase{API: "generic", Alg: alg, KeyKind: "oct", KeyLen: map[string]int{"A128CBC-NOPAD": 16, "A192CBC-NOPAD": 24, "A256CBC-NOPAD": 32}[alg], NonceLen: 16, PtLen: 16})
	}
	// aeskw: panics on short input and on the bare initial value, trailing bytes ignored, Wrap of < 2 blocks
	for _, c := range []kwCase{
		{KekLen: 16, PtLen: -1, RawLen: 0}, {KekLen: 16, PtLen: -1, RawLen: 7}, {KekLen: 16, PtLen: -1, RawLen: 8, RawIV: true}, {KekLen: 16, PtLen: -1, RawLen: 15, RawIV: true},
		{KekLen: 16, PtLen: 0}, {KekLen: 16, PtLen: 8},
		{KekLen: 16, PtLen: 16, Mut: &mutation{Comp: "ct", Kind: "ext", N: 1}}, {KekLen: 32, PtLen: 32, Mut: &mutation{Comp: "ct", Kind: "ext", N: 7}},
	} {
		msg, st := checkKW(c)
		if msg != "" {
			t.Fatalf("C03 key wrap violated: %s\ncase: %s", msg, c)
		}
		sec.Case(st.nontrivial, c.fp(), st.classes...)
	}
	runSym(t, sec, symCase{API: "sym", Alg: "A128KW", KeyKind: "oct", KeyLen: 16, PtLen: 0})
	runSym(t, sec, symCase{API: "sym", Alg: "A128KW", KeyKind: "oct", KeyLen: 16, PtLen: 16, Mut: &mutation{Comp: "ct", Kind: "trunc", N: 17}})
	// ECDSA algorithms accepted keys on any curve
	for _, c := range []sigCase{
		{Alg: "ES384", SignKey: "p256", VerifyKey: "p384"}, {Alg: "ES256", SignKey: "p384", VerifyKey: "p256.pub"}, {Alg: "ES256", SignKey: "p256", VerifyKey: "p384.pub"}, {Alg: "ES512", SignKey: "p521", VerifyKey: "p256.pub"},
	} {
		msg, st := checkSig(c)
		if msg != "" {
			t.Fatalf("C03 signature violated: %s\ncase: %s", msg, c)
		}
		sec.Case(st.nontrivial, c.fp(), st.classes...)
	}
}
