CFG = dict(
     claimed=True,
     rule="Cases: cache options (MaxTTL 0|2|5, CleanupInterval 1|3|7 s|default, InitialSize 0|1|8) x histories of up to 24 "
          "operations over 10 keys {Set(key, ttl 1..8), Get, Delete, Cleanup, Reset, advance to 1 ns before / exactly at / 1 ns "
          "after the next expiry or by a duration, group = 2..4 goroutines issuing 1..4 ops each at one virtual instant}, run in a "
          "synctest bubble on the cache's default (virtual) clock with the periodic cleaner really ticking; after every step a "
          "sweep reads ALL keys and compares with a reference map of (value, expiry). Exhaustive grid ttl x MaxTTL x boundary "
          "offset. Non-trivial: history with both hits and misses and an overwrite, a boundary advance, a cleanup that removed "
          "something next to live entries, or a concurrent group. Distinct by the full history.",
     technique="model-based property testing (rapid, scripted histories in testing/synctest bubbles, reference map with expiries) + exhaustive boundary grid",
     level_text="Generated histories against a reference model, exact after every settled step; concurrent groups are judged by the "
                "set of outcomes any order of the group's writes allows (plus the documented cleanup/refresh race). Interleavings "
                "inside a group are the Go scheduler's (statistical).",
     level_note="Trusts testing/synctest virtual time, the Go runtime and rapid; the cache's unexported clock option is not needed "
                "because the default real clock is virtual inside a bubble.",
     assumptions=["testing/synctest virtual time and Wait() are correct", "ttl > 0 (ttl <= 0 is a documented programmer-misuse panic)"],
     timeout_quick=300, timeout_thorough=2400)
CFG["rule"] += ' Added after independently written breaking changes: Bulk sizes: entry counts around powers of two (to 1025; thorough to 8193) with every split of short/long TTLs through Cleanup, Delete and Reset.'
CFG["rule"] += " TestStopDuringPeriodicPass: Stop called at the instant of a tick over 50k-300k expired entries; at Stop's return no goroutine started by the cache may still be inside Cleanup (census by creator and frame; non-trivial: Stop was called with a pass in flight)."
CFG["rule"] += (" Option values at and beyond the documented boundaries (the model follows the documentation: MaxTTL caps only 'if greater than 0'): "
                "MaxTTL in {MinInt64, -3600, -2, -1, 0, 1, 2, 5, around the number of seconds a Duration holds, MaxInt64}, CleanupInterval in {MinInt64, negative, 0 = default, "
                "250 ms .. 7 s, 1 h, MaxInt64}, InitialSize in {MinInt32, negative, 0, 1, 8, 4096} drawn for every generated history, and TestOptionBoundaries: the complete grid "
                "of those values x ttl {1, 2, 3, 10, around the Duration limit, MaxInt64} x advance to 1 ns before / at / 1 ns after the expiry, with Cleanup at each stop (classes option.*). "
                "The cache stays usable after Stop (only the background cleaner ends): every second history has a Stop at a drawn position and goes on with Set/Get/Delete/Cleanup/Reset/"
                "advances/groups under the same reference map; a group may contain a Stop (classes operations-after-Stop, group-after-Stop, Stop-inside-concurrent-group); "
                "TestBulkConcurrent runs a third of its cases on a stopped cache. "
                "TestSameKeyRace (real threads in a bubble, virtual clock standing still during the race): 64..4000 keys in every state (1 s entry still live / exactly expired / expired "
                "and not cleaned / cleaned, long entry, absent), Stop never / before / after the ageing, 1..3 setters walking over their own keys (Set once or twice, then Get) while 1..4 "
                "getters read exactly the key a setter has announced it is writing (plus untouched bystanders), optionally a goroutine calling Cleanup all the time. Oracle without "
                "timing: a Get by the goroutine whose Set of that key has returned hits with that value (nobody deletes or resets, no TTL passes); the same for all keys after the join; "
                "a getter's hit is a value Set in the race or the unexpired old one; the only accepted loss is the documented cleanup/refresh race (concurrent Cleanup and an expired old entry); "
                "afterwards 1 ns before / at the new expiry. Non-trivial: at least one key with an expired old entry was Set under reading.")
