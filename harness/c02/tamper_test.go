package c02

import (
	"bytes"
	"fmt"
	"sort"
	"strings"
	"testing"

	"pgregory.net/rapid"

	"verifharness/enckit"
	"verifharness/refenc"
	"verifharness/vk"
)

// tcase is one generated case of C02.
type tcase struct {
	Doc        docSpec
	Muts       []mutation
	Run        runSpec
	FaultClass string // none|inHeader|afterHeader|midPayload|segBoundary|atEnd|any
	FaultSel   int
}

func (c tcase) String() string {
	ms := make([]string, len(c.Muts))
	for i, m := range c.Muts {
		ms[i] = m.String()
	}
	return fmt.Sprintf("c02{%s muts=[%s] fault=%s/%d %s}", c.Doc, strings.Join(ms, " "), c.FaultClass, c.FaultSel, c.Run)
}

// resolveFault turns the fault class into the absolute offset at which the
// source starts failing (relative to the MUTATED document).
func resolveFault(d *baseDoc, mutated []byte, class string, sel int) int {
	n := len(mutated)
	switch class {
	case "none":
		return -1
	case "inHeader":
		return sel % (min(d.H(), n) + 1)
	case "afterHeader":
		return min(d.H(), n)
	case "atEnd":
		return n
	case "segBoundary":
		if n > d.H() {
			k := (n - d.H() + refenc.SealedSize - 1) / refenc.SealedSize
			return min(n, d.H()+refenc.SealedSize*(sel%(k+1)))
		}
		return n
	case "midPayload":
		if n > d.H() {
			return d.H() + sel%(n-d.H())
		}
		return n
	}
	return sel % (n + 1)
}

var lenClasses = []struct {
	name string
	gen  func(rt *rapid.T) int
}{
	{"0", func(*rapid.T) int { return 0 }},
	{"small", func(rt *rapid.T) int { return rapid.IntRange(1, 300).Draw(rt, "small") }},
	{"1seg", func(*rapid.T) int { return refenc.SegmentSize }},
	{"1seg+1", func(*rapid.T) int { return refenc.SegmentSize + 1 }},
	{"2seg", func(*rapid.T) int { return 2 * refenc.SegmentSize }},
	{"2.5seg", func(*rapid.T) int { return 2*refenc.SegmentSize + refenc.SegmentSize/2 }},
}

func genConsumer(rt *rapid.T) []int {
	switch rapid.IntRange(0, 3).Draw(rt, "cons.kind") {
	case 0, 1:
		return nil
	case 2:
		return []int{-1}
	}
	return rapid.SliceOfN(rapid.SampledFrom([]int{7, 512, 4096, refenc.SegmentSize - 1, refenc.SegmentSize, refenc.SegmentSize + 1, 100000}), 1, 3).Draw(rt, "cons.sizes")
}

func genCase(rt *rapid.T) tcase {
	lc := rapid.IntRange(0, len(lenClasses)-1).Draw(rt, "lenClass")
	c := tcase{Run: runSpec{FailAt: -1}, Doc: docSpec{Len: lenClasses[lc].gen(rt), Seed: rapid.Uint64().Draw(rt, "seed"), Cipher: rapid.IntRange(1, 2).Draw(rt, "cipher"), ByKit: rapid.Bool().Draw(rt, "byKit")}}
	nseg := (c.Doc.Len + refenc.SegmentSize - 1) / refenc.SegmentSize
	nm := rapid.SampledFrom([]int{0, 1, 1, 1, 1, 2, 2, 3}).Draw(rt, "nMut")
	for i := 0; i < nm; i++ {
		c.Muts = append(c.Muts, genMutation(rt, nseg))
	}
	c.Run.Unwrap.Mode = rapid.SampledFrom([]int{unwrapGood, unwrapGood, unwrapGood, unwrapGood, unwrapOtherKey, unwrapBadLen, unwrapError, unwrapErrZeroKey, unwrapErrOtherKey}).Draw(rt, "unwrap")
	if c.Run.Unwrap.Mode == unwrapBadLen {
		c.Run.Unwrap.Len = rapid.SampledFrom([]int{0, 16, 31, 33, 64}).Draw(rt, "unwrapLen")
	}
	c.FaultClass = rapid.SampledFrom([]string{"none", "none", "none", "none", "inHeader", "afterHeader", "midPayload", "segBoundary", "atEnd", "any"}).Draw(rt, "fault")
	if c.FaultClass != "none" {
		c.FaultSel = rapid.IntRange(0, 1<<20).Draw(rt, "faultSel")
		c.Run.FailWith = rapid.Bool().Draw(rt, "failWith")
		c.Run.FailErr = rapid.IntRange(0, len(vk.FaultErrors)-1).Draw(rt, "failErr")
		c.Run.FailOnce = rapid.Bool().Draw(rt, "failOnce")
	}
	c.Run.Src = vk.GenChunks(rt, "src", 140000)
	c.Run.EOFWith = rapid.Bool().Draw(rt, "eofWith")
	c.Run.Cons = genConsumer(rt)
	return c
}

// runCase builds the document, mutates it, runs Decrypt and judges. It returns
// the failure ("" if none) and the bookkeeping for the evidence.
type outcome struct {
	what, detail string
	excluded     bool
	nontrivial   bool
	fp           uint64
	classes      []string
	describe     string
}

func runCase(c tcase) outcome {
	d, err := c.Doc.build()
	if err != nil {
		return outcome{what: "harness (document construction)", detail: err.Error()}
	}
	a := applyAll(d, c.Muts)
	r := c.Run
	r.FailAt = resolveFault(d, a.cur, c.FaultClass, c.FaultSel)
	mutated := !bytes.Equal(a.cur, d.all)
	fault := r.FailAt >= 0
	if !fault && inKnownClass(d, a.cur, r.Unwrap) {
		return outcome{excluded: true, describe: a.describe()}
	}
	// soundness guard: a document whose header verifies under a key that the unwrap function
	// really hands out for it is a legitimately (re-)encrypted document, not a tampered one
	if mutated {
		if sp, e := refenc.Split(a.cur, false); e == nil {
			if k := r.Unwrap.yields(sp.Manifest.WFK); k != nil && !bytes.Equal(k, d.fileKey) && sp.VerifyMAC(k) == nil {
				return outcome{excluded: true, describe: "unsound: re-keyed under a key the vault yields"}
			}
		}
	}
	journal := c.String() + " => " + a.describe()
	what, detail, outLen, rejectedBy := judge(journal, d, a.cur, a.validHdrs, r)
	o := outcome{what: what, detail: detail, describe: fmt.Sprintf("%s; failAt=%d; released=%d rejectedBy=%q", a.describe(), r.FailAt, outLen, rejectedBy)}
	lenClass := enckit.SegClass(c.Doc.Len)
	o.nontrivial = (mutated && c.Doc.Len > 0) || (fault && r.FailAt < len(a.cur))
	kinds := append([]string{}, a.classes...)
	sort.Strings(kinds)
	o.fp = vk.FP(lenClass, c.Doc.Cipher, c.Doc.ByKit, strings.Join(kinds, ","), c.FaultClass, r.Unwrap.String())
	o.classes = append(o.classes, lenClass, fmt.Sprintf("cipher.%d", c.Doc.Cipher), r.Unwrap.String())
	o.classes = append(o.classes, a.classes...)
	if c.Doc.ByKit {
		o.classes = append(o.classes, "doc.by-kit")
	} else {
		o.classes = append(o.classes, "doc.by-reference")
	}
	if fault {
		o.classes = append(o.classes, "fault."+c.FaultClass)
	}
	if !mutated && !fault && r.Unwrap.Mode == unwrapGood {
		o.classes = append(o.classes, "unchanged")
	}
	switch rejectedBy {
	case "Decrypt":
		o.classes = append(o.classes, "rejected.by-Decrypt")
	case "stream":
		if outLen > 0 {
			o.classes = append(o.classes, "rejected.by-stream-after-prefix")
		} else {
			o.classes = append(o.classes, "rejected.by-stream-at-once")
		}
	default:
		o.classes = append(o.classes, "accepted.exact-plaintext")
	}
	return o
}

// TestTamperRapid: valid documents x 0-3 mutations x unwrap behaviours x source faults x read scripts.
func TestTamperRapid(t *testing.T) {
	sec := vk.Sec("TamperRapid")
	vk.Check(t, 30000, 2400000, tamperProp(sec))
}

// FuzzTamper drives the same property with Go's coverage-guided fuzzer (the fuzz input is rapid's bit stream): thorough tier.
func FuzzTamper(f *testing.F) {
	f.Fuzz(rapid.MakeFuzz(tamperProp(vk.Sec("FuzzTamper"))))
}

func tamperProp(sec *vk.Section) func(rt *rapid.T) {
	return func(rt *rapid.T) {
		c := genCase(rt)
		o := runCase(c)
		if o.excluded {
			if strings.HasPrefix(o.describe, "unsound") {
				sec.Class("skipped.unsound-rekeyed")
			} else {
				sec.Exclude(sigTruncHeader)
			}
			return
		}
		if o.what != "" {
			rt.Fatalf("C02 %s violated: %s\ncase: %s\napplied: %s", o.what, o.detail, c, o.describe)
		}
		sec.Case(o.nontrivial, o.fp, o.classes...)
		sec.Sample(func() any { return c.String() + " => " + o.describe })
	}
}

// ---------------------------------------------------------------------------
// deterministic sweeps

func smallDocs() []docSpec {
	return []docSpec{
		{Len: 0, Seed: 11, Cipher: refenc.CipherAESGCM},
		{Len: 11, Seed: 12, Cipher: refenc.CipherChaCha20},
		{Len: 40, Seed: 13, Cipher: refenc.CipherAESGCM, ByKit: true},
	}
}

func sweepOne(t *testing.T, sec *vk.Section, spec docSpec, d *baseDoc, mutated []byte, r runSpec, class, desc string) {
	t.Helper()
	if r.FailAt < 0 && inKnownClass(d, mutated, r.Unwrap) {
		sec.Exclude(sigTruncHeader)
		return
	}
	what, detail, _, rejectedBy := judge(spec.String()+" "+desc, d, mutated, [][]byte{d.header}, r)
	if what != "" {
		t.Fatalf("C02 %s violated: %s\ncase: %s %s %s", what, detail, spec, desc, r)
	}
	nt := (!bytes.Equal(mutated, d.all) && spec.Len > 0) || (r.FailAt >= 0 && r.FailAt < len(mutated))
	sec.Case(nt, vk.FP(spec.String(), desc, r.String()), class, "rejected."+rejectedBy)
	sec.Sample(func() any { return spec.String() + " " + desc + " " + r.String() })
}

// TestFlipSweepSmall: every single-bit flip of three small documents (complete enumeration).
func TestFlipSweepSmall(t *testing.T) {
	sec := vk.Sec("FlipSweepSmall")
	idx := 0
	for _, spec := range smallDocs() {
		d, err := spec.build()
		if err != nil {
			t.Fatalf("C02 harness: %v", err)
		}
		for pos := 0; pos < len(d.all); pos++ {
			for bit := 0; bit < 8; bit++ {
				idx++
				if !vk.Mine(idx) {
					continue
				}
				m := bytes.Clone(d.all)
				m[pos] ^= 1 << bit
				cls := "flip.header"
				if pos >= d.H() {
					cls = "flip.payload"
				}
				sweepOne(t, sec, spec, d, m, runSpec{FailAt: -1}, cls, fmt.Sprintf("flip bit %d of byte %d", bit, pos))
			}
		}
	}
	sec.SetExhaustive()
}

// TestTruncSweepSmall: truncation at every offset of three small documents (complete
// enumeration; the header-only cut of the non-empty ones is the listed known finding).
func TestTruncSweepSmall(t *testing.T) {
	sec := vk.Sec("TruncSweepSmall")
	idx := 0
	for _, spec := range smallDocs() {
		d, err := spec.build()
		if err != nil {
			t.Fatalf("C02 harness: %v", err)
		}
		for at := 0; at < len(d.all); at++ {
			for _, eofWith := range []bool{false, true} {
				idx++
				if !vk.Mine(idx) {
					continue
				}
				cls := "trunc.header"
				if at == d.H() {
					cls = "trunc.afterHeader"
				} else if at > d.H() {
					cls = "trunc.payload"
				}
				sweepOne(t, sec, spec, d, d.all[:at], runSpec{FailAt: -1, EOFWith: eofWith}, cls, fmt.Sprintf("truncate to %d bytes", at))
			}
		}
	}
	sec.SetExhaustive()
}

// TestFaultSweepSmall: a sticky source error at every offset 0..len of three small documents,
// delivered alone or together with the bytes that reach the offset, under three read styles
// (complete enumeration).
func TestFaultSweepSmall(t *testing.T) {
	sec := vk.Sec("FaultSweepSmall")
	idx := 0
	for _, spec := range smallDocs() {
		d, err := spec.build()
		if err != nil {
			t.Fatalf("C02 harness: %v", err)
		}
		for at := 0; at <= len(d.all); at++ {
			for _, with := range []bool{false, true} {
				for _, src := range [][]int{nil, {1}, {7, 0}} {
					idx++
					if !vk.Mine(idx) {
						continue
					}
					cls := "fault.header"
					if at >= d.H() {
						cls = "fault.payload"
					}
					sweepOne(t, sec, spec, d, d.all, runSpec{FailAt: at, FailWith: with, FailErr: at + len(src), FailOnce: (at+len(src))%2 == 1, Src: src}, cls, "unmodified document")
				}
			}
		}
	}
	sec.SetExhaustive()
}

// TestBoundarySweepLarge: on a (1 segment + 1 byte) and a (2 segments) document of each
// cipher: truncation and source faults at every offset within 20 bytes of every structural
// boundary (header end, segment ends, tag starts, document end) plus a stride over the rest;
// one-bit flips at the same offsets. The thorough tier walks EVERY offset of the 1 segment + 1
// document for truncation and for a one-bit flip.
func TestBoundarySweepLarge(t *testing.T) {
	sec := vk.Sec("BoundarySweepLarge")
	idx := 0
	for _, spec := range []docSpec{
		{Len: refenc.SegmentSize + 1, Seed: 21, Cipher: refenc.CipherAESGCM, ByKit: true},
		{Len: refenc.SegmentSize + 1, Seed: 22, Cipher: refenc.CipherChaCha20},
		{Len: 2 * refenc.SegmentSize, Seed: 23, Cipher: refenc.CipherChaCha20, ByKit: true},
		{Len: 2 * refenc.SegmentSize, Seed: 24, Cipher: refenc.CipherAESGCM},
	} {
		d, err := spec.build()
		if err != nil {
			t.Fatalf("C02 harness: %v", err)
		}
		every := vk.Thorough() && spec.Len == refenc.SegmentSize+1
		marks := []int{0, d.H(), len(d.all)}
		for i := 0; i < d.nseg; i++ {
			lo, hi := d.seg(i)
			marks = append(marks, lo, hi-refenc.TagSize, hi)
		}
		near := func(off int) bool {
			for _, m := range marks {
				if off >= m-20 && off <= m+20 {
					return true
				}
			}
			return false
		}
		for off := 0; off <= len(d.all); off++ {
			if !every && !near(off) && off%1777 != 0 {
				continue
			}
			idx++
			if !vk.Mine(idx) {
				continue
			}
			pos := "header"
			if off >= d.H() {
				pos = fmt.Sprintf("seg%d", (off-d.H())/refenc.SealedSize)
			}
			if off < len(d.all) {
				sweepOne(t, sec, spec, d, d.all[:off], runSpec{FailAt: -1, EOFWith: off%2 == 0}, "trunc."+pos, fmt.Sprintf("truncate to %d bytes", off))
				if near(off) {
					// around the marks: both ways of reporting the end (EOF with the last bytes / alone) under source
					// read sizes that put the last read at, before and behind the segment boundary
					for _, eofWith := range []bool{false, true} {
						for _, src := range [][]int{{refenc.SealedSize}, {refenc.SealedSize + 1}, {4096}, {len(d.all)}} {
							sweepOne(t, sec, spec, d, d.all[:off], runSpec{FailAt: -1, EOFWith: eofWith, Src: src}, "trunc."+pos, fmt.Sprintf("truncate to %d bytes", off))
						}
					}
				}
				m := bytes.Clone(d.all)
				m[off] ^= 1 << (off % 8)
				sweepOne(t, sec, spec, d, m, runSpec{FailAt: -1, Src: [][]int{nil, {refenc.SealedSize}, {4096}}[off%3]}, "flip."+pos, fmt.Sprintf("flip bit %d of byte %d", off%8, off))
			}
			if !every || near(off) {
				sweepOne(t, sec, spec, d, d.all, runSpec{FailAt: off, FailWith: off%2 == 1, FailErr: off / 3, FailOnce: off%5 < 2, Src: [][]int{nil, {refenc.SealedSize}, {1000}}[off%3]}, "fault."+pos, "unmodified document")
			}
		}
	}
}

// TestStructuralSweep: every segment-level operation on documents of 1..3 segments (delete,
// duplicate, swap each pair, splice from another document, appended bytes / sealed segments),
// every header field edit unsigned and re-signed, every unwrap behaviour - each alone.
func TestStructuralSweep(t *testing.T) {
	sec := vk.Sec("StructuralSweep")
	idx := 0
	for _, L := range []int{0, 20, refenc.SegmentSize, refenc.SegmentSize + 1, 2 * refenc.SegmentSize, 2*refenc.SegmentSize + 700} {
		for cipher := 1; cipher <= 2; cipher++ {
			for _, byKit := range []bool{false, true} {
				spec := docSpec{Len: L, Seed: uint64(1000 + L + cipher), Cipher: cipher, ByKit: byKit}
				nseg := (L + refenc.SegmentSize - 1) / refenc.SegmentSize
				var muts [][]mutation
				for i := 0; i < nseg; i++ {
					muts = append(muts, []mutation{{Kind: "delSeg", I: i}}, []mutation{{Kind: "dupSeg", I: i}})
					for _, from := range []string{"right", "other", "random"} {
						muts = append(muts, []mutation{{Kind: "splice", I: i, Key: from, Blob: uint64(i + 5)}})
					}
					for j := i + 1; j < nseg; j++ {
						muts = append(muts, []mutation{{Kind: "swapSeg", I: i, J: j}})
					}
					for sel := 0; sel < 2; sel++ {
						muts = append(muts, []mutation{{Kind: "trunc", Region: "segBoundary", I: i, Sel: sel}})
					}
				}
				for _, n := range []int{1, 15, 16, 17, refenc.SealedSize} {
					muts = append(muts, []mutation{{Kind: "append", N: n, Blob: 9}})
				}
				for _, key := range []string{"right", "other", "zero"} {
					for _, chunk := range []int{0, 1, refenc.SegmentSize} {
						for _, last := range []bool{false, true} {
							muts = append(muts, []mutation{{Kind: "appendSealed", Key: key, N: chunk, Last: last, Blob: 3}})
						}
					}
				}
				for _, f := range []string{"k", "kw", "cph", "np", "wfk", "order", "space"} {
					for _, resign := range []bool{false, true} {
						for sel := 0; sel < 3; sel++ {
							muts = append(muts, []mutation{{Kind: "hdrEdit", Field: f, Resign: resign, Sel: sel, Bit: sel}})
						}
					}
				}
				for _, key := range []string{"zero", "ones", "random"} {
					for _, n := range []int{0, 5, refenc.SegmentSize + 5} {
						muts = append(muts, []mutation{{Kind: "forge", Key: key, N: n, Blob: 77}})
					}
				}
				muts = append(muts, nil) // unchanged bytes, only the unwrap behaviour varies
				for _, ml := range muts {
					for _, u := range []unwrapSpec{{Mode: unwrapGood}, {Mode: unwrapOtherKey}, {Mode: unwrapBadLen, Len: 0}, {Mode: unwrapBadLen, Len: 31}, {Mode: unwrapBadLen, Len: 33}, {Mode: unwrapError}} {
						if ml != nil && u.Mode != unwrapGood && ml[0].Kind != "forge" && ml[0].Kind != "hdrEdit" {
							continue
						}
						idx++
						if !vk.Mine(idx) {
							continue
						}
						c := tcase{Doc: spec, Muts: ml, Run: runSpec{Unwrap: u, FailAt: -1}, FaultClass: "none"}
						o := runCase(c)
						if o.excluded {
							sec.Exclude(sigTruncHeader)
							continue
						}
						if o.what != "" {
							t.Fatalf("C02 %s violated: %s\ncase: %s\napplied: %s", o.what, o.detail, c, o.describe)
						}
						sec.Case(o.nontrivial, vk.FP(c.String()), o.classes...)
						sec.Sample(func() any { return c.String() + " => " + o.describe })
					}
				}
			}
		}
	}
}

// ---------------------------------------------------------------------------
// known finding (DESIGN.md C02 "F"): pinned re-check

// TestKnownTruncatedToHeader re-checks the pinned input of the listed known finding: a
// non-empty document cut exactly after its three header lines decrypts to an empty plaintext
// with a clean EOF. The published format has no segment for the empty message and the header
// does not say whether segments follow, so this cannot be repaired without changing the format.
func TestKnownTruncatedToHeader(t *testing.T) {
	fk := bytes.Repeat([]byte{7}, 32)
	m := refenc.Manifest{HasKeyName: true, KeyName: "mykey", KW: refenc.KWA256KW, WFK: fk, Cipher: refenc.CipherAESGCM, NoncePrefix: []byte{1, 2, 3, 4, 5, 6, 7}}
	plain := []byte("hello world")
	all := refenc.Encode(plain, fk, m, refenc.ManifestStyle{})
	h := len(all) - refenc.SealedLen(len(plain))
	d := &baseDoc{plain: plain, fileKey: fk, man: m, header: all[:h], payload: all[h:], all: all, nseg: 1}
	if !inKnownClass(d, all[:h], unwrapSpec{Mode: unwrapGood}) {
		t.Fatalf("C02 harness: the pinned input is not recognised as class %s", sigTruncHeader)
	}
	what, detail, _, _ := judge("pinned: hello world / AES-GCM / file key 32x07 / np 01..07, cut after the header", d, all[:h], [][]byte{d.header}, runSpec{FailAt: -1})
	if what == "" {
		return // no longer fails: print nothing
	}
	pinned := fmt.Sprintf("(pinned: reference document of %q, AES-GCM, file key 32x0x07, nonce prefix 01..07, cut to its %d header bytes)", plain, h)
	if !vk.IsKnown("C02", sigTruncHeader) {
		t.Fatalf("C02 %s violated: %s %s", what, detail, pinned)
	}
	vk.ReportKnown("C02", sigTruncHeader, what+": "+detail+" "+pinned)
}

// TestPinnedZeroKeyForgery is the regression input of a repaired defect (KNOWN_FINDINGS.txt
// "fixed:"): a document fabricated without any secret - header signed and segment sealed under
// 32 zero bytes, garbage in the wrapped-key field - was accepted whenever the unwrap callback
// failed, because Decrypt then verified the MAC with an all-zero placeholder key.
func TestPinnedZeroKeyForgery(t *testing.T) {
	sec := vk.Sec("PinnedZeroKeyForgery")
	spec := docSpec{Len: 11, Seed: 5, Cipher: refenc.CipherAESGCM}
	d, err := spec.build()
	if err != nil {
		t.Fatalf("C02 harness: %v", err)
	}
	fm := d.man
	fm.WFK = []byte("garbage-wrapped-key-that-does-not-unwrap")
	for _, cipher := range []int{refenc.CipherAESGCM, refenc.CipherChaCha20} {
		fm.Cipher = cipher
		forged := refenc.Encode([]byte("attacker chosen text"), make([]byte, 32), fm, refenc.ManifestStyle{})
		for _, u := range []unwrapSpec{{Mode: unwrapError}, {Mode: unwrapBadLen, Len: 0}, {Mode: unwrapBadLen, Len: 31}, {Mode: unwrapGood}, {Mode: unwrapErrZeroKey}} {
			r := runSpec{Unwrap: u, FailAt: -1}
			what, detail, _, _ := judge("pinned zero-key forgery", d, forged, [][]byte{d.header}, r)
			if what != "" {
				t.Fatalf("C02 %s violated: %s\ncase: document fabricated under the all-zero key (cipher %d, plaintext %q, 40-byte garbage wfk) presented instead of %s; %s", what, detail, cipher, "attacker chosen text", spec, r)
			}
			sec.Case(true, vk.FP("zero-key", cipher, u.String()), "forge.zero", u.String())
		}
	}
}
