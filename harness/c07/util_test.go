package c07

import (
	"flag"
	"fmt"
	"os"
	"path/filepath"
	"runtime/debug"
	"strings"
	"sync"
	"time"

	"pgregory.net/rapid"

	"verifharness/vk"
)

// ---------------------------------------------------------------- verdict plumbing

// tb is what the rapid properties (*rapid.T) and the native fuzz targets
// (*testing.T) have in common.
type tb interface {
	Fatalf(format string, args ...any)
}

// callDeadline is the real-time bound on a single call into dapr/kit. The
// slowest legitimate call known (Next on a schedule whose seconds set is empty:
// a second-by-second walk through five years) takes a few seconds; everything
// else takes micro- to milliseconds.
const callDeadline = 60 * time.Second

type inflight struct {
	start time.Time
	desc  func() string
}

var (
	inflMu  sync.Mutex
	infl    = map[uint64]*inflight{}
	inflSeq uint64
	wdOnce  sync.Once
)

// watch announces a call to the watchdog. A call that is still running after
// callDeadline fails the whole process with the input printed (a test process
// that hangs silently would be reported as inconclusive, not as a violation).
func watch(desc func() string) (done func()) {
	wdOnce.Do(func() {
		go func() {
			for {
				time.Sleep(500 * time.Millisecond)
				inflMu.Lock()
				for _, c := range infl {
					if time.Since(c.start) > callDeadline {
						panic(fmt.Sprintf("C07 termination violated: the call did not return within %v\ncase: %s", callDeadline, c.desc()))
					}
				}
				inflMu.Unlock()
			}
		}()
	})
	inflMu.Lock()
	inflSeq++
	id := inflSeq
	infl[id] = &inflight{start: time.Now(), desc: desc}
	inflMu.Unlock()
	return func() {
		inflMu.Lock()
		delete(infl, id)
		inflMu.Unlock()
	}
}

// crash is a recovered panic.
type crash struct {
	val   any
	stack string
}

// guard runs one call into dapr/kit under the watchdog and turns a panic into a value.
func guard(desc func() string, call func()) (c *crash) {
	done := watch(desc)
	defer done()
	defer func() {
		if r := recover(); r != nil {
			c = &crash{val: r, stack: trimStack(string(debug.Stack()))}
		}
	}()
	call()
	return nil
}

// trimStack keeps the frames between the panic and the harness.
func trimStack(s string) string {
	lines := strings.Split(s, "\n")
	var out []string
	started := false
	for i := 0; i < len(lines); i++ {
		l := lines[i]
		if !started {
			if strings.HasPrefix(l, "panic(") {
				started = true
				i++ // its file line
			}
			continue
		}
		if strings.Contains(l, "verifharness/c07.guard") {
			break
		}
		out = append(out, l)
		if len(out) >= 24 {
			break
		}
	}
	if len(out) == 0 {
		if len(lines) > 30 {
			lines = lines[:30]
		}
		return strings.Join(lines, "\n")
	}
	return strings.Join(out, "\n")
}

// report is the outcome of one case: the first violation (if any), whether the
// input got past the first validation layer, and class counters.
type report struct {
	fail    string
	nt      bool
	classes []string
	desc    func() string
}

func newReport(desc func() string) *report { return &report{desc: desc} }

// call runs one entry point; a panic is recorded as the violation of the case.
func (r *report) call(ep string, f func()) bool {
	c := guard(func() string { return ep + " " + r.desc() }, f)
	if c == nil {
		return true
	}
	if r.fail == "" {
		r.fail = fmt.Sprintf("C07 no-crash violated: %s panicked: %v\ncase: %s\nstack:\n%s", ep, c.val, r.desc(), c.stack)
	}
	return false
}

func (r *report) class(c string) { r.classes = append(r.classes, c) }
func (r *report) nontrivial()    { r.nt = true }

// settle fails the test on a violation and otherwise records the case.
func settle(t tb, sec *vk.Section, r *report, fp uint64) {
	if r.fail != "" {
		t.Fatalf("%s", r.fail)
	}
	if sec == nil {
		return
	}
	sec.Case(r.nt, fp, r.classes...)
	sec.Sample(func() any { return clip(r.desc(), 600) })
}

func clip(s string, n int) string {
	if len(s) > n {
		return s[:n] + fmt.Sprintf("...(%d bytes)", len(s))
	}
	return s
}

// fuzzing reports whether this process takes part in a native fuzzing campaign
// (coordinator or worker). Statistics are only kept when the fuzz targets run
// as plain tests over their seeds (quick tier); a campaign executes millions of
// inputs per worker.
func fuzzing() bool {
	if f := flag.Lookup("test.fuzz"); f != nil && f.Value.String() != "" {
		return true
	}
	if f := flag.Lookup("test.fuzzworker"); f != nil && f.Value.String() == "true" {
		return true
	}
	return false
}

// fuzzSec returns the statistics section of a fuzz target's seed replay, or nil during a campaign.
func fuzzSec(name string) *vk.Section {
	if fuzzing() {
		return nil
	}
	return vk.Sec(name + "/seeds")
}

// ---------------------------------------------------------------- scratch directory

var (
	scratchOnce sync.Once
	scratchDir  string
)

// scratch returns a private directory for the file-reading entry point
// (utils.GetPEM). Nothing outside it is ever named in a call.
func scratch() string {
	scratchOnce.Do(func() {
		d, err := os.MkdirTemp("", "c07-scratch-")
		if err != nil {
			panic("C07 harness: " + err.Error())
		}
		scratchDir = d
		_ = os.Mkdir(filepath.Join(d, "adir"), 0o755)
	})
	return scratchDir
}

func cleanupScratch() {
	if scratchDir != "" {
		_ = os.RemoveAll(scratchDir)
	}
}

// ---------------------------------------------------------------- generators shared by the groups

var edgeLens = []int{0, 1, 2, 7, 8, 9, 11, 12, 13, 15, 16, 17, 23, 24, 25, 31, 32, 33, 39, 40, 47, 48, 49, 63, 64}

// genLen draws a length in [0,max] with a bias to block and key size boundaries.
func genLen(rt *rapid.T, label string, max int) int {
	if rapid.IntRange(0, 2).Draw(rt, label+".edge") > 0 {
		n := rapid.SampledFrom(edgeLens).Draw(rt, label+".len")
		if n <= max {
			return n
		}
	}
	return rapid.IntRange(0, max).Draw(rt, label+".len")
}

// fill returns n bytes of the given kind: 0 zeros, 1 ones, 2 counting, else pseudo-random from seed.
func fill(kind int, seed uint64, n int) []byte {
	b := make([]byte, n)
	switch kind {
	case 0:
	case 1:
		for i := range b {
			b[i] = 0xff
		}
	case 2:
		for i := range b {
			b[i] = byte(i + 1)
		}
	default:
		copy(b, vk.Expand(seed, n))
	}
	return b
}

// genBlob draws a byte string of up to max bytes.
func genBlob(rt *rapid.T, label string, max int) []byte {
	n := genLen(rt, label, max)
	return fill(rapid.IntRange(0, 5).Draw(rt, label+".kind"), rapid.Uint64().Draw(rt, label+".seed"), n)
}

// genBlobN draws a byte string of exactly n bytes.
func genBlobN(rt *rapid.T, label string, n int) []byte {
	return fill(rapid.IntRange(0, 5).Draw(rt, label+".kind"), rapid.Uint64().Draw(rt, label+".seed"), n)
}

// pickUniform draws an index in [0,n) uniformly (rapid's own integer generators favour small values, which starves
// the tail of long tables such as the algorithm names). It is a pure function of one drawn value.
func pickUniform(rt *rapid.T, label string, n int) int {
	return int(vk.FP("pick", rapid.Uint64().Draw(rt, label)) % uint64(n))
}

// edit is one byte-level edit of a near-valid artefact.
type edit struct {
	Kind string // flip, set, trunc, cut, ins, dup, ext
	Pos  int    // position selector (modulo the current length)
	N    int
	Val  byte
	Seed uint64
}

func (e edit) String() string {
	return fmt.Sprintf("%s{pos=%d n=%d val=%#02x seed=%d}", e.Kind, e.Pos, e.N, e.Val, e.Seed)
}

var editKinds = []string{"flip", "flip", "set", "set", "trunc", "cut", "ins", "ins", "dup", "ext"}

// genEdits draws up to max edits. alphabet (may be nil) is where inserted and set bytes come from.
func genEdits(rt *rapid.T, label string, max int, alphabet []byte) []edit {
	n := rapid.IntRange(0, max).Draw(rt, label+".edits")
	out := make([]edit, n)
	for i := range out {
		e := edit{
			Kind: rapid.SampledFrom(editKinds).Draw(rt, label+".kind"),
			Pos:  rapid.IntRange(0, 1<<16).Draw(rt, label+".pos"),
			N:    rapid.IntRange(1, 9).Draw(rt, label+".n"),
			Seed: rapid.Uint64().Draw(rt, label+".seed"),
		}
		if len(alphabet) > 0 {
			e.Val = alphabet[rapid.IntRange(0, len(alphabet)-1).Draw(rt, label+".val")]
		} else {
			e.Val = rapid.Byte().Draw(rt, label+".val")
		}
		if rapid.IntRange(0, 3).Draw(rt, label+".posKind") == 0 {
			// the ends of an artefact are where length checks live
			e.Pos = rapid.SampledFrom([]int{0, 1, -1, -2}).Draw(rt, label+".endPos")
		}
		out[i] = e
	}
	return out
}

// applyEdits returns an edited copy of b.
func applyEdits(b []byte, edits []edit, alphabet []byte) []byte {
	out := append([]byte{}, b...)
	for _, e := range edits {
		pos := 0
		if len(out) > 0 {
			pos = ((e.Pos % len(out)) + len(out)) % len(out)
		}
		blob := func(n int) []byte {
			x := vk.Expand(e.Seed, n)
			if len(alphabet) > 0 {
				for i := range x {
					x[i] = alphabet[int(x[i])%len(alphabet)]
				}
			}
			return x
		}
		switch e.Kind {
		case "flip":
			if len(out) > 0 {
				out[pos] ^= 1 << (e.Seed % 8)
			}
		case "set":
			if len(out) > 0 {
				out[pos] = e.Val
			}
		case "trunc":
			out = out[:pos]
		case "cut":
			end := pos + e.N
			if end > len(out) {
				end = len(out)
			}
			out = append(out[:pos:pos], out[end:]...)
		case "ins":
			ins := blob(e.N)
			ins[0] = e.Val
			out = append(out[:pos:pos], append(ins, out[pos:]...)...)
		case "dup":
			end := pos + e.N
			if end > len(out) {
				end = len(out)
			}
			seg := append([]byte{}, out[pos:end]...)
			out = append(out[:end:end], append(seg, out[end:]...)...)
		case "ext":
			out = append(out, blob(e.N)...)
		}
	}
	return out
}

// cursor decodes the bytes of a native fuzz input into structured arguments.
type cursor struct {
	b []byte
	i int
}

func (c *cursor) byte() byte {
	if c.i >= len(c.b) {
		return 0
	}
	v := c.b[c.i]
	c.i++
	return v
}

func (c *cursor) intn(n int) int {
	if n <= 0 {
		return 0
	}
	return int(c.byte()) % n
}

// take returns the next n bytes (fewer at the end of the input).
func (c *cursor) take(n int) []byte {
	if n < 0 {
		n = 0
	}
	if c.i+n > len(c.b) {
		n = len(c.b) - c.i
	}
	v := c.b[c.i : c.i+n : c.i+n]
	c.i += n
	return v
}

// lenPrefixed returns a byte string whose length is the next input byte (modulo max+1).
func (c *cursor) lenPrefixed(max int) []byte { return c.take(c.intn(max + 1)) }

func (c *cursor) rest() []byte { return c.take(len(c.b) - c.i) }
