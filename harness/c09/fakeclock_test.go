package c09

import (
	"context"
	"fmt"
	"strings"
	"sync"
	"sync/atomic"
	"testing"
	"testing/synctest"
	"time"

	"github.com/dapr/kit/events/ratelimiting"
	clocktesting "k8s.io/utils/clock/testing"
	"pgregory.net/rapid"

	"verifharness/vk"
)

// Fake-clock mode. Inside a bubble real timers only fire at quiescence, so "the window timer has fired but the run
// loop has not handled it yet while an Add's token is also waiting" cannot arise with the real clock. With the k8s
// FakeClock (the repository's own unit-tag hook WithTicker) the case steps the clock to the window's end and adds
// without settling in between (either order), so the run loop finds the expired timer and the token ready together
// and picks one at random. Invariants only (no exact model): signals <= Adds; after quiet steps the last Add has been
// followed by a signal and the limiter is idle again.

type fop struct {
	Kind string // add | step | add+step | step+add
	N    int
	Step string // half | end | end+1ms | quiet
}

type fakeCase struct {
	InitMS, MaxMul, Cap int
	MaxExtra            int
	Ops                 []fop
}

func (c fakeCase) String() string {
	var p []string
	for _, o := range c.Ops {
		switch o.Kind {
		case "add":
			p = append(p, fmt.Sprintf("add(%d)", o.N))
		case "step":
			p = append(p, "step("+o.Step+")")
		default:
			p = append(p, fmt.Sprintf("%s(%d,%s)", o.Kind, o.N, o.Step))
		}
	}
	return fmt.Sprintf("coalescing.fake{init=%dms max=%dms cap=%d ops=[%s]}", c.InitMS, c.InitMS*c.MaxMul+c.MaxExtra, c.Cap, strings.Join(p, " "))
}

func runFake(t *testing.T, c fakeCase) (raced bool, err error) {
	var errs vk.Errs
	berr := vk.Bubble(t, c.String(), func() {
		init := time.Duration(c.InitMS) * time.Millisecond
		max := init*time.Duration(c.MaxMul) + time.Duration(c.MaxExtra)*time.Millisecond
		opts := ratelimiting.OptionsCoalescing{InitialDelay: &init, MaxDelay: &max}
		if c.Cap > 0 {
			cp := c.Cap
			opts.MaxPendingEvents = &cp
		}
		rl, nerr := ratelimiting.NewCoalescing(opts)
		if nerr != nil {
			errs.Failf("NewCoalescing: %v", nerr)
			return
		}
		base := time.Date(2024, 1, 1, 0, 0, 0, 0, time.UTC)
		fake := clocktesting.NewFakeClock(base)
		rl.(ratelimiting.RateLimiterWithTicker).WithTicker(fake)
		ctx, cancel := context.WithCancel(context.Background())
		defer cancel()
		ch := make(chan struct{})
		var mu sync.Mutex
		var got []time.Time
		stop := make(chan struct{})
		var wg sync.WaitGroup
		wg.Add(1)
		errs.Go(func() {
			defer wg.Done()
			for {
				select {
				case <-ch:
					mu.Lock()
					got = append(got, fake.Now())
					mu.Unlock()
				case <-stop:
					return
				}
			}
		})
		var runReturned atomic.Bool
		wg.Add(1)
		errs.Go(func() { defer wg.Done(); _ = rl.Run(ctx, ch); runReturned.Store(true) })
		synctest.Wait()
		m := &model{init: init, max: max, cap: c.Cap, idle: true}
		var adds []time.Time
		lastHandled := base
		add := func(n int) {
			for i := 0; i < n; i++ {
				adds = append(adds, fake.Now())
				m.add(fake.Now())
				rl.Add()
			}
		}
		step := func(kind string) {
			now := fake.Now()
			d := init / 2
			inWindow := !m.idle && m.end.After(now)
			switch kind {
			case "quiet":
				d = max + time.Millisecond
			default:
				if inWindow {
					rem := m.end.Sub(now)
					switch kind {
					case "half":
						d = rem / 2
					case "end":
						d = rem
					case "end+1ms":
						d = rem + time.Millisecond
					}
				}
			}
			if d <= 0 {
				d = time.Millisecond
			}
			fake.Step(d)
			m.expire(fake.Now())
		}
		for n, o := range c.Ops {
			switch o.Kind {
			case "add":
				add(o.N)
			case "step":
				step(o.Step)
			case "add+step":
				if !m.idle {
					raced = true
				}
				add(o.N)
				step(o.Step)
			case "step+add":
				if !m.idle {
					raced = true
				}
				step(o.Step)
				add(o.N)
			}
			synctest.Wait()
			mu.Lock()
			ns := len(got)
			mu.Unlock()
			if ns > len(adds) {
				errs.Failf("after op %d: %d signals for %d Adds", n, ns, len(adds))
				return
			}
			if o.Kind != "step" {
				// the tokens of this operation's Adds have been handled by now (settled): their quiet window starts no later than here
				lastHandled = fake.Now()
			} else if len(adds) > 0 {
				last := adds[len(adds)-1]
				mu.Lock()
				lost := fake.Now().Sub(lastHandled) > max && (len(got) == 0 || got[len(got)-1].Before(last))
				mu.Unlock()
				if lost {
					errs.Failf("after op %d: the Add at +%v (handled by +%v) was never followed by a signal although the clock is more than MaxDelay past that (now +%v)", n, last.Sub(base), lastHandled.Sub(base), fake.Now().Sub(base))
					return
				}
			}
		}
		// quiet: step well beyond every window a few times, settling in between
		for i := 0; i < 4; i++ {
			fake.Step(max + time.Millisecond)
			synctest.Wait()
		}
		mu.Lock()
		sig := append([]time.Time(nil), got...)
		mu.Unlock()
		if len(adds) > 0 {
			last := adds[len(adds)-1]
			if len(sig) == 0 || sig[len(sig)-1].Before(last) {
				errs.Failf("the last Add (at +%v) was never followed by a signal although the clock was stepped far beyond MaxDelay (%d Adds, signals at %v)", last.Sub(base), len(adds), relTo(sig, base))
				return
			}
		}
		// idle again: the next Add is signalled at once
		before := len(sig)
		rl.Add()
		synctest.Wait()
		mu.Lock()
		after := len(got)
		mu.Unlock()
		if after != before+1 {
			errs.Failf("after a quiet period an Add produced %d signals immediately, want 1", after-before)
			return
		}
		rl.Close()
		synctest.Wait()
		if !runReturned.Load() {
			errs.Failf("Run did not return after Close")
		}
		close(stop)
		wg.Wait()
	})
	if e := errs.Err(); e != nil {
		return raced, e
	}
	return raced, berr
}

func relTo(ts []time.Time, base time.Time) []time.Duration {
	out := make([]time.Duration, len(ts))
	for i, t := range ts {
		out[i] = t.Sub(base)
	}
	return out
}

func TestCoalescingFakeClock(t *testing.T) {
	sec := vk.Sec("CoalescingFakeClock")
	vk.Check(t, 40000, 8000000, func(rt *rapid.T) {
		c := fakeCase{InitMS: rapid.SampledFrom([]int{2, 10, 100}).Draw(rt, "initMS"), MaxMul: rapid.SampledFrom([]int{1, 2, 4, 8}).Draw(rt, "maxMul"), Cap: rapid.SampledFrom([]int{0, 0, 2, 3}).Draw(rt, "cap")}
		c.MaxExtra = genMaxExtra(rt, c.InitMS)
		n := rapid.IntRange(1, 16).Draw(rt, "nops")
		for i := 0; i < n; i++ {
			switch k := rapid.IntRange(0, 9).Draw(rt, "kind"); {
			case k <= 2:
				c.Ops = append(c.Ops, fop{Kind: "add", N: rapid.IntRange(1, 3).Draw(rt, "n")})
			case k <= 4:
				c.Ops = append(c.Ops, fop{Kind: "step", Step: rapid.SampledFrom([]string{"half", "end", "end+1ms", "quiet"}).Draw(rt, "step")})
			case k <= 7:
				c.Ops = append(c.Ops, fop{Kind: "add+step", N: rapid.IntRange(1, 3).Draw(rt, "n"), Step: rapid.SampledFrom([]string{"end", "end", "end+1ms", "half"}).Draw(rt, "step")})
			default:
				c.Ops = append(c.Ops, fop{Kind: "step+add", N: rapid.IntRange(1, 3).Draw(rt, "n"), Step: rapid.SampledFrom([]string{"end", "end", "end+1ms"}).Draw(rt, "step")})
			}
		}
		raced, err := runFake(t, c)
		if err != nil {
			rt.Fatalf("C09 coalescing rate limiter violated: %v\ncase: %s", err, c)
		}
		cls := ""
		if raced {
			cls = "fake.add-and-expiry-ready-together"
		}
		sec.Case(raced, vk.FP(c.String()), cls)
		sec.Sample(func() any { return c.String() })
	})
}
