package c07

import (
	"encoding/base64"
	"encoding/json"
	"errors"
	"fmt"
	"sort"
	"strings"
	"testing"

	kit "github.com/dapr/kit/crypto"
	"github.com/lestrrat-go/jwx/v2/jwk"
	"pgregory.net/rapid"

	"verifharness/vk"
)

// ---------------------------------------------------------------- entry points: crypto.ParseKey, then USE of the parsed key:
// SerializeKey, Encrypt, Decrypt, EncryptPublicKey, DecryptPrivateKey, SignPrivateKey, VerifyPublicKey

var (
	symAlgs = []string{"A128CBC", "A192CBC", "A256CBC", "A128CBC-NOPAD", "A192CBC-NOPAD", "A256CBC-NOPAD", "A128GCM", "A192GCM", "A256GCM",
		"A128CBC-HS256", "A192CBC-HS384", "A256CBC-HS512", "A128KW", "A192KW", "A256KW", "A128GCMKW", "A192GCMKW", "A256GCMKW", "C20P", "XC20P", "C20PKW", "XC20PKW"}
	asymEncAlgs = []string{"RSA1_5", "RSA-OAEP", "RSA-OAEP-256", "RSA-OAEP-384", "RSA-OAEP-512", "ECDH-ES", "ECDH-ES+A128KW", "ECDH-ES+A192KW", "ECDH-ES+A256KW"}
	sigAlgs     = []string{"RS256", "RS384", "RS512", "PS256", "PS384", "PS512", "ES256", "ES384", "ES512", "EdDSA", "HS256", "HS384", "HS512"}
	// names the package does not define: the helpers slice the name (alg[1:4], alg[len-3:]) for the ones it does
	strangeAlgs = []string{"", "A", "A1", "A12", "A128", "A128CBC-", "A128CBC-HS", "a128cbc", "A128CBC ", " A128CBC", "A512GCM", "A128XYZ", "A999KW", "AES", "RSA", "RSA-OAEP-",
		"RSA-OAEP-1", "RSA-OAEP-2560", "RS", "RS2", "RS25", "RS2566", "PS", "ES", "ES256K", "ES25", "Ed", "eddsa", "EdDSA ", "HS", "none", "-256", "256", "\x00", "\xff\xfe\xfd", "C20", "XC20PKWW",
		"ECDH", "ECDH-ES+", "A128CBC-NOPAD-HS256", "dir", strings.Repeat("A", 300)}
	allAlgs   = concat(symAlgs, asymEncAlgs, sigAlgs, strangeAlgs)
	keyCTypes = []string{"", "application/json", "application/x-pem-file", "application/pkcs8", "application/octet-stream", "APPLICATION/JSON", "application/json; charset=utf-8", "text/plain", "\x00"}
)

func concat(lists ...[]string) []string {
	var out []string
	for _, l := range lists {
		out = append(out, l...)
	}
	return out
}

// keyUse are the arguments of the operations tried with a parsed key.
type keyUse struct {
	Algs                         []string
	Msg, Nonce, Tag, AAD, Digest []byte
}

type keyCase struct {
	Raw   []byte
	CType string
	Use   keyUse
	Note  string // how the generator built Raw
}

func (c keyCase) String() string {
	return fmt.Sprintf("key{raw=%q contentType=%q built=%s algs=%q msg=%x nonce=%x tag=%x aad=%x digest=%x}", c.Raw, c.CType, c.Note, c.Use.Algs, c.Use.Msg, c.Use.Nonce, c.Use.Tag, c.Use.AAD, c.Use.Digest)
}

var kitSentinels = []error{kit.ErrUnsupportedAlgorithm, kit.ErrKeyTypeMismatch, kit.ErrInvalidNonce, kit.ErrInvalidTag, kit.ErrInvalidPlaintextLength, kit.ErrInvalidCiphertextLength}

// reached reports whether an operation got to the primitive: it succeeded, or failed with something
// other than the package's own argument-validation sentinels.
func reached(err error) bool {
	if err == nil {
		return true
	}
	for _, s := range kitSentinels {
		if errors.Is(err, s) {
			return false
		}
	}
	return true
}

// useKey exercises every operation of the crypto package that takes a jwk.Key.
func useKey(r *report, k jwk.Key, u keyUse) {
	r.call("crypto.SerializeKey", func() { _, _ = kit.SerializeKey(k) })
	var pub jwk.Key
	r.call("jwk.Key.PublicKey", func() { pub, _ = k.PublicKey() })
	if pub != nil {
		r.call("crypto.SerializeKey(public)", func() { _, _ = kit.SerializeKey(pub) })
	}
	for _, alg := range u.Algs {
		var (
			ct, tag, pt, sig []byte
			err              error
		)
		if r.call("crypto.Encrypt", func() { ct, tag, err = kit.Encrypt(u.Msg, alg, k, u.Nonce, u.AAD) }) && err == nil {
			r.class("use:encrypt-ok")
			if r.call("crypto.Decrypt(round trip)", func() { pt, err = kit.Decrypt(ct, alg, k, u.Nonce, tag, u.AAD) }) && err == nil {
				r.class("use:decrypt-ok")
			}
		}
		_ = pt
		if r.call("crypto.Decrypt", func() { _, err = kit.Decrypt(u.Msg, alg, k, u.Nonce, u.Tag, u.AAD) }) && reached(err) {
			r.class("use:decrypt-reached")
		}
		r.call("crypto.EncryptPublicKey", func() { _, _ = kit.EncryptPublicKey(u.Msg, alg, k, u.AAD) })
		r.call("crypto.DecryptPrivateKey", func() { _, _ = kit.DecryptPrivateKey(u.Msg, alg, k, u.AAD) })
		r.call("crypto.EncryptSymmetric", func() { _, _, _ = kit.EncryptSymmetric(u.Msg, alg, k, u.Nonce, u.AAD) })
		r.call("crypto.DecryptSymmetric", func() { _, _ = kit.DecryptSymmetric(u.Msg, alg, k, u.Nonce, u.Tag, u.AAD) })
		if r.call("crypto.SignPrivateKey", func() { sig, err = kit.SignPrivateKey(u.Digest, alg, k) }) && err == nil {
			r.class("use:sign-ok")
			var ok bool
			if r.call("crypto.VerifyPublicKey(round trip)", func() { ok, err = kit.VerifyPublicKey(u.Digest, sig, alg, k) }) && ok {
				r.class("use:verify-ok")
			}
		}
		if r.call("crypto.VerifyPublicKey", func() { _, err = kit.VerifyPublicKey(u.Digest, u.Tag, alg, k) }) && reached(err) {
			r.class("use:verify-reached")
		}
	}
}

func runKey(c keyCase) *report {
	r := newReport(c.String)
	var (
		k   jwk.Key
		err error
	)
	if !r.call("crypto.ParseKey", func() { k, err = kit.ParseKey(c.Raw, c.CType) }) {
		return r
	}
	if err != nil || k == nil {
		r.class("key:refused")
		return r
	}
	r.nontrivial()
	r.class("key:parsed:" + k.KeyType().String())
	useKey(r, k, c.Use)
	return r
}

// ---------------------------------------------------------------- generator

// jwkEdit changes one member of a JSON Web Key.
type jwkEdit struct {
	Field int // index into the sorted member names (modulo), or a new member when Op is "add"
	Op    string
	Arg   string
	N     int
}

func (e jwkEdit) String() string {
	return fmt.Sprintf("%s{field=%d arg=%q n=%d}", e.Op, e.Field, e.Arg, e.N)
}

var (
	jwkOps    = []string{"del", "empty", "AAAA", "A", "trunc", "trunc", "ext", "copy", "num", "null", "bool", "arr", "obj", "zeros", "zeros+1", "badb64", "std64", "set", "set", "add"}
	jwkValues = []string{"RSA", "EC", "OKP", "oct", "", "rsa", "XYZ", "P-256", "P-384", "P-521", "Ed25519", "X25519", "Ed448", "X448", "secp256k1", "P-255", "sig", "enc", "EdDSA", "ES256", "RS256", "A128KW", "AQAB", "AQAC", "AA", "AQ"}
	jwkAdds   = []string{"alg", "use", "key_ops", "kid", "x5c", "x5t", "x5t#S256", "x5u", "d", "x", "y", "n", "e", "p", "q", "dp", "dq", "qi", "k", "crv", "oth", "ext"}
)

func genJWKEdits(rt *rapid.T, max int) []jwkEdit {
	n := rapid.IntRange(0, max).Draw(rt, "jwkEdits")
	out := make([]jwkEdit, n)
	for i := range out {
		out[i] = jwkEdit{
			Field: rapid.IntRange(0, 15).Draw(rt, "field"),
			Op:    rapid.SampledFrom(jwkOps).Draw(rt, "op"),
			Arg:   rapid.SampledFrom(jwkValues).Draw(rt, "arg"),
			N:     rapid.IntRange(1, 6).Draw(rt, "n"),
		}
	}
	return out
}

func applyJWKEdits(text string, edits []jwkEdit) string {
	var m map[string]any
	if json.Unmarshal([]byte(text), &m) != nil {
		return text
	}
	for _, e := range edits {
		names := make([]string, 0, len(m))
		for k := range m {
			names = append(names, k)
		}
		sort.Strings(names)
		if e.Op == "add" {
			name := jwkAdds[e.Field%len(jwkAdds)]
			switch name {
			case "key_ops":
				m[name] = []any{"sign", e.Arg}
			case "x5c":
				m[name] = []any{base64.StdEncoding.EncodeToString(materials().certs[e.N%len(materials().certs)].DER), e.Arg}
			default:
				m[name] = e.Arg
			}
			continue
		}
		if len(names) == 0 {
			break
		}
		f := names[e.Field%len(names)]
		cur, _ := m[f].(string)
		switch e.Op {
		case "del":
			delete(m, f)
		case "empty":
			m[f] = ""
		case "AAAA":
			m[f] = "AAAA"
		case "A":
			m[f] = "A"
		case "trunc":
			if len(cur) > e.N {
				m[f] = cur[:len(cur)-e.N]
			} else {
				m[f] = ""
			}
		case "ext":
			m[f] = cur + strings.Repeat("A", e.N)
		case "copy":
			m[f] = m[names[(e.Field+e.N)%len(names)]]
		case "num":
			m[f] = e.N
		case "null":
			m[f] = nil
		case "bool":
			m[f] = true
		case "arr":
			m[f] = []any{cur}
		case "obj":
			m[f] = map[string]any{"x": cur}
		case "zeros", "zeros+1":
			n := base64.RawURLEncoding.DecodedLen(len(cur))
			if e.Op == "zeros+1" {
				n++
			}
			m[f] = base64.RawURLEncoding.EncodeToString(make([]byte, n))
		case "badb64":
			m[f] = "!" + cur
		case "std64":
			if raw, err := base64.RawURLEncoding.DecodeString(cur); err == nil {
				m[f] = base64.StdEncoding.EncodeToString(raw)
			}
		case "set":
			m[f] = e.Arg
		}
	}
	b, err := json.Marshal(m)
	if err != nil {
		return text
	}
	return string(b)
}

var keyJSONHostile = []string{
	`{"kty":"OKP","crv":"Ed25519","x":"AAAA"}`, // parses; VerifyPublicKey panicked on the short key
	`{"kty":"OKP","crv":"Ed25519","x":""}`, `{"kty":"OKP","crv":"X25519","x":"AAAA"}`, `{"kty":"OKP","crv":"Ed25519","x":"AAAA","d":"AAAA"}`,
	`{"kty":"EC","crv":"P-256","x":"AA","y":"AA"}`, `{"kty":"EC","crv":"P-256","x":"AA","y":"AA","d":"AA"}`, `{"kty":"EC","crv":"P-521","x":"AQ","y":"AQ","d":"//////////////////////////////////////////////////////////////////////////////////////8"}`,
	`{"kty":"RSA","n":"AA","e":"AA"}`, `{"kty":"RSA","n":"AQ","e":"AQAB"}`, `{"kty":"RSA","n":"AQAB","e":"AQAB","d":"AQ","p":"AQ","q":"AQ"}`, `{"kty":"RSA","n":"","e":""}`,
	`{"kty":"oct","k":""}`, `{"kty":"oct","k":"AA"}`, `{"kty":"oct"}`, `{"kty":""}`, `{}`, `{"keys":[]}`, `{"keys":[{"kty":"oct","k":"AAAA"}]}`, `[]`, `null`, `{"kty":5}`, `{"kty":"oct","k":5}`,
	`{"kty":"oct","k":"AAAAAAAAAAAAAAAAAAAAAA","alg":5}`, `{"kty":"oct","k":"AAAAAAAAAAAAAAAAAAAAAA","key_ops":"sign"}`, `{"kty":"oct","k":"AAAAAAAAAAAAAAAAAAAAAA","x5c":["!!"]}`,
	`{"kty":"oct","k":"AAAAAAAAAAAAAAAAAAAAAA","x5c":"AAAA"}`, `{"kty":"RSA","n":"AQAB","e":"AQAB","oth":[{"r":"AQ","d":"AQ","t":"AQ"}]}`, `{"kty":"oct","k":"AAAAAAAAAAAAAAAAAAAAAA"} trailing`,
	`{"kty":"oct","k":"AAAA","kty":"RSA"}`, `{"KTY":"oct","K":"AAAA"}`, "{\"kty\":\"oct\",\"k\":\"AAAA\"}\n\n", `{"kty":"oct","k":"` + strings.Repeat("A", 100000) + `"}`,
}

// genKeyInput draws the bytes handed to ParseKey and says which base key they came from.
func genKeyInput(rt *rapid.T) (raw []byte, ctype string, note string, kind string) {
	m := materials()
	base := m.keys[pickUniform(rt, "baseKey", len(m.keys))]
	kind = base.Kind
	form := rapid.IntRange(0, 19).Draw(rt, "form")
	switch {
	case form < 9: // JSON Web Key, member-level edits
		text := base.JWKPriv
		which := "jwk-private"
		if base.JWKPub != "" && rapid.Bool().Draw(rt, "publicJWK") {
			text, which = base.JWKPub, "jwk-public"
		}
		if text == "" {
			text, which = m.byName["ed25519"].JWKPriv, "jwk-private(ed25519)"
			kind = "ed"
		}
		edits := genJWKEdits(rt, 2)
		text = applyJWKEdits(text, edits)
		var bedits []edit
		if rapid.IntRange(0, 3).Draw(rt, "editJWKBytes") == 0 {
			bedits = genEdits(rt, "jwkBytes", 1, []byte(`{}[]":,AQab01 `))
		}
		raw = applyEdits([]byte(text), bedits, []byte(`{}[]":,AQab01 `))
		ctype = rapid.SampledFrom([]string{"", "application/json", "application/json", "application/x-pem-file"}).Draw(rt, "ctype")
		note = fmt.Sprintf("%s:%s%v%v", base.Name, which, edits, bedits)
	case form == 9:
		raw = []byte(rapid.SampledFrom(keyJSONHostile).Draw(rt, "hostileJWK"))
		ctype = rapid.SampledFrom([]string{"", "application/json"}).Draw(rt, "ctype")
		note, kind = "hostile-jwk", "any"
	case form < 15: // PEM: DER edits under a (possibly different) armour label, then edits of the armour text
		forms := make([]string, 0, len(base.DER))
		for f := range base.DER {
			forms = append(forms, f)
		}
		sort.Strings(forms)
		var der []byte
		label := "CERTIFICATE"
		fname := "certificate"
		if len(forms) == 0 || rapid.IntRange(0, 7).Draw(rt, "useCert") == 0 {
			der = m.certs[rapid.IntRange(0, len(m.certs)-1).Draw(rt, "cert")].DER
		} else {
			fname = forms[rapid.IntRange(0, len(forms)-1).Draw(rt, "pemForm")]
			der = base.DER[fname]
			label = pemLabels[fname]
		}
		if rapid.IntRange(0, 5).Draw(rt, "relabel") == 0 {
			label = rapid.SampledFrom(allPEMLabels).Draw(rt, "label")
		}
		dedits := genEdits(rt, "der", 2, nil)
		text := pemBlock(label, applyEdits(der, dedits, nil))
		tedits := genEdits(rt, "armour", 1, []byte("-\n ABEGINDPRVTKYabc012+/=:,"))
		if rapid.IntRange(0, 2).Draw(rt, "editArmour") != 0 {
			tedits = nil
		}
		raw = applyEdits(text, tedits, []byte("-\n ABEGINDPRVTKYabc012+/=:,"))
		ctype = rapid.SampledFrom([]string{"", "application/x-pem-file", "application/pkcs8", "application/json"}).Draw(rt, "ctype")
		note = fmt.Sprintf("%s:pem:%s as %q der%v armour%v", base.Name, fname, label, dedits, tedits)
	default: // raw or base64 symmetric key material, and texts that trip the format heuristics
		b := genBlob(rt, "sym", 80)
		switch enc := rapid.IntRange(0, 9).Draw(rt, "symEnc"); enc {
		case 0, 1, 2:
			raw = b
		case 3:
			raw = []byte(base64.StdEncoding.EncodeToString(b))
		case 4:
			raw = []byte(base64.RawStdEncoding.EncodeToString(b))
		case 5:
			raw = []byte(base64.URLEncoding.EncodeToString(b) + "\n")
		case 6:
			raw = []byte(base64.RawURLEncoding.EncodeToString(b) + "==\n\n=")
		case 7: // starts like a JWK; 16, 24 and 32 bytes are taken as raw keys
			n := rapid.SampledFrom([]int{1, 2, 15, 16, 17, 24, 32, 33}).Draw(rt, "braceLen")
			raw = append([]byte("{"), fill(3, rapid.Uint64().Draw(rt, "braceSeed"), n-1)...)
		case 8: // starts like PEM
			n := rapid.SampledFrom([]int{5, 9, 10, 11, 12, 16, 27, 40}).Draw(rt, "dashLen")
			raw = append([]byte("-----"), []byte(strings.Repeat("BEGIN PRIVATE KEY-----\n", 3))[:n-5]...)
		default:
			raw = []byte(strings.Repeat("=", len(b)) + "\n")
		}
		ctype = rapid.SampledFrom(keyCTypes).Draw(rt, "ctype")
		note, kind = fmt.Sprintf("symmetric:%d bytes", len(raw)), "oct"
	}
	if rapid.IntRange(0, 9).Draw(rt, "anyCType") == 0 {
		ctype = rapid.SampledFrom(keyCTypes).Draw(rt, "ctype2")
	}
	// What files and transports put around a key: byte order marks, white space, line ends, NULs - in front of it,
	// behind it, or (an empty file saved "with BOM", a blank secret) instead of it.
	if rapid.IntRange(0, 5).Draw(rt, "wrapped") == 0 {
		pre := rapid.SampledFrom(keyWrapPre).Draw(rt, "wrapPre")
		suf := rapid.SampledFrom(keyWrapSuf).Draw(rt, "wrapSuf")
		switch rapid.IntRange(0, 5).Draw(rt, "wrapHow") {
		case 0:
			raw = []byte(pre)
			note += fmt.Sprintf(" replaced-by-wrapper(%q)", pre)
		case 1:
			raw = []byte(pre + suf)
			note += fmt.Sprintf(" replaced-by-wrapper(%q)", pre+suf)
		default:
			raw = append(append([]byte(pre), raw...), suf...)
			note += fmt.Sprintf(" wrapped(%q,%q)", pre, suf)
		}
	}
	return raw, ctype, note, kind
}

var (
	keyWrapPre = []string{"\xef\xbb\xbf", "\xef\xbb\xbf\xef\xbb\xbf", "\xef\xbb", "\xff\xfe", "\xfe\xff", " ", "\n", "\r\n", "\t", "\x00", "\xef\xbb\xbf\n", "\xef\xbb\xbf "}
	keyWrapSuf = []string{"", "", "\n", "\r\n", " ", "\x00", "\xef\xbb\xbf"}
)

var (
	pemLabels    = map[string]string{"pkcs8": "PRIVATE KEY", "pkcs1": "RSA PRIVATE KEY", "sec1": "EC PRIVATE KEY", "pkix": "PUBLIC KEY", "pkcs1pub": "RSA PUBLIC KEY"}
	allPEMLabels = []string{"PRIVATE KEY", "RSA PRIVATE KEY", "EC PRIVATE KEY", "PUBLIC KEY", "RSA PUBLIC KEY", "CERTIFICATE", "ENCRYPTED PRIVATE KEY", "OPENSSH PRIVATE KEY",
		"EC PARAMETERS", "CERTIFICATE REQUEST", "X509 CRL", "", " ", "private key", "DSA PRIVATE KEY", "ECDSA PRIVATE KEY"}
)

// algsFor draws the algorithm names tried with a key: some that fit its kind, some arbitrary.
func algsFor(rt *rapid.T, kind string, n int) []string {
	fit := allAlgs
	switch kind {
	case "rsa":
		fit = []string{"RSA1_5", "RSA-OAEP", "RSA-OAEP-256", "RSA-OAEP-384", "RSA-OAEP-512", "RS256", "RS384", "RS512", "PS256", "PS384", "PS512"}
	case "ec", "ecdh":
		fit = []string{"ES256", "ES384", "ES512", "ECDH-ES", "ECDH-ES+A128KW"}
	case "ed", "x25519":
		fit = []string{"EdDSA", "EdDSA", "ECDH-ES", "ES256"}
	case "oct":
		fit = concat(symAlgs, []string{"HS256", "HS384", "HS512"})
	}
	out := make([]string, n)
	for i := range out {
		if i%2 == 0 {
			out[i] = fit[pickUniform(rt, "fitAlg", len(fit))]
		} else {
			out[i] = allAlgs[pickUniform(rt, "anyAlg", len(allAlgs))]
		}
	}
	return out
}

func genKeyUse(rt *rapid.T, kind string, nAlgs int) keyUse {
	u := keyUse{Algs: algsFor(rt, kind, nAlgs)}
	u.Msg = genBlob(rt, "msg", 64)
	u.Nonce = genBlob(rt, "nonce", 64)
	u.Tag = genBlob(rt, "tag", 64)
	u.AAD = genBlob(rt, "aad", 64)
	// digests of the size the signature algorithms expect most of the time
	if rapid.IntRange(0, 3).Draw(rt, "digestKind") > 0 {
		u.Digest = genBlobN(rt, "digest", rapid.SampledFrom([]int{32, 48, 64}).Draw(rt, "digestLen"))
	} else {
		u.Digest = genBlob(rt, "digest", 80)
	}
	return u
}

func TestParseKeyUse(t *testing.T) {
	sec := vk.Sec(t.Name())
	vk.Check(t, 8000, 80000, func(rt *rapid.T) {
		var c keyCase
		var kind string
		c.Raw, c.CType, c.Note, kind = genKeyInput(rt)
		c.Use = genKeyUse(rt, kind, 4)
		settle(rt, sec, runKey(c), vk.FP("key", c.Raw, c.CType, c.Use.Algs))
	})
}

// TestParseKeyWrappers: every wrapper (byte order marks, white space, line ends, NULs) alone, and around every base
// key in each of its textual forms, under every content type (enumerated).
func TestParseKeyWrappers(t *testing.T) {
	sec := vk.Sec(t.Name())
	m := materials()
	use := keyUse{Algs: []string{"A256GCM", "RS256", "ES256", "EdDSA"}, Msg: []byte("sixteen byte msg"), Nonce: make([]byte, 12), Tag: make([]byte, 16), Digest: make([]byte, 32)}
	idx := 0
	run := func(raw []byte, ctype, note string) {
		idx++
		if !vk.Mine(idx) {
			return
		}
		c := keyCase{Raw: raw, CType: ctype, Note: note, Use: use}
		settle(t, sec, runKey(c), vk.FP("keywrap", raw, ctype))
	}
	for _, pre := range keyWrapPre {
		for _, suf := range keyWrapSuf {
			for _, ct := range keyCTypes {
				run([]byte(pre+suf), ct, fmt.Sprintf("wrapper-only(%q)", pre+suf))
				for i, k := range m.keys {
					if (i+len(pre)+len(suf))%3 != 0 { // a third of the keys per wrapper pair: the grid stays small
						continue
					}
					for _, text := range []string{k.JWKPriv, k.JWKPub} {
						if text != "" {
							run([]byte(pre+text+suf), ct, fmt.Sprintf("%s:jwk wrapped(%q,%q)", k.Name, pre, suf))
						}
					}
					for f, der := range k.DER {
						run(append(append([]byte(pre), pemBlock(pemLabels[f], der)...), suf...), ct, fmt.Sprintf("%s:pem:%s wrapped(%q,%q)", k.Name, f, pre, suf))
					}
				}
			}
		}
	}
	sec.SetExhaustive()
}

// ---------------------------------------------------------------- native fuzz target

func keyUseFromBytes(alg uint8, aux []byte) keyUse {
	cur := &cursor{b: aux}
	u := keyUse{Algs: []string{allAlgs[int(alg)%len(allAlgs)]}}
	u.Nonce = cur.lenPrefixed(64)
	u.Tag = cur.lenPrefixed(64)
	u.Digest = cur.lenPrefixed(80)
	u.AAD = cur.lenPrefixed(16)
	u.Msg = cur.rest()
	return u
}

func FuzzParseKeyUse(f *testing.F) {
	m := materials()
	aux := append([]byte{12}, make([]byte, 12)...)
	aux = append(aux, 16)
	aux = append(aux, make([]byte, 16)...)
	aux = append(aux, 32)
	aux = append(aux, make([]byte, 32)...)
	aux = append(aux, 0)
	aux = append(aux, []byte("sixteen byte msg")...)
	idx := func(name string) uint8 {
		for i, a := range allAlgs {
			if a == name {
				return uint8(i)
			}
		}
		panic("no alg " + name)
	}
	fitAlg := map[string]string{"rsa": "RS256", "ec": "ES256", "ed": "EdDSA", "x25519": "EdDSA", "ecdh": "ES256", "oct": "A128CBC"}
	for _, k := range m.keys {
		a := idx(fitAlg[k.Kind])
		if k.JWKPriv != "" {
			f.Add([]byte(k.JWKPriv), uint8(1), a, aux)
			f.Add([]byte(k.JWKPriv), uint8(0), idx("RSA-OAEP-256"), aux)
		}
		if k.JWKPub != "" {
			f.Add([]byte(k.JWKPub), uint8(0), a, aux)
		}
		for _, p := range k.PEM {
			f.Add(p, uint8(2), a, aux)
			f.Add(p, uint8(0), a, aux)
		}
		if raw, ok := k.Priv.([]byte); ok {
			f.Add(raw, uint8(0), idx("A128GCM"), aux)
			f.Add([]byte(base64.StdEncoding.EncodeToString(raw)), uint8(0), idx("A256KW"), aux)
		}
	}
	for _, s := range keyJSONHostile[:len(keyJSONHostile)-1] {
		f.Add([]byte(s), uint8(0), idx("EdDSA"), aux)
	}
	for _, b := range [][]byte{{}, {0}, make([]byte, 7), make([]byte, 8), make([]byte, 15), make([]byte, 16), []byte("{234567890123456"), []byte("-----"), []byte("-----BEGIN"), []byte("=\n")} {
		f.Add(b, uint8(0), idx("A128KW"), aux)
	}
	f.Add(certPEM(m.chains[0]), uint8(2), idx("RS256"), aux)
	sec := fuzzSec("FuzzParseKeyUse")
	f.Fuzz(func(t *testing.T, raw []byte, ctype uint8, alg uint8, aux []byte) {
		c := keyCase{Raw: raw, CType: keyCTypes[int(ctype)%len(keyCTypes)], Use: keyUseFromBytes(alg, aux), Note: "fuzz"}
		settle(t, sec, runKey(c), vk.FP("key", c.Raw, c.CType, c.Use.Algs))
	})
}
