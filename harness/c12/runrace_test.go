package c12

import (
	"context"
	"errors"
	"fmt"
	"runtime"
	"sync"
	"sync/atomic"
	"testing"

	"github.com/dapr/kit/concurrency"
	"pgregory.net/rapid"

	"verifharness/vk"
)

// Run racing Run. "A manager runs at most once": several goroutines call Run of one fresh manager at the same instant
// (real threads, a start gate, thousands of fresh managers). Timing-free oracle: every runner was started exactly
// once, exactly one Run call ran the runners (returned their result), and every other call returned
// ErrManagerAlreadyStarted. The same for a RunnerCloserManager (runners once, closers once).
type runRaceCase struct {
	Kind    string // runner-manager | closer-manager
	Callers int
	Runners int
	Procs   int
	Rounds  int
}

func (c runRaceCase) String() string {
	return fmt.Sprintf("run-vs-run{%s callers=%d runners=%d gomaxprocs=%d rounds=%d}", c.Kind, c.Callers, c.Runners, c.Procs, c.Rounds)
}

func runRunRace(c runRaceCase) string {
	defer runtime.GOMAXPROCS(runtime.GOMAXPROCS(c.Procs))
	log := quietLogger()
	for round := 0; round < c.Rounds; round++ {
		starts := make([]atomic.Int32, c.Runners)
		var closerCalls atomic.Int32
		var rs []concurrency.Runner
		for i := 0; i < c.Runners; i++ {
			rs = append(rs, func(context.Context) error { starts[i].Add(1); return nil })
		}
		var run func(context.Context) error
		if c.Kind == "runner-manager" {
			run = concurrency.NewRunnerManager(rs...).Run
		} else {
			m := concurrency.NewRunnerCloserManager(log, nil, rs...)
			if err := m.AddCloser(func() { closerCalls.Add(1) }); err != nil {
				return fmt.Sprintf("round %d: AddCloser before Run: %v", round, err)
			}
			run = m.Run
		}
		results := make([]error, c.Callers)
		var wg sync.WaitGroup
		var ready sync.WaitGroup
		gate := make(chan struct{})
		for k := 0; k < c.Callers; k++ {
			wg.Add(1)
			ready.Add(1)
			go func() {
				defer wg.Done()
				ready.Done()
				<-gate
				results[k] = run(context.Background())
			}()
		}
		ready.Wait()
		close(gate)
		wg.Wait()
		vk.Progress()
		ran, refused := 0, 0
		for _, e := range results {
			switch {
			case e == nil:
				ran++
			case errors.Is(e, concurrency.ErrManagerAlreadyStarted):
				refused++
			default:
				return fmt.Sprintf("round %d: a Run call returned %v", round, e)
			}
		}
		for i := range starts {
			if n := starts[i].Load(); n != 1 {
				return fmt.Sprintf("round %d: runner %d was started %d times by %d concurrent Run calls of one manager (%d calls returned nil, %d ErrManagerAlreadyStarted); a manager runs at most once", round, i, n, c.Callers, ran, refused)
			}
		}
		if ran != 1 || refused != c.Callers-1 {
			return fmt.Sprintf("round %d: of %d concurrent Run calls of one manager %d returned nil and %d ErrManagerAlreadyStarted; want exactly one that ran the runners", round, c.Callers, ran, refused)
		}
		if c.Kind == "closer-manager" && closerCalls.Load() != 1 {
			return fmt.Sprintf("round %d: the closer was called %d times", round, closerCalls.Load())
		}
	}
	return ""
}

func TestRunVersusRun(t *testing.T) {
	sec := vk.Sec("RunVersusRun")
	vk.Check(t, 12, 400, func(rt *rapid.T) {
		c := runRaceCase{Kind: rapid.SampledFrom([]string{"runner-manager", "runner-manager", "closer-manager"}).Draw(rt, "kind"), Callers: rapid.SampledFrom([]int{2, 3, 8}).Draw(rt, "callers"),
			Runners: rapid.IntRange(1, 3).Draw(rt, "runners"), Procs: rapid.SampledFrom([]int{2, 4, 16}).Draw(rt, "procs"), Rounds: vk.Pick(10000, 40000)}
		var failure string
		vk.Guard("C12 "+c.String(), func() { failure = runRunRace(c) })
		if failure != "" {
			rt.Fatalf("C12 runner/closer manager violated: %s\ncase: %s", failure, c)
		}
		sec.Case(true, vk.FP(c.String()), "run-vs-run."+c.Kind)
		sec.ClassN("run-vs-run.managers", int64(c.Rounds))
		sec.Sample(func() any { return c.String() })
	})
}

// Close racing Close: several goroutines call Close of one RunnerCloserManager at the same instant - on a manager that
// never ran, and on a running one (whose Run then ends). Every call returns (no panic), the closers run exactly once,
// and on the running manager every Close returns the same joined result as Run.
func runCloseRace(c runRaceCase) string {
	defer runtime.GOMAXPROCS(runtime.GOMAXPROCS(c.Procs))
	log := quietLogger()
	for round := 0; round < c.Rounds; round++ {
		var closerCalls atomic.Int32
		boom := fmt.Errorf("runner-error-%d", round)
		started := make(chan struct{})
		m := concurrency.NewRunnerCloserManager(log, nil, func(ctx context.Context) error { close(started); <-ctx.Done(); return boom })
		if err := m.AddCloser(func() { closerCalls.Add(1) }); err != nil {
			return fmt.Sprintf("round %d: AddCloser: %v", round, err)
		}
		running := c.Kind == "running"
		runRes := make(chan error, 1)
		if running {
			go func() { runRes <- m.Run(context.Background()) }()
			<-started
		}
		results := make([]error, c.Callers)
		panics := make([]any, c.Callers)
		var wg, ready sync.WaitGroup
		gate := make(chan struct{})
		for k := 0; k < c.Callers; k++ {
			wg.Add(1)
			ready.Add(1)
			go func() {
				defer wg.Done()
				defer func() { panics[k] = recover() }()
				ready.Done()
				<-gate
				results[k] = m.Close()
			}()
		}
		ready.Wait()
		close(gate)
		wg.Wait()
		vk.Progress()
		for k, p := range panics {
			if p != nil {
				return fmt.Sprintf("round %d: Close call %d of %d simultaneous ones panicked: %v", round, k, c.Callers, p)
			}
		}
		if running {
			rr := <-runRes
			if !errors.Is(rr, boom) {
				return fmt.Sprintf("round %d: Run returned %v, want the runner's error", round, rr)
			}
			for k, e := range results {
				if !errors.Is(e, boom) {
					return fmt.Sprintf("round %d: Close call %d returned %v, Run returned %v: every Close call returns the joined runner and closer errors", round, k, e, rr)
				}
			}
			if n := closerCalls.Load(); n != 1 {
				return fmt.Sprintf("round %d: the closer was called %d times", round, n)
			}
		} else {
			for k, e := range results {
				if e != nil {
					return fmt.Sprintf("round %d: Close call %d on a manager that never ran returned %v", round, k, e)
				}
			}
			if err := m.Run(context.Background()); err == nil {
				return fmt.Sprintf("round %d: Run after Close returned nil: Close on a manager that never ran prevents a later Run", round)
			}
		}
	}
	return ""
}

func TestCloseVersusClose(t *testing.T) {
	sec := vk.Sec("CloseVersusClose")
	vk.Check(t, 10, 300, func(rt *rapid.T) {
		c := runRaceCase{Kind: rapid.SampledFrom([]string{"never-ran", "running"}).Draw(rt, "kind"), Callers: rapid.SampledFrom([]int{2, 3, 8}).Draw(rt, "callers"),
			Procs: rapid.SampledFrom([]int{2, 4, 16}).Draw(rt, "procs"), Rounds: vk.Pick(6000, 40000), Runners: 1}
		var failure string
		vk.Guard("C12 close-vs-close "+c.String(), func() { failure = runCloseRace(c) })
		if failure != "" {
			rt.Fatalf("C12 runner/closer manager violated: %s\ncase: close-vs-close %s", failure, c)
		}
		sec.Case(true, vk.FP("cvc", c.String()), "close-vs-close."+c.Kind)
		sec.ClassN("close-vs-close.managers", int64(c.Rounds))
		sec.Sample(func() any { return "close-vs-close " + c.String() })
	})
}
