package c07

import (
	"crypto/aes"
	"encoding/json"
	"fmt"
	"testing"
	"time"

	"github.com/dapr/kit/crypto/aeskw"
	"github.com/dapr/kit/metadata"

	"verifharness/vk"
)

// Regression inputs of the defects recorded for this property in KNOWN_FINDINGS.txt ("fixed: property=C07 ...") and
// of the earlier repairs this check is also the regression test of (aeskw length checks 582d5ba/a7fc9c3, the "TZ=UTC"
// parser panic f49076e, non-termination of Next 7b1d61c). Each runs through the same oracle as the generated cases.
func TestPinnedRegressions(t *testing.T) {
	sec := vk.Sec(t.Name())
	m := materials()
	i := 0
	pin := func(what string, r *report) {
		i++
		r.class("pinned:" + what)
		settle(t, sec, r, vk.FP("pinned", i))
	}

	// f49076e: a TZ=/CRON_TZ= prefix without a field list, under ParseStandard and every option set
	for _, spec := range []string{"TZ=UTC", "CRON_TZ=UTC", "TZ=", "CRON_TZ=Pacific/Apia"} {
		pin("cron-tz-only", runCron(cronCase{Std: true, Spec: spec}))
		for _, opt := range namedCronOpts {
			if !twoOptionals(opt) {
				pin("cron-tz-only", runCron(cronCase{Opt: opt, Spec: spec}))
			}
		}
	}
	// 7b1d61c: Next never returned across a calendar day the zone skipped
	apia := mustLoc("Pacific/Apia")
	pin("cron-skipped-day", runCron(cronCase{Opt: namedCronOpts[2], Spec: "TZ=Pacific/Apia 0 0 12 31 12 *", Instants: []time.Time{time.Date(2011, 12, 29, 12, 0, 0, 0, apia)}}))
	pin("cron-skipped-day", runCron(cronCase{Std: true, Spec: "CRON_TZ=Pacific/Kwajalein @weekly", Instants: []time.Time{time.Date(1993, 8, 21, 11, 59, 49, 999999999, time.UTC)}}))
	pin("cron-skipped-day", runCron(cronCase{Opt: namedCronOpts[1], Spec: "*/172 15 1 * ?", Instants: []time.Time{time.Date(1994, 12, 30, 23, 58, 12, 375536, mustLoc("Pacific/Kiritimati"))}}))

	// 582d5ba / a7fc9c3: aeskw.Unwrap below 24 bytes (makeslice / index out of range), aeskw.Wrap below 16 bytes
	for n := 0; n <= 24; n++ {
		pin("aeskw-short", runKW(kwCase{KEK: make([]byte, 16), Data: make([]byte, n), Note: "zeros"}))
		iv := make([]byte, n)
		for j := range iv {
			iv[j] = 0xa6
		}
		pin("aeskw-short", runKW(kwCase{KEK: make([]byte, 32), Data: iv, Note: "initial value"}))
	}
	block, _ := aes.NewCipher(make([]byte, 16))
	r := newReport(func() string { return "aeskw.Unwrap(nil) / aeskw.Wrap(nil)" })
	r.nontrivial()
	r.call("aeskw.Unwrap", func() { _, _ = aeskw.Unwrap(block, nil) })
	r.call("aeskw.Wrap", func() { _, _ = aeskw.Wrap(block, nil) })
	pin("aeskw-short", r)

	// C07 findings
	pin("pem-x25519-pkcs8", runPEM(pemCase{Data: m.byName["ecdh-x25519"].PEM["pkcs8"], Note: "X25519 PKCS#8", NilAt: -1}))
	pin("pem-ecdh-p256-pkcs8", runPEM(pemCase{Data: m.byName["ecdh-p256"].PEM["pkcs8"], Note: "ECDH P-256 PKCS#8", NilAt: -1}))
	for _, jwkText := range keyJSONHostile[:4] {
		pin("jwk-short-ed25519", runKey(keyCase{Raw: []byte(jwkText), CType: "application/json", Note: "pinned", Use: keyUse{Algs: []string{"EdDSA"}, Msg: []byte("m"), Tag: make([]byte, 64), Digest: []byte("m")}}))
	}
	for vi, v := range cbcVariants {
		key := vk.Expand(uint64(vi)+40, v.encKey+v.macKey)
		nonce := make([]byte, 16)
		for _, n := range []int{1, 15, 17, 31} {
			body := make([]byte, n)
			pin("aescbcaead-forged", runCBC(cbcCase{Variant: vi, Key: key, Nonce: nonce, CT: append(body, v.forgeTag(key, nil, nonce, body)...), Forged: true, Note: fmt.Sprintf("forged body=%d", n)}))
		}
	}
	pin("metadata-properties-type", runMetadata(mdCase{Container: "struct{Properties metadata.Properties}", Target: "*T", Keys: []string{"int"}, Vals: []string{"1"}}))
	pin("metadata-properties-type", runMetadata(mdCase{Container: "struct{Properties map[string]any}", Target: "*T", Keys: []string{"int"}, Vals: []string{"1"}}))
	for _, q := range []string{"1e-2147483647", "1e-6442450943", "5e-2000000000", "1E-2147483647", "1.5e-2147483647"} {
		pin("bytesize-exponent", runMetadata(mdCase{Container: "map[string]string", Target: "*T", Keys: []string{"size"}, Vals: []string{q}}))
		pin("bytesize-exponent", runMetadata(mdCase{Container: "map[string]string", Target: "*T", Keys: []string{"sizePtr"}, Vals: []string{q}}))
		pin("bytesize-exponent", runMDScalar(mdScalarCase{JSON: []byte(`"` + q + `"`)}))
		pin("bytesize-exponent", runMDScalar(mdScalarCase{JSON: []byte(q)}))
	}
	for _, q := range []string{"1e-30000000 ", " 1e-2147483647", "1e-2147483647\n", "\t1e-6442450943\t"} {
		b, _ := json.Marshal(q)
		pin("bytesize-exponent-whitespace", runMDScalar(mdScalarCase{JSON: b}))
		pin("bytesize-exponent-whitespace", runMetadata(mdCase{Container: "map[string]string", Target: "*T", Keys: []string{"size"}, Vals: []string{q}}))
	}
	_ = metadata.ByteSize{}
}
