CFG = dict(
     claimed=True,
     rule="Cases: (entry point, algorithm name, key kind/length, nonce length, message length, associated-data length, one optional "
          "mutation = single-byte change | truncation | extension of one of ciphertext/tag/nonce/associated data/key/wrapped key/"
          "digest/signature) for the 19 symmetric, 5 RSA-encryption and 10 signature algorithms through Encrypt/Decrypt, "
          "EncryptSymmetric/DecryptSymmetric, EncryptPublicKey/DecryptPrivateKey, SignPrivateKey/VerifyPublicKey, and directly for "
          "aeskw.Wrap/Unwrap, the four aescbcaead AEADs (dst forms incl. in place) and padding. Exhaustive tables: algorithm x key "
          "length 1..72 x nonce length 0..32 (x tag length 0..32 on decryption), message lengths 0..80, every key kind, PKCS#7 "
          "block sizes 2..255; sweeps of every byte position for the mutations; rapid for the rest. Long sizes (classes kw.counter.2bytes/"
          "3bytes, sym.long-message.*, sym.long-aad.*, aead.long-*): RFC 3394 key data of every block count 11..320 and of the block "
          "counts at which a step counter n*j+i first needs a second/third byte (up to 65537 blocks) for aeskw.Wrap/Unwrap, with "
          "misaligned neighbours, spread single-byte changes, truncations and extensions; every algorithm x entry point x message "
          "lengths around 256/4096/65536 bytes and 344/87384 bytes (key-wrap counter carries) and associated data around 256/65536 "
          "bits and bytes; rapid draws one case in 5..10 long (messages to 5120 bytes, associated data to 9000, key data to 12000 blocks). "
          "Multi-call sequences in one process (classes seq.*, matrix.*): 2..24 calls by one goroutine mixed over all entry points (incl. aeskw and "
          "aescbcaead directly), algorithms, three symmetric keys (the same key material at several sizes, shared or newly built jwk.Key objects), "
          "the fixed key pairs and message sizes 0..20000, with rejected decryptions, runtime.GC(), caller-side overwrites of a result and "
          "GOMAXPROCS(1) sections in between; every result of the last K calls (plaintext, ciphertext, tag, wrapped/unwrapped key, RSA "
          "ciphertext/plaintext, signature) is kept exactly as returned and compared with the reference after EVERY later call; every ordered "
          "pair of symmetric algorithms x four size pairs as a fixed sequence; kind-mismatch probes (8 entry points x algorithm x unsuitable "
          "fixed key, preferably the other half / another form of a key pair used earlier in the sequence) between the successful calls, and the "
          "complete mismatch matrix before and again after every fixed key was used successfully with every algorithm it suits; the single-case "
          "oracle also re-reads the first plaintext, ciphertext and tag after the decryption of the mutated twin. Non-trivial: a successful "
          "operation on a non-empty message, or a rejection case whose unmutated twin succeeded. (sequences: a non-empty held result was re-verified after a later call.) Distinct by (entry point, algorithm, "
          "key class, lengths, mutated component and position; sequences: the list of steps), not by the random content.",
     assumptions=["Go standard library crypto (AES, GCM, HMAC, RSA, ECDSA, Ed25519) and golang.org/x/crypto/chacha20poly1305 are correct: they are the interoperability peers",
                  "the harness' own RFC 3394 / RFC 7518 5.2 / PKCS#7 implementations are right (self-tested against the RFC 3394 section 4 and RFC 7518 appendix B vectors)",
                  "lestrrat-go/jwx builds jwk.Key values faithfully from raw keys",
                  "rejections that hold only with overwhelming probability (2^-64 for key wrap, 2^-128 for tags) are treated as certain"],
     technique="property-based testing (rapid) + exhaustive size/kind tables and per-byte mutation sweeps, differential against independent "
               "implementations written from the RFCs and against the Go standard library",
     level_text="Generated-input search: every case runs the real dapr/kit crypto code and is judged by an explicit oracle (byte-for-byte "
                "equality with an independent implementation for the deterministic algorithms, cross-verification for the randomized ones, "
                "rejection with the documented sentinel and no output). Exhaustive for the size tables and key kinds; sampled beyond. No absence claim.",
     level_note="Not asserted: rejection of changed unauthenticated ciphertext (raw AES-CBC, RSA PKCS#1 v1.5), of a different key of the right "
                "size, or of bytes appended to a full-size ECDSA digest; which sentinel wins when several components are wrong; behaviour for a "
                "nonce/tag handed to an algorithm that has none. Empty symmetric keys cannot be built as jwk.Key and are not covered.",
     timeout_quick=600, timeout_thorough=2400)
CFG["rule"] += ' RSA keys of 2047 and 2055 bits (modulus length not a multiple of eight) take part in every RSA case class, with message lengths at the exact maximum.'
CFG["rule"] += " TestRSAKeyStructuresUnderRepoToolchain: RSA private keys with only n, e, d, run by a case program under the repository's own Go toolchain (skipped - zero cases - when the default go does not match go.mod). TestSymHugeLengths: every algorithm at lengths of 256 KiB to 4 MiB at and off block boundaries under GOMAXPROCS default, 2, 3, 5."
CFG["rule"] += ' Before any sweep runs, a caller filters, overwrites and sorts in place the supported-algorithm lists it was handed; the lists read the same afterwards and every sweep of the process runs after that.'
CFG["rule"] += ' TestSymRecordLayout: every symmetric algorithm that takes associated data (EncryptSymmetric/DecryptSymmetric) and the four aescbcaead AEADs directly, message 0..200 and associated data 0..40 bytes, with the arguments handed over as sub-slices WITHOUT capacity limits of one record buffer [aad | nonce | plaintext-or-ciphertext | tag] in a drawn field order (or separately allocated): the decryption returns the plaintext, twice from the same record, and no call changes the record it read from; non-trivial there: shared record, non-empty associated data with a non-empty field directly behind it.'
