CFG = dict(
     claimed=True,
     rule="Cases: RunnerManager or RunnerCloserManager with 0..4 runners {return after a fixed virtual delay | wait for cancellation "
          "then return after a delay} x result {nil, distinct error, context.Canceled, wrapped Canceled, ctx.Err()}, optional parent "
          "cancellation, 0..4 closers of every accepted type (io.Closer, func(ctx) error, func() error, func()) and an unsupported "
          "one, each with a distinct virtual duration and nil/error result, registered before Run or through AddCloser during the "
          "run (before/after the runners finished), grace period none | generous | shorter than the slowest closer, 0..3 Close calls "
          "before Run / at instants during and after it, Add during the run, second Run. Executed in a synctest bubble; every "
          "start/ctx-done/return/closer/fatal event is stamped with virtual time and compared with the instants the statement "
          "implies (exact, all instants are tie-free by construction). Plus the exhaustive enumeration of every order of {Run called, racing Add/AddCloser called and parked at the verif point between its flag test and its lock, released, runners finish, closers finish} for AddCloser, RunnerManager.Add and RunnerCloserManager.Add (accepted => honoured, rejected => never executed, Run returns). Non-trivial: >= 2 runners with different outcomes (and >= 1 "
          "closer for the closer manager), or a Close during the run. Distinct by full case.",
     technique="model-based property testing (rapid; generated topologies and timelines in testing/synctest bubbles; event-log oracle with exact virtual instants)",
     level_text="Every generated topology runs against the real managers; the oracle derives from the statement when each runner "
                "must see cancellation, when Run/Close may return, which errors are joined, and whether the fatal action fires.",
     level_note="Trusts testing/synctest virtual time. Ties (Close at the instant Run is called, grace equal to a closer duration) "
                "are excluded because the statement defines no winner. The Add/AddCloser flag-test/lock windows are placed through verif points (concurrency package).",
     assumptions=["testing/synctest virtual time is correct", "fatal action replaced through the repository's own WithFatalShutdown (unit tag)"],
     timeout_quick=300, timeout_thorough=2400)
CFG["rule"] += ' Added after independently written breaking changes: Runners are registered through the constructor, through Add before Run, or both.'
CFG["rule"] += ' Grace periods: none, generous, short, zero and negative (a given, non-positive grace period is over when the closers start). TestRunVersusRun: 2-8 goroutines call Run of one fresh manager behind a gate, thousands of managers; every runner started exactly once, exactly one call ran them, the others got ErrManagerAlreadyStarted.'
CFG["rule"] += " TestCtorSliceStaysCallers: two managers constructed from overlapping parts of one slice, then Add and Run on the first: the second starts every runner it was given. Runner results also include the runner's own deadline errors (bare, wrapped)."
CFG["rule"] += ' TestCloseVersusClose: 2-8 simultaneous Close calls on fresh and on running managers: no panic, closers once, every Close returns the result of Run.'
