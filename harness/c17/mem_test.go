package c17

import (
	"fmt"
	"strings"
	"testing"

	"pgregory.net/rapid"

	"verifharness/refcrypto"
	"verifharness/vk"
)

// op is one exported function (or function x entry point) with the algorithms and paths it has.
type op struct {
	Name  string
	Algs  []string
	Modes func(alg string) []string
	Run   func(k *call)
	Heavy bool // RSA private-key operation inside (milliseconds)
	DstOp bool // takes an explicit AEAD dst
	Pk    int  // number of []byte arguments that can be sub-slices of one caller buffer (memCase.Pack numbers them)
	PkArg []string
	// Sized reports whether memCase.Len is the length of an argument of the call for this algorithm and path without an upper bound
	// (nil: always). False where the length is fixed by the algorithm (digests) or bounded by the key (RSA plaintexts).
	Sized func(alg, mode string) bool
	Aad   bool // takes associated data / a label of any length (memCase.AadLen)
	Doc   bool // takes a key or a certificate as text: the document is a base form (Alg) put through textual transforms (memCase.Text), see keydoc_test.go
}

func (o op) sized(alg, mode string) bool { return o.Sized == nil || o.Sized(alg, mode) }

func never(string, string) bool { return false }

// sigSized: the signature functions take a digest of the algorithm's length, except EdDSA (the message itself) and the path that hands in a digest of the wrong size.
func sigSized(alg, mode string) bool {
	s, _ := refcrypto.Sig(alg)
	return s.DigestLen() == 0 || mode == "baddigestsize"
}

func fixed(m []string) func(string) []string { return func(string) []string { return m } }

func names[T any](xs []T, f func(T) string) []string {
	var out []string
	for _, x := range xs {
		out = append(out, f(x))
	}
	return out
}

var (
	symAlgs  = names(refcrypto.SymSpecs, func(s refcrypto.SymSpec) string { return s.Name })
	rsaAlgs  = names(refcrypto.RSAEncSpecs, func(s refcrypto.RSAEncSpec) string { return s.Name })
	sigAlgs  = names(refcrypto.SigSpecs, func(s refcrypto.SigSpec) string { return s.Name })
	aeadAlgs = names(refcrypto.CBCHMACVariant, func(s refcrypto.CBCHMAC) string { return s.Name })
	kekAlgs  = []string{"AES-128", "AES-192", "AES-256"}
	padAlgs  = []string{"block-16", "block-8", "block-2", "block-255", "block-32"}
)

// ops: every exported function of crypto, crypto/aeskw, crypto/padding, crypto/aescbcaead and crypto/pem
// that takes a []byte - as a parameter, behind a jwk.Key, or as a key type that is a []byte (the aescbcaead
// constructors are exercised through Seal/Open - the key they are given is one of the checked arguments - and,
// for their failure paths, on their own).
var ops = []op{
	{Name: "crypto.EncryptSymmetric", Algs: symAlgs, Modes: symEncModes, Run: func(k *call) { k.symEnc("sym") }, PkArg: symEncArgs, Aad: true},
	{Name: "crypto.Encrypt", Algs: symAlgs, Modes: symEncModes, Run: func(k *call) { k.symEnc("generic") }, PkArg: symEncArgs, Aad: true},
	{Name: "crypto.DecryptSymmetric", Algs: symAlgs, Modes: symDecModes, Run: func(k *call) { k.symDec("sym") }, PkArg: symDecArgs, Aad: true},
	{Name: "crypto.Decrypt", Algs: symAlgs, Modes: symDecModes, Run: func(k *call) { k.symDec("generic") }, PkArg: symDecArgs, Aad: true},
	{Name: "crypto.EncryptPublicKey", Algs: rsaAlgs, Modes: fixed(rsaEncModes), Run: func(k *call) { k.rsaEnc("pub") }, PkArg: rsaEncArgs, Sized: never, Aad: true},
	{Name: "crypto.Encrypt(rsa)", Algs: rsaAlgs, Modes: fixed(rsaEncModes), Run: func(k *call) { k.rsaEnc("generic") }, PkArg: rsaEncArgs, Sized: never, Aad: true},
	{Name: "crypto.DecryptPrivateKey", Algs: rsaAlgs, Modes: fixed(rsaDecModes), Run: func(k *call) { k.rsaDec("pub") }, Heavy: true, PkArg: rsaDecArgs, Sized: never, Aad: true},
	{Name: "crypto.Decrypt(rsa)", Algs: rsaAlgs, Modes: fixed(rsaDecModes), Run: func(k *call) { k.rsaDec("generic") }, Heavy: true, PkArg: rsaDecArgs, Sized: never, Aad: true},
	{Name: "crypto.SignPrivateKey", Algs: sigAlgs, Modes: fixed(signModes), Run: func(k *call) { k.sign() }, Heavy: true, Sized: sigSized},
	{Name: "crypto.VerifyPublicKey", Algs: sigAlgs, Modes: verifyModesFor, Run: func(k *call) { k.verify() }, Heavy: true, PkArg: []string{"digest", "signature"}, Sized: func(alg, _ string) bool { return sigSized(alg, "") }},
	{Name: "crypto.ParseKey", Algs: docFormNames(nil), Modes: fixed(parseKeyModes), Run: func(k *call) { k.parseKey() }, Sized: docSized, Doc: true},
	{Name: "crypto.SerializeKey", Algs: serializeAlgs, Modes: fixed([]string{"ok"}), Run: func(k *call) { k.serializeKey() }, Sized: func(alg, _ string) bool { return alg == "oct" }},
	{Name: "pem.DecodePEMCertificates", Algs: pemDocAlgs, Modes: fixed([]string{"call"}), Run: func(k *call) { k.pemDecode("certs") }, Sized: docSized, Doc: true},
	{Name: "pem.DecodePEMCertificatesChain", Algs: pemDocAlgs, Modes: fixed([]string{"call"}), Run: func(k *call) { k.pemDecode("chain") }, Sized: docSized, Doc: true},
	{Name: "pem.DecodePEMPrivateKey", Algs: pemDocAlgs, Modes: fixed([]string{"call"}), Run: func(k *call) { k.pemDecode("key") }, Sized: docSized, Doc: true},
	{Name: "pem.PublicKeysEqual", Algs: []string{"ed25519"}, Modes: fixed(keysEqualModes), Run: func(k *call) { k.publicKeysEqual() }, PkArg: []string{"a", "b"}, Sized: never},
	{Name: "pem.EncodePrivateKey", Algs: []string{"ed25519"}, Modes: fixed(encodeKeyModes), Run: func(k *call) { k.encodePrivateKey() }, Sized: never},
	{Name: "aescbcaead.New", Algs: aeadAlgs, Modes: fixed(ctorModes), Run: func(k *call) { k.aeadNew() }, Sized: never},
	{Name: "aeskw.Wrap", Algs: kekAlgs, Modes: fixed(wrapModes), Run: func(k *call) { k.wrap() }},
	{Name: "aeskw.Unwrap", Algs: kekAlgs, Modes: fixed(unwrapModes), Run: func(k *call) { k.unwrap() }},
	{Name: "padding.PadPKCS7", Algs: padAlgs, Modes: fixed(padModes), Run: func(k *call) { k.pad() }},
	{Name: "padding.UnpadPKCS7", Algs: padAlgs, Modes: fixed(unpadModes), Run: func(k *call) { k.unpad() }},
	{Name: "aescbcaead.Seal", Algs: aeadAlgs, Modes: fixed(sealModes), Run: func(k *call) { k.seal() }, DstOp: true, PkArg: []string{"key", "plaintext", "nonce", "additionalData"}, Aad: true},
	{Name: "aescbcaead.Open", Algs: aeadAlgs, Modes: fixed(openModes), Run: func(k *call) { k.open() }, DstOp: true, PkArg: []string{"key", "ciphertext", "nonce", "additionalData"}, Aad: true},
}

// the []byte arguments that memCase.Pack numbers, in declaration order
var (
	symEncArgs = []string{"plaintext", "nonce", "associatedData"}
	symDecArgs = []string{"ciphertext", "nonce", "tag", "associatedData"}
	rsaEncArgs = []string{"plaintext", "associatedData"}
	rsaDecArgs = []string{"ciphertext", "associatedData"}
)

func init() {
	for i := range ops {
		ops[i].Pk = len(ops[i].PkArg)
	}
}

func opByName(n string) op {
	for _, o := range ops {
		if o.Name == n {
			return o
		}
	}
	panic("harness: no op " + n)
}

// checkMem runs one case and compares every byte the callee had no right to write.
func checkMem(c memCase) (string, caseStat) {
	msg, st, a := runMem(c)
	a.release()
	return msg, st
}

// runMem is checkMem that also hands out the arena of the call (for the checks over sequences of calls); the caller releases it.
func runMem(c memCase) (string, caseStat, *arena) {
	var st caseStat
	k := &call{c: c, a: &arena{seed: c.Seed, fenced: c.Mem == "fenced"}}
	opByName(c.Op).Run(k)
	if k.harness != "" {
		return "harness: " + k.harness, st, k.a
	}
	if k.a.faultMsg != "" {
		return fmt.Sprintf("%s wrote to memory owned by the caller: %s", c.Op, k.a.faultMsg), st, k.a
	}
	if msg := k.a.diff(); msg != "" {
		return fmt.Sprintf("%s wrote to memory owned by the caller: %s (call returned err=%v panic=%v)", c.Op, msg, k.err, k.pnc), st, k.a
	}
	if k.keyMsg != "" {
		return c.Op + ": " + k.keyMsg, st, k.a
	}
	lay := k.a.layoutClasses()
	for _, l := range lay {
		if l == "layout.overlap" && c.Mode != "ok" {
			k.reached = false // overlapping arguments change each other's content: only a call that succeeded is known to have got to the primitive
		}
	}
	st.nontrivial = k.reached && k.a.anySpare()
	st.classes = append(st.classes, "op."+c.Op, "mode."+c.Mode)
	st.classes = append(st.classes, lay...)
	st.classes = append(st.classes, k.classes...)
	st.classes = append(st.classes, k.a.memClasses()...)
	if st.nontrivial && k.a.fenced && k.a.fenceErr == nil {
		st.classes = append(st.classes, "mem.fenced.nontrivial")
	}
	if len(c.Pack) > 0 {
		st.classes = append(st.classes, "cap."+c.Cap)
	}
	if k.reached {
		st.classes = append(st.classes, "reached")
		if len(c.Pack) > 0 {
			st.classes = append(st.classes, "reached.packed")
		}
	}
	if k.pnc != nil {
		st.classes = append(st.classes, "call.panicked")
	}
	if c.Dst != "" {
		st.classes = append(st.classes, "dst."+c.Dst)
	}
	// the size class of the longest argument of the call (".with-spare": it is read-only and has spare capacity behind its length)
	if n, spare := k.a.longest(); n >= 0 {
		cl := "size." + sizeClass(n)
		st.classes = append(st.classes, cl)
		if n >= bigFrom-64 { // from "just below 1 KiB" on
			st.classes = append(st.classes, "size.large")
			if spare && k.reached {
				st.classes = append(st.classes, "size.large.reached.with-spare", cl+".reached.with-spare")
			}
		}
	}
	for _, r := range k.results {
		for _, n := range k.a.aliases(r) {
			// informational: the result lives in the argument's memory (expected for UnpadPKCS7 and for an explicit dst)
			if strings.HasPrefix(n, "packed(") {
				n = "packed"
			}
			st.classes = append(st.classes, "result-aliases."+c.Op+"."+n)
		}
	}
	return "", st, k.a
}

type caseStat struct {
	nontrivial bool
	classes    []string
}

var sweepLens = []int{0, 1, 15, 16, 17, 31, 32, 33, 48}
var sweepSpares = [][]int{{0}, {1}, {15}, {16}, {17}, {64}, {3, 0, 64, 1, 16, 9}, {0, 64, 0, 33, 0, 2}}

// TestMemSweep: every function x algorithm x path x message length around the block
// boundaries x spare-capacity pattern (uniform 0, 1, 15, 16, 17, 64 and two mixed
// patterns) x dst form for the AEAD calls. Exhaustive over (function, argument
// position, algorithm, path); the RSA private-key operations use a reduced length set.
func TestMemSweep(t *testing.T) {
	sec := vk.Sec("MemSweep")
	idx := 0
	for _, o := range ops {
		for _, alg := range o.Algs {
			for _, mode := range o.Modes(alg) {
				lens := sweepLens
				if vk.Thorough() {
					lens = nil
					for l := 0; l <= 65; l++ {
						lens = append(lens, l)
					}
				}
				if o.Heavy {
					lens = []int{0, 17, 32}
				}
				if o.Doc && !o.sized(alg, mode) {
					lens = []int{17} // a fixed document: the length plays no part
				}
				if strings.HasPrefix(mode, "enc.") && !o.sized(alg, mode) {
					lens = []int{17} // an encoding of the signature over a digest of fixed size: the length plays no part
				}
				for _, l := range lens {
					for si, sp := range sweepSpares {
						dsts := []string{""}
						if o.DstOp {
							dsts = dstForms
						}
						for _, d := range dsts {
							idx++
							if !vk.Mine(idx) {
								continue
							}
							c := memCase{Op: o.Name, Alg: alg, Mode: mode, Len: l, AadLen: []int{0, 13}[idx%2], Spare: sp, Dst: d, DstLen: []int{0, 5}[si%2], NilEmpty: si == 0 && l == 0, Mem: sweepMem(idx), Seed: uint64(idx) * 0x9e3779b97f4a7c15}
							msg, st := checkMem(c)
							if msg != "" {
								t.Fatalf("C17 caller memory violated: %s\ncase: %s", msg, c)
							}
							sec.Case(st.nontrivial, c.fp(), st.classes...)
							sec.Sample(func() any { return c.String() })
						}
					}
				}
			}
		}
	}
}

// drawCase draws one call of o: algorithm, path, lengths, spare capacities, dst form and the layout of the
// arguments in the caller's memory.
// big (0..8) is the weight, in eighths, of the large size classes (see size_test.go) among the message lengths.
func drawCase(rt *rapid.T, o op, big int) memCase {
	c := memCase{Op: o.Name, Alg: rapid.SampledFrom(o.Algs).Draw(rt, "alg")}
	modes := o.Modes(c.Alg)
	c.Mode = modes[0]
	if rapid.Bool().Draw(rt, "failurePath") {
		c.Mode = rapid.SampledFrom(modes).Draw(rt, "mode")
	}
	if !o.sized(c.Alg, c.Mode) {
		big = 0
	}
	thr := sizeThresholds
	if granularity(o, c.Alg) == 8 {
		thr = sizeThresholds[:5] // key wrap does six block encryptions per 8 bytes: the random cases stay at or below 16 KiB (SizeSweep goes through all the switch points)
	}
	c.Len = drawLen(rt, "len", big, thr, rapid.OneOf(rapid.SampledFrom(sweepLens), rapid.IntRange(0, 200)))
	aadBig := 0
	if o.Aad && big > 0 {
		aadBig = 1
	}
	c.AadLen = drawLen(rt, "aadLen", aadBig, sizeThresholds, rapid.OneOf(rapid.Just(0), rapid.IntRange(0, 40)))
	c.Spare = rapid.SliceOfN(rapid.OneOf(rapid.IntRange(0, 64), rapid.SampledFrom([]int{0, 1, 15, 16, 17, 32, 64})), 1, 6).Draw(rt, "spare")
	if o.DstOp {
		c.Dst = rapid.SampledFrom(dstForms).Draw(rt, "dst")
		c.DstLen = rapid.IntRange(0, 20).Draw(rt, "dstLen")
	}
	c.NilEmpty = rapid.Bool().Draw(rt, "nilEmpty")
	if o.Doc {
		c.Text = drawText(rt)
	}
	if o.Pk >= 2 && rapid.Bool().Draw(rt, "packed") {
		idx := make([]int, o.Pk)
		for i := range idx {
			idx[i] = i
		}
		n := rapid.IntRange(2, o.Pk).Draw(rt, "packN")
		c.Pack = rapid.Permutation(idx).Draw(rt, "packOrder")[:n]
		// mostly adjacent; sometimes a few bytes between the arguments, sometimes overlapping arguments
		c.Gap = rapid.SliceOfN(rapid.OneOf(rapid.Just(0), rapid.Just(0), rapid.IntRange(1, 40), rapid.IntRange(-40, -1)), n-1, n-1).Draw(rt, "gap")
		c.Cap = rapid.SampledFrom(capModes).Draw(rt, "cap")
	}
	c.Mem = rapid.SampledFrom(memKinds).Draw(rt, "mem")
	c.Seed = rapid.Uint64().Draw(rt, "seed")
	return c
}

var capModes = []string{"end", "gap", "len"}

// dstForms: how the caller of an AEAD passes dst: nil; a separate buffer with a few bytes of capacity (the result is reallocated unless it is tiny);
// a separate buffer with room for the whole result; the message argument itself (x[:0]).
var dstForms = []string{"nil", "sep", "room", "inplace", "inplace-capped"}

func TestMemRapid(t *testing.T) {
	sec := vk.Sec("MemRapid")
	var light, heavy []op
	for _, o := range ops {
		if o.Heavy {
			heavy = append(heavy, o)
		} else {
			light = append(light, o)
		}
	}
	vk.Check(t, 20000, 3000000, func(rt *rapid.T) {
		pool := light
		if rapid.IntRange(0, 39).Draw(rt, "heavy?") == 0 {
			pool = heavy
		}
		o := pool[rapid.IntRange(0, len(pool)-1).Draw(rt, "op")]
		c := drawCase(rt, o, 2)
		msg, st := checkMem(c)
		if msg != "" {
			rt.Fatalf("C17 caller memory violated: %s\ncase: %s", msg, c)
		}
		sec.Case(st.nontrivial, c.fp(), st.classes...)
		sec.Sample(func() any { return c.String() })
	})
}
