CFG = dict(
     claimed=True,
     rule="Cases: interval 2ms|10ms|1s x histories of up to 24 steps over {Batch(key 0..2, fresh value), burst = n rounds of Batch + "
          "advance one interval (n up to 60, i.e. more than the 50-slot internal buffer), Subscribe(prompt reader | manual reader, "
          "channel capacity 0..2), read/drain of a manual subscriber, cancel(subscriber), clock advance (half / one / two "
          "intervals, to the next due instant, 1ms), Close}; then every stalled subscriber leaves with its buffer full, one more "
          "Batch, Close. Run in a synctest bubble. Oracle while nobody exerts backpressure: exact debounce model (last value per key, "
          "due = last Batch + interval, delivered once in due order, never > 0.5ms early and not late, identical sequence for all "
          "subscribers); under backpressure: no duplicates, Batch-call order, nothing early, subscribers agree on the period both "
          "covered; after departures: deliveries, later Batch and Close all complete (else a settled snapshot with goroutines parked "
          "on the batcher's mutex = wedge); after Close every subscriber channel is closed and nothing more arrives. Plus the "
          "enumeration stalled subscriber at every position among 1..3 prompt ones x 53/56/60 outstanding. Non-trivial: a "
          "suppressed value with >= 2 subscribers, or a departure with a full buffer. Distinct by history.",
     technique="model-based property testing (rapid; scripted histories in testing/synctest bubbles; debounce reference model; wedge = stable goroutine-state predicate)",
     level_text="Generated timelines against a reference debounce model with exact virtual time; the wedge is decided as a state "
                "predicate (settled snapshot, goroutines parked on a mutex that nothing present can release).",
     level_note="Trusts testing/synctest, runtime.Stack goroutine states, rapid. Backpressure from a present stalled subscriber is "
                "legal; Close is only issued while a subscriber is stalled when that subscriber is about to leave.",
     assumptions=["testing/synctest and runtime.Stack(all) snapshots are correct", "constant interval, so due order equals Batch-call order"],
     timeout_quick=600, timeout_thorough=3000)
CFG["rule"] += " Added after independently written breaking changes: Also Subscribe calls with several channels (one shared context) and an injected fake clock (WithClock) a year away from the bubble's time."
CFG["rule"] += ' Subscriber contexts are plain cancel contexts, contexts of a foreign type that relays cancellation some scheduler yields late (vk.RelayCtx), or busy parents with 300 other children. loop.empty is one of the processor points of the points sweep.'
