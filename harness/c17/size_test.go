package c17

import (
	"fmt"
	"testing"

	"pgregory.net/rapid"

	"verifharness/refcrypto"

	"verifharness/vk"
)

// Size classes. An implementation is free to treat messages of different sizes differently (a copying path for
// short messages and a streaming / zero-copy / pooled-buffer path for long ones; typical switch points are 1, 2, 4, 8,
// 16, 32, 64 and 128 KiB), and the property holds for all of them: the lengths of the message argument - and of the
// associated data - are therefore also taken just below, at and just above each of these sizes, at whole AES blocks
// and one byte off them, with spare capacity behind the arguments as for the short messages.

// bigFrom: lengths from here on count as "large" (the first switch point).
const bigFrom = 1 << 10

var sizeThresholds = []int{1 << 10, 2 << 10, 4 << 10, 8 << 10, 16 << 10, 32 << 10, 64 << 10, 128 << 10}

// offsets around a switch point T: T itself and its neighbours, the neighbouring whole blocks (T is a whole number of 8- and
// 16-byte blocks) and one byte on either side of those.
var sizeOffsets = []int{-17, -16, -15, -1, 0, 1, 15, 16, 17}

// sizeMenu lists T+off for every switch point.
func sizeMenu(thresholds, offsets []int) []int {
	var out []int
	for _, T := range thresholds {
		for _, o := range offsets {
			out = append(out, T+o)
		}
	}
	return out
}

func kib(n int) string { return fmt.Sprintf("%dKiB", n>>10) }

// sizeClass names the size class of an argument length for the evidence.
func sizeClass(n int) string {
	for _, T := range sizeThresholds {
		switch {
		case n == T:
			return "at-" + kib(T)
		case n >= T-64 && n < T:
			return "just-below-" + kib(T)
		case n > T && n <= T+64:
			return "just-above-" + kib(T)
		}
	}
	switch {
	case n <= 64:
		return "0..64"
	case n < bigFrom:
		return "65..1KiB"
	}
	for _, T := range sizeThresholds {
		if n < 2*T {
			return "between-" + kib(T) + "-and-" + kib(2*T)
		}
	}
	return "beyond"
}

// drawLen draws a length: with probability big/8 one of the large size classes (a switch point and an offset from the
// menu, or any offset within 64 bytes, or any length between the switch point below and this one), otherwise what
// small draws. thresholds: the switch points to choose from.
func drawLen(rt *rapid.T, label string, big int, thresholds []int, small *rapid.Generator[int]) int {
	if rapid.IntRange(0, 7).Draw(rt, label+"SizeKind") < 8-big {
		return small.Draw(rt, label)
	}
	T := rapid.SampledFrom(thresholds).Draw(rt, label+"Near")
	off := rapid.OneOf(rapid.SampledFrom(sizeOffsets), rapid.SampledFrom(sizeOffsets), rapid.IntRange(-64, 64), rapid.IntRange(-T/2, 0)).Draw(rt, label+"Off")
	return T + off
}

// granularity is the unit the message of a successful call is a multiple of (the case generators round Len down to it).
func granularity(o op, alg string) int {
	if s, ok := refcrypto.Spec(alg); ok {
		return s.PtMod
	}
	if o.Name == "aeskw.Wrap" || o.Name == "aeskw.Unwrap" {
		return 8
	}
	return 1
}

// wholeUnits rounds the lengths down to multiples of g, adds the next multiple, and drops duplicates (for g > 1 the menu
// becomes: the whole units at and around each switch point).
func wholeUnits(menu []int, g int) []int {
	if g <= 1 {
		return menu
	}
	seen := map[int]bool{}
	var out []int
	for _, n := range menu {
		for _, m := range []int{n - n%g, n - n%g + g} {
			if !seen[m] {
				seen[m] = true
				out = append(out, m)
			}
		}
	}
	return out
}

// spare-capacity patterns of the size sweep: every argument with the full 64 bytes; every argument with exactly one
// block; a mixed pattern; one byte.
var sizeSpares = [][]int{{64}, {16}, {1, 16, 0, 64, 3, 9}, {1}}

// TestSizeSweep: every function x algorithm x path whose message (or associated data) can have any length x that
// length at every switch point of the menu (1 KiB .. 128 KiB) x offsets -17 .. +17 around it x spare-capacity patterns
// x dst forms, in the isolated layout and - rotating over memory orders and capacity modes - with the arguments packed
// into one caller buffer. Quick tier: all nine offsets on the successful paths up to 16 KiB and -1, 0, +1, +16 above; failure paths -1, 0, +1, +16 up to
// 16 KiB and 0, +1 above; associated data and the key-wrap algorithms -1, 0, +1; 64 bytes of spare capacity everywhere plus one of the other patterns in turn on
// the successful paths; long associated data and the packed layouts on the successful paths.
func TestSizeSweep(t *testing.T) {
	sec := vk.Sec("SizeSweep")
	idx := 0
	one := func(c memCase) {
		msg, st := checkMem(c)
		if msg != "" {
			t.Fatalf("C17 caller memory violated: %s\ncase: %s", msg, c)
		}
		sec.Case(st.nontrivial, c.fp(), st.classes...)
		sec.Sample(func() any { return c.String() })
	}
	for _, o := range ops {
		var ords [][]int
		if o.Pk >= 2 {
			ords = orders(o.Pk)
		}
		dsts := []string{""}
		if o.DstOp {
			dsts = dstForms
		}
		for _, alg := range o.Algs {
			for mi, mode := range o.Modes(alg) {
				for _, target := range []string{"message", "aad"} {
					if (target == "message" && !o.sized(alg, mode)) || (target == "aad" && !o.Aad) {
						continue
					}
					if o.Doc && mi > 1 && !vk.Thorough() {
						continue // quick tier: long documents without and with their own content type (the other content types: short documents, KeyDocSweep)
					}
					if target == "aad" && mi > 0 && o.sized(alg, mode) && !vk.Thorough() {
						continue // quick tier: long associated data on the failure paths only where the message cannot be long (RSA labels)
					}
					// thorough tier: every offset at every switch point. Quick tier: offs up to 16 KiB, far from 32 KiB on (three quarters of the bytes of the sweep)
					thr, offs, far := sizeThresholds, sizeOffsets, []int{-1, 0, 1, 16}
					switch {
					case o.Heavy && !o.sized(alg, mode): // RSA private-key operation (milliseconds) with a long label
						thr, offs, far = vk.Pick([]int{4 << 10, 64 << 10}, sizeThresholds), []int{1}, []int{1}
					case target == "aad":
						offs, far = []int{-1, 0, 1}, []int{0, 1}
					case mi > 0 || o.Doc: // (a document is a text: its length is not the payload's, block boundaries mean nothing to it)
						offs, far = []int{-1, 0, 1, 16}, []int{0, 1}
					case granularity(o, alg) == 8: // key wrap: six block encryptions per 8 bytes; the menu becomes the whole units T-8, T, T+8
						offs, far = []int{-1, 0, 1}, []int{-1, 0, 1}
					}
					var menu []int
					for _, T := range thr {
						switch {
						case vk.Thorough() && o.Heavy && !o.sized(alg, mode):
							menu = append(menu, sizeMenu([]int{T}, []int{-1, 0, 1})...)
						case vk.Thorough():
							menu = append(menu, sizeMenu([]int{T}, sizeOffsets)...)
						case T <= 16<<10:
							menu = append(menu, sizeMenu([]int{T}, offs)...)
						default:
							menu = append(menu, sizeMenu([]int{T}, far)...)
						}
					}
					if target == "message" && mi == 0 {
						menu = wholeUnits(menu, granularity(o, alg))
					}
					for _, n := range menu {
						for si, sp := range sizeSpares {
							// quick tier: 64 bytes behind every argument, and on the successful paths one of the other patterns in turn
							if !vk.Thorough() && si > 0 && (target == "aad" || mi > 0 || si != 1+(idx/len(dsts))%3) {
								continue
							}
							for _, d := range dsts {
								idx++
								if !vk.Mine(idx) {
									continue
								}
								c := memCase{Op: o.Name, Alg: alg, Mode: mode, Len: n, AadLen: []int{0, 13}[idx%2], Spare: sp, Dst: d, DstLen: []int{0, 5}[idx%2], Mem: sweepMem(idx), Seed: uint64(idx) * 0x9e3779b97f4a7c15}
								if target == "aad" {
									c.Len, c.AadLen = []int{0, 16, 33, 48}[idx%4], n
								}
								one(c)
								// the same call with arguments sharing one buffer: the memory order and the capacity mode rotate
								if ords != nil && si == 0 && (mi == 0 || vk.Thorough()) {
									c.Pack, c.Gap, c.Cap = ords[idx%len(ords)], layoutGaps[idx%len(layoutGaps)], capModes[idx%len(capModes)]
									c.Spare = sizeSpares[2]
									one(c)
								}
							}
						}
					}
				}
			}
		}
	}
}

func TestExpandIsVkExpand(t *testing.T) {
	for n := 0; n < 70; n++ {
		if a, b := expand(uint64(n)*77+1, n), vk.Expand(uint64(n)*77+1, n); string(a) != string(b) || cap(a) != n {
			t.Fatalf("harness: expand(%d) differs from vk.Expand", n)
		}
	}
}
