#!/usr/bin/env python3
"""Prints the markdown table of /verif/seeded/*/meta.json (for DESIGN.md 7.7)."""
import glob, json, os
ROOT = os.path.dirname(os.path.dirname(os.path.abspath(__file__)))
rows = []
for f in sorted(glob.glob(os.path.join(ROOT, "seeded", "*", "meta.json"))):
    m = json.load(open(f))
    name = os.path.basename(os.path.dirname(f))
    c = m.get("confirmed", {})
    caught = "; ".join("%s: %s" % (k, v) for k, v in c.get("caught", {}).items())
    first = m.get("first_result", "")
    rows.append("| %s | %s | %s | %s | %s |" % (name, m.get("summary", "").replace("|", "/")[:170], m.get("needs", "").replace("|", "/")[:170], first, caught))
print("| id | change | needs | first run | now |")
print("|---|---|---|---|---|")
print("\n".join(rows))
