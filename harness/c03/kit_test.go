package c03

import (
	"crypto/ecdsa"
	"crypto/ed25519"
	"crypto/rsa"
	"errors"
	"fmt"
	"sort"
	"sync"

	kit "github.com/dapr/kit/crypto"
	"github.com/lestrrat-go/jwx/v2/jwk"
	"github.com/lestrrat-go/jwx/v2/x25519"

	"verifharness/refcrypto"
	"verifharness/vk"
)

// ------------------------------------------------------------------ keys

// keyInfo is one fixed asymmetric key as the harness hands it to kit (a jwk.Key)
// and as the peer implementation uses it (standard library types).
type keyInfo struct {
	Name    string
	Kind    string // rsa, ec, okp-ed, okp-x, oct
	Curve   string // P-256 ... for ec
	Private bool
	JWK     jwk.Key
	Priv    any // standard library private key (nil for a public keyInfo of which we do not need it)
	Pub     any // standard library public key
}

var (
	asymOnce sync.Once
	asymKeys []keyInfo
)

func mustJWK(raw any) jwk.Key {
	k, err := jwk.FromRaw(raw)
	if err != nil {
		panic(fmt.Sprintf("harness: jwk.FromRaw(%T): %v", raw, err))
	}
	return k
}

// keysAll returns every fixed asymmetric key, private and public form.
func keysAll() []keyInfo {
	asymOnce.Do(func() {
		ks := refcrypto.Keys()
		add := func(name, kind, curve string, priv, pub any) {
			asymKeys = append(asymKeys,
				keyInfo{name, kind, curve, true, mustJWK(priv), priv, pub},
				keyInfo{name + ".pub", kind, curve, false, mustJWK(pub), priv, pub})
		}
		for _, r := range []struct {
			n string
			k *rsa.PrivateKey
		}{{"rsa2048", ks.RSA2048}, {"rsa2048b", ks.RSA2048b}, {"rsa3072", ks.RSA3072}, {"rsa2047", ks.RSA2047}, {"rsa2055", ks.RSA2055}} {
			add(r.n, "rsa", "", r.k, &r.k.PublicKey)
		}
		for _, e := range []struct {
			n, c string
			k    *ecdsa.PrivateKey
		}{{"p256", "P-256", ks.P256}, {"p256b", "P-256", ks.P256b}, {"p384", "P-384", ks.P384}, {"p521", "P-521", ks.P521}} {
			add(e.n, "ec", e.c, e.k, &e.k.PublicKey)
		}
		add("ed25519", "okp-ed", "", ks.Ed, ks.Ed.Public().(ed25519.PublicKey))
		add("ed25519b", "okp-ed", "", ks.Edb, ks.Edb.Public().(ed25519.PublicKey))
		xk, err := x25519.NewKeyFromSeed(vk.Expand(0x25519, 32))
		if err != nil {
			panic(err)
		}
		add("x25519", "okp-x", "", xk, xk.Public().(x25519.PublicKey))
		asymKeys = append(asymKeys, keyInfo{"oct32", "oct", "", true, mustJWK(vk.Expand(77, 32)), nil, nil})
	})
	return asymKeys
}

func keyByName(name string) keyInfo {
	for _, k := range keysAll() {
		if k.Name == name {
			return k
		}
	}
	panic("harness: no key " + name)
}

func keyNames() []string {
	var out []string
	for _, k := range keysAll() {
		out = append(out, k.Name)
	}
	return out
}

// octKey wraps raw key bytes (len >= 1; jwk cannot hold an empty octet sequence).
func octKey(b []byte) jwk.Key { return mustJWK(append([]byte{}, b...)) }

// ------------------------------------------------------------------ calls into kit (a panic is part of the result)

type encOut struct {
	ct, tag []byte
	err     error
	pnc     any
}

type decOut struct {
	pt  []byte
	err error
	pnc any
}

func (o encOut) String() string {
	return fmt.Sprintf("(ct=%s tag=%x err=%v panic=%v)", hx(o.ct), o.tag, o.err, o.pnc)
}

func (o decOut) String() string {
	return fmt.Sprintf("(pt=%s err=%v panic=%v)", hx(o.pt), o.err, o.pnc)
}

// hx prints b in hex; long values (the long-size classes reach hundreds of kilobytes) are
// abbreviated to both ends and the length - the case line (sizes + seed) regenerates the rest.
func hx(b []byte) string {
	if len(b) <= 160 {
		return fmt.Sprintf("%x", b)
	}
	return fmt.Sprintf("%x..(%d bytes)..%x", b[:48], len(b), b[len(b)-48:])
}

// kitEncrypt calls the entry point named by api: "sym" = EncryptSymmetric, "generic" = Encrypt, "pub" = EncryptPublicKey.
func kitEncrypt(api string, pt []byte, alg string, key jwk.Key, nonce, aad []byte) (o encOut) {
	defer func() {
		if r := recover(); r != nil {
			o = encOut{pnc: r}
		}
	}()
	switch api {
	case "sym":
		o.ct, o.tag, o.err = kit.EncryptSymmetric(pt, alg, key, nonce, aad)
	case "generic":
		o.ct, o.tag, o.err = kit.Encrypt(pt, alg, key, nonce, aad)
	case "pub":
		o.ct, o.err = kit.EncryptPublicKey(pt, alg, key, aad)
	default:
		panic("harness: api " + api)
	}
	return o
}

// kitDecrypt: "sym" = DecryptSymmetric, "generic" = Decrypt, "pub" = DecryptPrivateKey.
func kitDecrypt(api string, ct []byte, alg string, key jwk.Key, nonce, tag, aad []byte) (o decOut) {
	defer func() {
		if r := recover(); r != nil {
			o = decOut{pnc: r}
		}
	}()
	switch api {
	case "sym":
		o.pt, o.err = kit.DecryptSymmetric(ct, alg, key, nonce, tag, aad)
	case "generic":
		o.pt, o.err = kit.Decrypt(ct, alg, key, nonce, tag, aad)
	case "pub":
		o.pt, o.err = kit.DecryptPrivateKey(ct, alg, key, aad)
	default:
		panic("harness: api " + api)
	}
	return o
}

type sigOut struct {
	sig []byte
	err error
	pnc any
}

type verOut struct {
	ok  bool
	err error
	pnc any
}

func (o sigOut) String() string { return fmt.Sprintf("(sig=%x err=%v panic=%v)", o.sig, o.err, o.pnc) }
func (o verOut) String() string { return fmt.Sprintf("(valid=%v err=%v panic=%v)", o.ok, o.err, o.pnc) }

func kitSign(digest []byte, alg string, key jwk.Key) (o sigOut) {
	defer func() {
		if r := recover(); r != nil {
			o = sigOut{pnc: r}
		}
	}()
	o.sig, o.err = kit.SignPrivateKey(digest, alg, key)
	return o
}

func kitVerify(digest, sig []byte, alg string, key jwk.Key) (o verOut) {
	defer func() {
		if r := recover(); r != nil {
			o = verOut{pnc: r}
		}
	}()
	o.ok, o.err = kit.VerifyPublicKey(digest, sig, alg, key)
	return o
}

// ------------------------------------------------------------------ sentinels

var sentinelNames = map[error]string{
	kit.ErrKeyTypeMismatch:         "ErrKeyTypeMismatch",
	kit.ErrInvalidNonce:            "ErrInvalidNonce",
	kit.ErrInvalidTag:              "ErrInvalidTag",
	kit.ErrInvalidPlaintextLength:  "ErrInvalidPlaintextLength",
	kit.ErrInvalidCiphertextLength: "ErrInvalidCiphertextLength",
	kit.ErrUnsupportedAlgorithm:    "ErrUnsupportedAlgorithm",
}

// expectErr describes the error an ill-formed call must produce. Each wrong
// component contributes the sentinel the package defines for it, or none. With
// several wrong components the order of kit's checks is not part of the
// statement, so any of the contributed sentinels is accepted; if some wrong
// component has no sentinel, only "an error" is required.
type expectErr struct {
	wrong     []string
	sentinels []error
	free      bool // some wrong component has no defined sentinel
}

func (e *expectErr) add(what string, sentinel error) {
	e.wrong = append(e.wrong, what)
	if sentinel == nil {
		e.free = true
	} else {
		e.sentinels = append(e.sentinels, sentinel)
	}
}

func (e *expectErr) any() bool { return len(e.wrong) > 0 }

func (e *expectErr) String() string {
	var s []string
	for _, x := range e.sentinels {
		s = append(s, sentinelNames[x])
	}
	sort.Strings(s)
	return fmt.Sprintf("wrong=%v sentinels=%v free=%v", e.wrong, s, e.free)
}

// check returns "" if err satisfies the expectation.
func (e *expectErr) check(err error) string {
	if err == nil {
		return fmt.Sprintf("no error although %v", e.wrong)
	}
	if e.free {
		return ""
	}
	for _, s := range e.sentinels {
		if errors.Is(err, s) {
			return ""
		}
	}
	return fmt.Sprintf("error %q is none of the sentinels defined for the case (%s)", err, e)
}

// ------------------------------------------------------------------ mutations

// mutation changes one component of a decryption / verification input.
type mutation struct {
	Comp string // ct, tag, nonce, aad, key, digest, sig
	Kind string // flip, trunc, ext
	Pos  int    // flip: byte index (mod len)
	Mask byte   // flip: xor mask (non-zero)
	N    int    // trunc: bytes removed from the end (1..len); ext: bytes appended (>= 1)
}

func (m mutation) String() string {
	switch m.Kind {
	case "flip":
		return fmt.Sprintf("%s[%d]^=%#02x", m.Comp, m.Pos, m.Mask)
	case "trunc":
		return fmt.Sprintf("%s-trunc%d", m.Comp, m.N)
	case "ext":
		return fmt.Sprintf("%s-ext%d", m.Comp, m.N)
	}
	return "none"
}

// feasible reports whether m can be applied to a component of n bytes and changes it.
func (m mutation) feasible(n int) bool {
	switch m.Kind {
	case "flip":
		return n > 0 && m.Mask != 0
	case "trunc":
		return n > 0 && m.N >= 1
	case "ext":
		return m.N >= 1
	}
	return false
}

// apply returns a mutated copy of b.
func (m mutation) apply(b []byte) []byte {
	out := append([]byte{}, b...)
	switch m.Kind {
	case "flip":
		out[m.Pos%len(out)] ^= m.Mask
	case "trunc":
		n := 1 + (m.N-1)%len(out)
		out = out[:len(out)-n]
	case "ext":
		out = append(out, vk.Expand(uint64(m.N)*977+uint64(len(b)), m.N)...)
	}
	return out
}

func setEq(a, b []string) bool {
	a, b = append([]string{}, a...), append([]string{}, b...)
	sort.Strings(a)
	sort.Strings(b)
	if len(a) != len(b) {
		return false
	}
	for i := range a {
		if a[i] != b[i] {
			return false
		}
	}
	return true
}
