package c07

import (
	"crypto/hmac"
	"crypto/sha256"
	"encoding/binary"
)

func forgeTag(macKey, aad, nonce, ct []byte, l int) []byte {
	h := hmac.New(sha256.New, macKey)
	al := make([]byte, 8)
	binary.BigEndian.PutUint64(al, uint64(len(aad))*8)
	h.Write(aad)
	h.Write(nonce)
	h.Write(ct)
	h.Write(al)
	return h.Sum(nil)[:l]
}
