CFG = dict(
     claimed=True,
     rule="Cases: histories of up to 30 steps over {Subscribe(prompt reader | manual reader that only reads on command, channel "
          "capacity 0..2), Broadcast bursts of 1..14 values from 3 broadcaster goroutines (values tagged goroutine/sequence), "
          "read/drain of a manual subscriber, subscriber cancellation, Close, group = 2..4 of these issued together without a "
          "settle}, ending with Close while whatever is stalled stays stalled. Run in a synctest bubble; quiescence through "
          "synctest.Wait or, when a Broadcast may be blocked holding the broadcaster's mutex, a stop-the-world goroutine-state "
          "snapshot (all blocked = settled). Oracle at every settled point: no value twice, per-broadcaster call order kept, any two "
          "subscribers see common values in the same order, every returned Broadcast reached each prompt subscriber subscribed "
          "before the call and still subscribed, after draining every value reached every staying subscriber; after Close is "
          "called every Broadcast/Subscribe/Close returns, and nothing is handed over after Close returned. Non-trivial: >= 2 "
          "subscribers with concurrent broadcasters, or a departure/Close while a Broadcast was blocked. Distinct by history.",
     technique="model-based property testing (rapid; scripted concurrent histories in testing/synctest bubbles; invariant oracle over per-subscriber delivery logs; deadlock = stable all-blocked goroutine state)",
     level_text="Generated histories against delivery invariants checked at quiescent points; deadlock freedom is decided as a state "
                "predicate (after Close every call must have returned in a state where no goroutine can run). Orders inside a "
                "group are the Go scheduler's choice (statistical).",
     level_note="Trusts testing/synctest, runtime.Stack goroutine states (go1.26.8) and rapid. Backpressure from a present-but-stalled "
                "subscriber is legal and is not reported.",
     assumptions=["testing/synctest and runtime.Stack(all) snapshots are correct", "subscriber channels are only read by the harness"],
     timeout_quick=600, timeout_thorough=3000)
CFG["rule"] += ' Added after independently written breaking changes: Also Subscribe calls with several channels (one shared context).'
CFG["rule"] += ' TestBroadcasterSharedChannel: one channel with several subscriptions (a value arrives once per live subscription; each leaves alone). TestBroadcasterFanIn: 2-16 broadcasters into one channel of capacity 0-2 that nobody reads; after the context ends every Close returns (bubble quiescence).'
