package c13

import (
	"fmt"
	"sync"
	"testing/synctest"

	"verifharness/vk"
)

// A worker is a goroutine that executes the operations the controller hands it, one at a time.
type worker struct {
	id   int
	cmd  chan func()
	busy bool // an operation was issued and has not returned yet (as of the last settle)
	mu   sync.Mutex
	done bool // the operation issued last has returned
	err  error
}

type workers struct {
	ws   []*worker
	errs *vk.Errs
	wg   sync.WaitGroup
}

func newWorkers(n int, errs *vk.Errs) *workers {
	p := &workers{errs: errs}
	for i := 0; i < n; i++ {
		w := &worker{id: i, cmd: make(chan func(), 1)}
		p.ws = append(p.ws, w)
		p.wg.Add(1)
		errs.Go(func() {
			defer p.wg.Done()
			for fn := range w.cmd {
				fn()
				w.mu.Lock()
				w.done = true
				w.mu.Unlock()
			}
		})
	}
	return p
}

// issue hands fn to worker w (which must not be busy).
func (p *workers) issue(w int, fn func()) {
	wk := p.ws[w]
	wk.mu.Lock()
	wk.done = false
	wk.mu.Unlock()
	wk.busy = true
	wk.cmd <- fn
}

// returned reports, after a settle, whether w's last operation has returned, and updates busy.
func (p *workers) returned(w int) bool {
	wk := p.ws[w]
	wk.mu.Lock()
	d := wk.done
	wk.mu.Unlock()
	if d {
		wk.busy = false
	}
	return d
}

func (p *workers) stop() {
	for _, w := range p.ws {
		close(w.cmd)
	}
	p.wg.Wait()
}

// settleFn is synctest.Wait for primitives that only block on channels, vk.SettleStacks for those that park on sync.RWMutex.
type settleFn func() bool

func waitSettle() bool { synctest.Wait(); return true }

func stackSettle(errs *vk.Errs) settleFn {
	return func() bool {
		p, err := vk.SettleStacks()
		if err != nil {
			errs.Failf("%v\n%s", err, p.Dump)
			return false
		}
		return true
	}
}

// monitor is the occupancy monitor updated inside critical sections.
type monitor struct {
	mu      sync.Mutex
	writers map[int]int
	readers map[int]int
	errs    *vk.Errs
	what    string
}

func newMonitor(errs *vk.Errs, what string) *monitor {
	return &monitor{writers: map[int]int{}, readers: map[int]int{}, errs: errs, what: what}
}

func (m *monitor) enter(key int, write bool, w int) {
	m.mu.Lock()
	defer m.mu.Unlock()
	if write {
		m.writers[key]++
	} else {
		m.readers[key]++
	}
	if m.writers[key] > 1 || (m.writers[key] == 1 && m.readers[key] > 0) {
		m.errs.Failf("%s: mutual exclusion broken on key k%d when worker w%d entered (write=%v): %d exclusive holder(s) and %d reader(s) are inside at once", m.what, key, w, write, m.writers[key], m.readers[key])
	}
}

func (m *monitor) exit(key int, write bool) {
	m.mu.Lock()
	defer m.mu.Unlock()
	if write {
		m.writers[key]--
	} else {
		m.readers[key]--
	}
}

func (m *monitor) inside(key int) (int, int) {
	m.mu.Lock()
	defer m.mu.Unlock()
	return m.writers[key], m.readers[key]
}

func wname(w int) string { return fmt.Sprintf("w%d", w) }
