package c12

import (
	"context"
	"errors"
	"fmt"
	"io"
	"sort"
	"strings"
	"sync"
	"testing"
	"time"

	"github.com/dapr/kit/concurrency"
	"github.com/dapr/kit/logger"
	"pgregory.net/rapid"

	"verifharness/vk"
)

const ms = time.Millisecond

// runner spec. Mode "return": returns Result after At (absolute, multiple of 100 ms), ignoring its context.
// Mode "wait": waits for its context to be done, then returns Result after Post (1..49 ms).
type runnerSpec struct {
	Mode   string
	At     int    // x100ms, for "return"
	Post   int    // ms, for "wait"
	Result string // nil | err | canceled | wrapped | ctxerr | deadline | deadline-wrapped
}

type closerSpec struct {
	Type string // closer | ctxfunc | errfunc | func | unsupported
	Dur  int    // seconds (distinct)
	Err  bool
	Late int // 0: registered before Run; else registered with AddCloser at Late*100+50 ms after Run started
}

type mgrCase struct {
	Closer    bool // RunnerCloserManager (else RunnerManager)
	Runners   []runnerSpec
	Closers   []closerSpec
	Grace     string // none | generous | short | zero | negative (a grace period that is given but not positive is over as soon as the closers start)
	ParentAt  int    // x100ms, 0 = parent never cancelled
	ParentPre bool   // the parent context has ALREADY ended when Run is called (cancelled, or its deadline has passed, with ParentDL)
	ParentDL  bool   // the parent context ends by its DEADLINE at ParentAt (context.DeadlineExceeded) instead of being cancelled
	Closes    []int  // Close() call times: -1 = before Run, else x100ms after Run started
	LateAddAt int    // x100ms+50 after Run started: Add(runner) (0 = none)
	SecondRun bool
	AddBefore int // this many of the runners (the last ones) are registered with Add before Run instead of through the constructor
}

type mgrCasePlain mgrCase

func (c mgrCase) String() string { return fmt.Sprintf("mgr%+v", mgrCasePlain(c)) }

type event struct {
	what string
	at   time.Duration
}

type recorder struct {
	mu     sync.Mutex
	start  time.Time
	events []event
}

func (r *recorder) log(what string) {
	r.mu.Lock()
	r.events = append(r.events, event{what, time.Since(r.start)})
	r.mu.Unlock()
}

func (r *recorder) find(what string) []time.Duration {
	r.mu.Lock()
	defer r.mu.Unlock()
	var out []time.Duration
	for _, e := range r.events {
		if e.what == what {
			out = append(out, e.at)
		}
	}
	return out
}

func flatten(err error) []error {
	if err == nil {
		return nil
	}
	if j, ok := err.(interface{ Unwrap() []error }); ok {
		var out []error
		for _, e := range j.Unwrap() {
			out = append(out, flatten(e)...)
		}
		return out
	}
	return []error{err}
}

func sameErrors(got error, want []error) string {
	g := flatten(got)
	gs, ws := make([]string, 0), make([]string, 0)
	for _, e := range g {
		gs = append(gs, e.Error())
	}
	for _, e := range want {
		ws = append(ws, e.Error())
	}
	sort.Strings(gs)
	sort.Strings(ws)
	if strings.Join(gs, "|") != strings.Join(ws, "|") {
		return fmt.Sprintf("got errors %v, want exactly %v", gs, ws)
	}
	for _, e := range want {
		if !errors.Is(got, e) {
			return fmt.Sprintf("errors.Is(result, %v) is false", e)
		}
	}
	return ""
}

var (
	logOnce sync.Once
	qlog    logger.Logger
)

// quietLogger is one shared logger writing to io.Discard (the managers only log through it).
func quietLogger() logger.Logger {
	logOnce.Do(func() {
		qlog = logger.NewLogger("verif-c12")
		qlog.SetOutput(io.Discard)
	})
	return qlog
}

type ioCloser struct{ f func() error }

func (c ioCloser) Close() error { return c.f() }

type expectation struct {
	t1, tr, tc time.Duration // first return, last runner return, last closer return
}

func runMgr(t *testing.T, c mgrCase) (nontrivial bool, classes []string, err error) {
	var errs vk.Errs
	berr := vk.Bubble(t, c.String(), func() {
		rec := &recorder{start: time.Now()}
		var wantErrs []error
		// ---- runners
		mkRunner := func(i int, s runnerSpec) concurrency.Runner {
			var result error
			switch s.Result {
			case "err":
				result = fmt.Errorf("runner-%d-error", i)
				wantErrs = append(wantErrs, result)
			case "canceled":
				result = context.Canceled
			case "wrapped":
				result = fmt.Errorf("runner-%d wrapped: %w", i, context.Canceled)
			case "deadline":
				// a runner's own deadline error (its own per-request timeout, say): not Canceled, so it is reported -
				// also when the manager's context happens to have ended by a deadline itself
				result = context.DeadlineExceeded
				wantErrs = append(wantErrs, result)
			case "deadline-wrapped":
				result = fmt.Errorf("runner-%d: upstream call: %w", i, context.DeadlineExceeded)
				wantErrs = append(wantErrs, result)
			}
			return func(ctx context.Context) error {
				rec.log(fmt.Sprintf("runner%d.start", i))
				if s.Mode == "return" {
					time.Sleep(time.Duration(s.At) * 100 * ms)
				} else {
					<-ctx.Done()
					rec.log(fmt.Sprintf("runner%d.ctxdone", i))
					time.Sleep(time.Duration(s.Post) * ms)
				}
				rec.log(fmt.Sprintf("runner%d.return", i))
				if s.Result == "ctxerr" {
					return ctx.Err() // nil if the context is still live
				}
				return result
			}
		}
		var runners []concurrency.Runner
		for i, s := range c.Runners {
			runners = append(runners, mkRunner(i, s))
		}
		parent, cancelParent := context.WithCancel(context.Background())
		if c.ParentDL && c.ParentAt > 0 {
			parent, cancelParent = context.WithDeadline(context.Background(), time.Now().Add(time.Duration(c.ParentAt)*100*ms))
		}
		if c.ParentPre {
			if c.ParentDL {
				parent, cancelParent = context.WithDeadline(context.Background(), time.Now().Add(-time.Second))
			} else {
				cancelParent()
			}
		}
		defer cancelParent()

		// ---- expected times
		var exp expectation
		closeAt := -1 // first Close during the run (x100ms)
		for _, cl := range c.Closes {
			if cl >= 0 && (closeAt < 0 || cl < closeAt) {
				closeAt = cl
			}
		}
		closedBeforeRun := false
		for _, cl := range c.Closes {
			if cl < 0 {
				closedBeforeRun = true
			}
		}
		first := time.Duration(-1)
		consider := func(d time.Duration) {
			if first < 0 || d < first {
				first = d
			}
		}
		for _, s := range c.Runners {
			if s.Mode == "return" {
				consider(time.Duration(s.At) * 100 * ms)
			}
		}
		if c.ParentAt > 0 {
			consider(time.Duration(c.ParentAt) * 100 * ms)
		}
		if c.ParentPre {
			consider(0)
		}
		if c.Closer && len(c.Runners) > 0 && closeAt >= 0 {
			consider(time.Duration(closeAt) * 100 * ms)
		}
		if len(c.Runners) == 0 {
			first = 0
		}
		if first < 0 && closedBeforeRun {
			first = 0 // the manager never runs
		}
		if first < 0 {
			errs.Failf("harness: case never terminates")
			return
		}
		exp.t1 = first
		exp.tr = first
		for _, s := range c.Runners {
			var ret time.Duration
			if s.Mode == "return" {
				ret = time.Duration(s.At) * 100 * ms
			} else {
				ret = first + time.Duration(s.Post)*ms
			}
			if ret > exp.tr {
				exp.tr = ret
			}
		}

		var wg sync.WaitGroup
		spawn := func(fn func()) {
			wg.Add(1)
			errs.Go(func() { defer wg.Done(); fn() })
		}
		if c.ParentAt > 0 && !c.ParentDL {
			spawn(func() { time.Sleep(time.Duration(c.ParentAt) * 100 * ms); cancelParent() })
		}

		if !c.Closer {
			m := concurrency.NewRunnerManager(runners[:len(runners)-c.AddBefore]...)
			for _, r := range runners[len(runners)-c.AddBefore:] {
				if e := m.Add(r); e != nil {
					errs.Failf("Add before Run failed: %v", e)
					return
				}
			}
			var runErr error
			spawn(func() {
				runErr = m.Run(parent)
				rec.log("run.return")
			})
			if c.LateAddAt > 0 {
				spawn(func() {
					time.Sleep(time.Duration(c.LateAddAt)*100*ms + 50*ms)
					if e := m.Add(func(context.Context) error { rec.log("late-runner.start"); return nil }); !errors.Is(e, concurrency.ErrManagerAlreadyStarted) {
						errs.Failf("Add after Run started returned %v, want ErrManagerAlreadyStarted", e)
					}
				})
			}
			wg.Wait()
			checkRunners(&errs, rec, c, exp)
			if r := rec.find("run.return"); len(r) != 1 || r[0] != exp.tr {
				errs.Failf("Run returned at %v, want exactly when the last runner returned (%v)", r, exp.tr)
			}
			if msg := sameErrors(runErr, wantErrs); msg != "" {
				errs.Failf("Run result: %s", msg)
			}
			if e := m.Run(context.Background()); !errors.Is(e, concurrency.ErrManagerAlreadyStarted) {
				errs.Failf("second Run returned %v, want ErrManagerAlreadyStarted", e)
			}
			if e := m.Add(func(context.Context) error { return nil }); !errors.Is(e, concurrency.ErrManagerAlreadyStarted) {
				errs.Failf("Add after Run returned %v, want ErrManagerAlreadyStarted", e)
			}
			if len(rec.find("late-runner.start")) > 0 {
				errs.Failf("a runner added after Run started was executed")
			}
			return
		}

		// ---- RunnerCloserManager
		var grace *time.Duration
		slowest := 0
		for _, cs := range c.Closers {
			if cs.Type == "unsupported" {
				continue
			}
			if cs.Late > 0 && time.Duration(cs.Late)*100*ms+50*ms > exp.tr {
				continue // will be rejected
			}
			if cs.Dur > slowest {
				slowest = cs.Dur
			}
		}
		switch c.Grace {
		case "generous":
			g := 1000 * time.Hour
			grace = &g
		case "short":
			g := time.Duration(slowest)*time.Second - 500*ms
			if slowest == 0 {
				g = 500 * ms
			}
			grace = &g
		case "zero":
			g := time.Duration(0)
			grace = &g
		case "negative":
			g := -time.Second
			grace = &g
		}
		log := quietLogger()
		m := concurrency.NewRunnerCloserManager(log, grace, runners[:len(runners)-c.AddBefore]...)
		for _, r := range runners[len(runners)-c.AddBefore:] {
			if e := m.Add(r); e != nil {
				errs.Failf("Add before Run failed: %v", e)
				return
			}
		}
		m.WithFatalShutdown(func() { rec.log("fatal") })
		mkCloser := func(i int, cs closerSpec) (any, error) {
			var result error
			if cs.Err {
				result = fmt.Errorf("closer-%d-error", i)
			}
			body := func() error {
				rec.log(fmt.Sprintf("closer%d.start", i))
				time.Sleep(time.Duration(cs.Dur) * time.Second)
				rec.log(fmt.Sprintf("closer%d.end", i))
				return result
			}
			switch cs.Type {
			case "closer":
				return ioCloser{body}, result
			case "ctxfunc":
				return func(ctx context.Context) error {
					if ctx.Err() != nil {
						errs.Failf("closer %d received an already cancelled context", i)
					}
					return body()
				}, result
			case "errfunc":
				return body, result
			case "func":
				return func() { _ = body() }, nil
			}
			return i, nil // unsupported type
		}
		var closerWant []error
		for i, cs := range c.Closers {
			if cs.Late > 0 {
				continue
			}
			v, e := mkCloser(i, cs)
			aerr := m.AddCloser(v)
			if cs.Type == "unsupported" {
				if aerr == nil {
					errs.Failf("AddCloser accepted an unsupported closer type")
				}
				continue
			}
			if aerr != nil {
				errs.Failf("AddCloser(%s) failed: %v", cs.Type, aerr)
			}
			if e != nil {
				closerWant = append(closerWant, e)
			}
		}
		var cmu sync.Mutex
		if closedBeforeRun {
			// Close on a manager that never ran returns at once and prevents a later Run.
			t0 := time.Since(rec.start)
			if e := m.Close(); e != nil {
				errs.Failf("Close before Run returned %v", e)
			}
			if d := time.Since(rec.start) - t0; d != 0 {
				errs.Failf("Close before Run blocked for %v", d)
			}
			if e := m.Run(parent); !errors.Is(e, concurrency.ErrManagerAlreadyStarted) {
				errs.Failf("Run after Close returned %v, want ErrManagerAlreadyStarted", e)
			}
			// the life-cycle is over (Run is refused as "already started"): a runner accepted now could never run
			if e := m.Add(func(context.Context) error { rec.log("late-runner.start"); return nil }); !errors.Is(e, concurrency.ErrManagerAlreadyStarted) {
				errs.Failf("Add after Close on a manager that never ran returned %v, want ErrManagerAlreadyStarted (a manager that refuses Run rejects additions)", e)
			}
			if e := m.Close(); e != nil {
				errs.Failf("second Close before Run returned %v", e)
			}
			rec.mu.Lock()
			n := len(rec.events)
			rec.mu.Unlock()
			if n != 0 {
				errs.Failf("a manager closed before Run still executed something: %v", rec.events)
			}
			wg.Wait()
			return
		}
		var runErr error
		spawn(func() {
			runErr = m.Run(parent)
			rec.log("run.return")
		})
		// a third way of waiting, documented as "block until the main runners and closers are done"
		spawn(func() {
			m.WaitUntilShutdown()
			rec.log("wait.return")
		})
		closeErrs := make([]error, len(c.Closes))
		for i, at := range c.Closes {
			spawn(func() {
				time.Sleep(time.Duration(at) * 100 * ms)
				closeErrs[i] = m.Close()
				rec.log(fmt.Sprintf("close%d.return", i))
			})
		}
		for i, cs := range c.Closers {
			if cs.Late == 0 {
				continue
			}
			spawn(func() {
				at := time.Duration(cs.Late)*100*ms + 50*ms
				time.Sleep(at)
				v, e := mkCloser(i, cs)
				aerr := m.AddCloser(v)
				switch {
				case at > exp.tr:
					if !errors.Is(aerr, concurrency.ErrManagerAlreadyClosed) {
						errs.Failf("AddCloser at %v, after the runners finished at %v, returned %v, want ErrManagerAlreadyClosed", at, exp.tr, aerr)
					}
				case cs.Type == "unsupported":
					if aerr == nil {
						errs.Failf("AddCloser accepted an unsupported closer type")
					}
				default:
					if aerr != nil {
						errs.Failf("AddCloser during the run (at %v, runners finish at %v) failed: %v", at, exp.tr, aerr)
					}
					if e != nil {
						cmu.Lock()
						closerWant = append(closerWant, e)
						cmu.Unlock()
					}
				}
			})
		}
		if c.LateAddAt > 0 {
			spawn(func() {
				time.Sleep(time.Duration(c.LateAddAt)*100*ms + 50*ms)
				if e := m.Add(func(context.Context) error { rec.log("late-runner.start"); return nil }); !errors.Is(e, concurrency.ErrManagerAlreadyStarted) {
					errs.Failf("Add after Run started returned %v, want ErrManagerAlreadyStarted", e)
				}
			})
		}
		wg.Wait()
		if errs.Err() != nil {
			return
		}
		checkRunners(&errs, rec, c, exp)
		exp.tc = exp.tr + time.Duration(slowest)*time.Second
		// closers: exactly once, none before the last runner returned
		for i, cs := range c.Closers {
			st := rec.find(fmt.Sprintf("closer%d.start", i))
			accepted := cs.Type != "unsupported" && !(cs.Late > 0 && time.Duration(cs.Late)*100*ms+50*ms > exp.tr)
			if !accepted {
				if len(st) != 0 {
					errs.Failf("closer %d was rejected/unsupported but was invoked", i)
				}
				continue
			}
			if len(st) != 1 {
				errs.Failf("closer %d invoked %d times, want exactly once", i, len(st))
				continue
			}
			if st[0] < exp.tr {
				errs.Failf("closer %d started at %v, before the last runner returned at %v", i, st[0], exp.tr)
			}
			if st[0] != exp.tr {
				errs.Failf("closer %d started at %v, want %v (when the last runner returned)", i, st[0], exp.tr)
			}
		}
		if r := rec.find("run.return"); len(r) != 1 || r[0] != exp.tc {
			errs.Failf("Run returned at %v, want exactly when the last closer finished (%v)", r, exp.tc)
		}
		if r := rec.find("wait.return"); len(r) != 1 || r[0] != exp.tc {
			errs.Failf("WaitUntilShutdown returned at %v, want exactly when the last closer finished (%v)", r, exp.tc)
		}
		want := append(append([]error(nil), wantErrs...), closerWant...)
		if msg := sameErrors(runErr, want); msg != "" {
			errs.Failf("Run result: %s", msg)
		}
		for i, at := range c.Closes {
			r := rec.find(fmt.Sprintf("close%d.return", i))
			wantAt := exp.tc
			if d := time.Duration(at) * 100 * ms; d > wantAt {
				wantAt = d
			}
			if len(r) != 1 || r[0] != wantAt {
				errs.Failf("Close #%d (called at %v) returned at %v, want %v (after the last closer finished)", i, time.Duration(at)*100*ms, r, wantAt)
			}
			if msg := sameErrors(closeErrs[i], want); msg != "" {
				errs.Failf("Close #%d result: %s", i, msg)
			}
		}
		// fatal iff the closers outlast the grace period
		f := rec.find("fatal")
		wantFatal := c.Grace == "short" && slowest > 0
		if (c.Grace == "zero" || c.Grace == "negative") && slowest > 0 {
			// the grace period is over the moment the closers start, and they take longer than that
			if len(f) != 1 || f[0] != exp.tr {
				errs.Failf("fatal shutdown fired at %v, want once at %v: the grace period (%v) is not positive and the closers (slowest %ds) outlast it", f, exp.tr, *grace, slowest)
			}
		} else if c.Grace == "zero" || c.Grace == "negative" {
			// closers that take no time against a grace period of no time: both outcomes are "on time"
			if len(f) > 1 || (len(f) == 1 && f[0] != exp.tr) {
				errs.Failf("fatal shutdown fired at %v (grace %v, instantaneous closers started at %v)", f, *grace, exp.tr)
			}
		} else if wantFatal && (len(f) != 1 || f[0] != exp.tr+*grace) {
			errs.Failf("fatal shutdown fired at %v, want once at %v (grace %v after the closers started)", f, exp.tr+*grace, *grace)
		}
		if !wantFatal && c.Grace != "zero" && c.Grace != "negative" && len(f) != 0 {
			errs.Failf("fatal shutdown fired at %v although the closers (slowest %ds) finished within the grace period (%s)", f, slowest, c.Grace)
		}
		// afterwards
		if e := m.Run(context.Background()); !errors.Is(e, concurrency.ErrManagerAlreadyStarted) {
			errs.Failf("second Run returned %v, want ErrManagerAlreadyStarted", e)
		}
		if e := m.Add(func(context.Context) error { return nil }); !errors.Is(e, concurrency.ErrManagerAlreadyStarted) {
			errs.Failf("Add after Run returned %v, want ErrManagerAlreadyStarted", e)
		}
		if e := m.AddCloser(func() {}); !errors.Is(e, concurrency.ErrManagerAlreadyClosed) {
			errs.Failf("AddCloser after shutdown returned %v, want ErrManagerAlreadyClosed", e)
		}
		t0 := time.Since(rec.start)
		if msg := sameErrors(m.Close(), want); msg != "" {
			errs.Failf("Close after shutdown: %s", msg)
		}
		if time.Since(rec.start) != t0 {
			errs.Failf("Close after shutdown blocked")
		}
		if len(rec.find("late-runner.start")) > 0 {
			errs.Failf("a runner added after Run started was executed")
		}
	})
	if e := errs.Err(); e != nil {
		return false, nil, e
	}
	if berr != nil {
		return false, nil, berr
	}
	outcomes := map[string]bool{}
	for _, r := range c.Runners {
		outcomes[r.Mode+r.Result] = true
	}
	nClosers := 0
	for _, cs := range c.Closers {
		if cs.Type != "unsupported" {
			nClosers++
		}
	}
	during := false
	for _, cl := range c.Closes {
		if cl >= 0 {
			during = true
		}
	}
	nontrivial = (len(outcomes) >= 2 && (!c.Closer || nClosers >= 1)) || (c.Closer && during)
	if c.Closer {
		classes = append(classes, "closer-manager", "grace."+c.Grace)
	} else {
		classes = append(classes, "runner-manager")
	}
	if during {
		classes = append(classes, "close-during-run")
	}
	return nontrivial, classes, nil
}

func checkRunners(errs *vk.Errs, rec *recorder, c mgrCase, exp expectation) {
	for i, s := range c.Runners {
		st := rec.find(fmt.Sprintf("runner%d.start", i))
		if len(st) != 1 || st[0] != 0 {
			errs.Failf("runner %d started %v, want exactly once when Run was called", i, st)
		}
		if s.Mode == "wait" {
			d := rec.find(fmt.Sprintf("runner%d.ctxdone", i))
			if len(d) != 1 || d[0] != exp.t1 {
				errs.Failf("runner %d saw its context done at %v, want %v (the instant the first runner returned / the parent was cancelled / Close was called)", i, d, exp.t1)
			}
		}
		if r := rec.find(fmt.Sprintf("runner%d.return", i)); len(r) != 1 {
			errs.Failf("runner %d returned %d times", i, len(r))
		}
	}
}

func genCase(rt *rapid.T) mgrCase {
	c := mgrCase{Closer: rapid.IntRange(0, 3).Draw(rt, "closerMgr") != 0}
	nr := rapid.IntRange(0, 4).Draw(rt, "nrunners")
	slots := rapid.Permutation([]int{1, 2, 3, 4, 5, 6, 7, 8, 9}).Draw(rt, "slots")
	posts := rapid.Permutation([]int{1, 7, 13, 21, 34, 49}).Draw(rt, "posts")
	for i := 0; i < nr; i++ {
		c.Runners = append(c.Runners, runnerSpec{
			Mode:   rapid.SampledFrom([]string{"return", "wait", "wait"}).Draw(rt, "mode"),
			At:     slots[i],
			Post:   posts[i],
			Result: rapid.SampledFrom([]string{"nil", "err", "err", "canceled", "wrapped", "ctxerr", "deadline", "deadline-wrapped"}).Draw(rt, "result"),
		})
	}
	if nr > 0 && rapid.Bool().Draw(rt, "someViaAdd") {
		c.AddBefore = rapid.IntRange(1, nr).Draw(rt, "addBefore")
	}
	if rapid.IntRange(0, 3).Draw(rt, "parentCancel") == 0 {
		c.ParentAt = slots[4]
	}
	if c.Closer {
		nc := rapid.IntRange(0, 4).Draw(rt, "nclosers")
		durs := rapid.Permutation([]int{1, 2, 3, 4, 5}).Draw(rt, "durs")
		for i := 0; i < nc; i++ {
			cs := closerSpec{
				Type: rapid.SampledFrom([]string{"closer", "ctxfunc", "errfunc", "func", "unsupported"}).Draw(rt, "ctype"),
				Dur:  durs[i],
				Err:  rapid.Bool().Draw(rt, "cerr"),
			}
			if rapid.IntRange(0, 4).Draw(rt, "late") == 0 {
				cs.Late = rapid.IntRange(1, 12).Draw(rt, "lateAt")
			}
			c.Closers = append(c.Closers, cs)
		}
		c.Grace = rapid.SampledFrom([]string{"none", "generous", "generous", "short", "short", "zero", "negative"}).Draw(rt, "grace")
		ncl := rapid.IntRange(0, 3).Draw(rt, "ncloses")
		for i := 0; i < ncl; i++ {
			at := rapid.IntRange(-1, 80).Draw(rt, "closeAt")
			if at == 0 {
				at = 1 // a Close at the very instant Run is called has no defined winner
			}
			c.Closes = append(c.Closes, at)
		}
	}
	if rapid.IntRange(0, 3).Draw(rt, "lateAdd") == 0 {
		c.LateAddAt = rapid.IntRange(1, 9).Draw(rt, "lateAddAt")
	}
	// make sure the case terminates: someone must make the first runner return
	terminates := nr == 0 || c.ParentAt > 0
	for _, r := range c.Runners {
		if r.Mode == "return" {
			terminates = true
		}
	}
	for _, cl := range c.Closes {
		if c.Closer {
			terminates = terminates || cl >= 0 || cl < 0
		}
	}
	if !terminates {
		c.ParentAt = slots[5]
	}
	if rapid.IntRange(0, 7).Draw(rt, "parentAlreadyEnded") == 0 {
		c.ParentPre = true
	}
	if (c.ParentAt > 0 || c.ParentPre) && rapid.IntRange(0, 2).Draw(rt, "parentDeadline") == 0 {
		c.ParentDL = true
		for i := range c.Runners {
			if c.Runners[i].Result == "ctxerr" {
				c.Runners[i].Result = "nil" // (what ctx.Err() is then depends on which of the two cancellations came first)
			}
		}
	}
	return c
}

func TestManagers(t *testing.T) {
	sec := vk.Sec("Managers")
	vk.Check(t, 80000, 20000000, func(rt *rapid.T) {
		c := genCase(rt)
		nt, cls, err := runMgr(t, c)
		if err != nil {
			rt.Fatalf("C12 runner/closer manager violated: %v\ncase: %s", err, c)
		}
		if c.ParentDL {
			cls = append(cls, "parent-context-ends-by-deadline")
		}
		if c.ParentPre {
			cls = append(cls, "parent-context-already-ended-at-Run")
		}
		if c.AddBefore > 0 {
			cls = append(cls, "runners.some-via-Add")
			if c.AddBefore == len(c.Runners) {
				cls = append(cls, "runners.all-via-Add")
			}
		}
		sec.Case(nt, vk.FP(c.String()), cls...)
		sec.Sample(func() any { return c.String() })
	})
}
