package c17

import (
	"fmt"
	"runtime"
	"strings"
	"testing"

	"pgregory.net/rapid"

	"verifharness/vk"
)

// Memory handed to a call stays the caller's when the call has returned: "the only memory a call may write
// is the destination buffer an AEAD caller passes explicitly" holds for every LATER call too. The checks below
// run several calls in one process, keep the canary arenas of the earlier calls and compare ALL of them again
// after every later call (a library that parks a caller's buffer - in a pool, a cache, a lazily flushed
// scratch area - and writes it during another call is invisible to a check that looks at fresh buffers right
// after the call they were handed to).

// oneP runs the sequences on a single P: what a sync.Pool hands out depends on the P the goroutine happens to be
// on, and with one P a buffer parked by one call is what the next call of the same pool gets (it also makes the
// forced collections cheap). The returned function restores the setting.
func oneP() func() {
	old := runtime.GOMAXPROCS(1)
	return func() { runtime.GOMAXPROCS(old) }
}

// seqStep is one call of a sequence. GC is the number of garbage collections the caller's process goes
// through before the call (pools built on sync.Pool change what they hand out with every collection).
type seqStep struct {
	GC int
	C  memCase
}

type seqCase struct {
	Keep  int // arenas of that many earlier calls are kept and compared after every call
	Steps []seqStep
}

func (s seqCase) String() string {
	var b strings.Builder
	fmt.Fprintf(&b, "seq{keep=%d", s.Keep)
	for i, st := range s.Steps {
		fmt.Fprintf(&b, "\n  step %d: gc=%d %s", i, st.GC, st.C)
	}
	b.WriteString("}")
	return b.String()
}

func (s seqCase) fp() uint64 {
	parts := []any{"seq", s.Keep}
	for _, st := range s.Steps {
		parts = append(parts, st.GC, st.C.fp())
	}
	return vk.FP(parts...)
}

// checkSeq runs the calls one after the other. pinFirst keeps the arena of step 0 whatever Keep is.
func checkSeq(s seqCase, pinFirst bool) (string, caseStat) {
	var st caseStat
	led := &ledger{keep: s.Keep}
	seen := map[string]bool{}
	reached, packed, large, fencedN := 0, false, 0, 0
	var made []*arena
	defer func() {
		for _, a := range made {
			a.release()
		}
	}()
	for i, step := range s.Steps {
		for g := 0; g < step.GC; g++ {
			runtime.GC()
		}
		msg, cst, a := runMem(step.C)
		made = append(made, a)
		// fenced memory of an earlier call is read-only for good: a later call that writes it faults (whatever it does afterwards)
		if a.foreignFault != 0 {
			if j, what, w := led.locate(a.foreignFault); w != "" {
				return fmt.Sprintf("step %d (%s) wrote to memory the caller had handed to the EARLIER call of step %d (%s): %s was written (the pages of a call that has returned are mapped read-only: the write faulted at address %#x)", i, step.C.Op+"/"+step.C.Alg+"/"+step.C.Mode, j, what, w, a.foreignFault), st
			}
		}
		// first the memory of the earlier calls: the message then names the call that owned it
		if j, what, m := led.verify(); m != "" {
			return fmt.Sprintf("step %d (%s) wrote to memory the caller had handed to the EARLIER call of step %d (%s): %s", i, step.C.Op+"/"+step.C.Alg+"/"+step.C.Mode, j, what, m), st
		}
		if msg != "" {
			return fmt.Sprintf("step %d: %s", i, msg), st
		}
		led.add(i, step.C.Op+"/"+step.C.Alg+"/"+step.C.Mode, a, pinFirst && i == 0)
		if cst.nontrivial {
			reached++
		}
		for _, c := range cst.classes {
			if c == "layout.packed" {
				packed = true
			}
			if c == "mem.fenced" {
				fencedN++
			}
			if c == "size.large.reached.with-spare" {
				large++
				st.classes = append(st.classes, "step.large.reached.with-spare")
			}
			if strings.HasPrefix(c, "op.") && !seen[c] {
				seen[c] = true
				st.classes = append(st.classes, c)
			}
		}
		if step.GC > 0 {
			st.classes = append(st.classes, "step.after-gc")
		}
		st.classes = append(st.classes, "step")
	}
	// a last look after a collection: nothing scheduled by the calls (finalizers, cleanups) writes the buffers either
	runtime.GC()
	if j, what, m := led.verify(); m != "" {
		return fmt.Sprintf("after the last call and a garbage collection, memory the caller had handed to the call of step %d (%s) changed: %s", j, what, m), st
	}
	// non-trivial: at least two calls got into their primitive with spare capacity on a read-only argument,
	// i.e. there is an earlier buffer worth parking and a later call that does real work
	st.nontrivial = reached >= 2
	if packed {
		st.classes = append(st.classes, "seq.with-packed-layout")
	}
	if fencedN > 0 {
		st.classes = append(st.classes, "seq.with-fenced-calls")
		if fencedN < len(s.Steps) {
			st.classes = append(st.classes, "seq.fenced-and-heap-calls")
		}
	}
	switch {
	case large >= 2:
		st.classes = append(st.classes, "seq.large-calls.2+")
	case large == 1:
		st.classes = append(st.classes, "seq.large-calls.1")
	}
	if len(s.Steps) >= 8 {
		st.classes = append(st.classes, "seq.len.8+")
	} else {
		st.classes = append(st.classes, fmt.Sprintf("seq.len.%d-%d", len(s.Steps)/2*2, len(s.Steps)/2*2+1))
	}
	return "", st
}

// template is one (function, algorithm, path) with representative sizes.
func template(o op, alg, mode string, i int) memCase {
	c := memCase{Op: o.Name, Alg: alg, Mode: mode, Len: []int{32, 48, 16, 33}[i%4], AadLen: []int{0, 13}[i%2], Spare: [][]int{{40}, {16, 0, 64, 24, 1}, {64}}[i%3], Seed: uint64(i+1) * 0x9e3779b97f4a7c15}
	if o.DstOp {
		c.Dst, c.DstLen = dstForms[i%len(dstForms)], 5
	}
	c.Mem = sweepMem(i)
	return c
}

// TestSeqSweep: for every (function, algorithm, path) A: [collections;] call A; then every other function x
// algorithm on its successful path (the calls that do the most work), one after the other, in the same process;
// the memory handed to A - and to the last calls before the current one - is compared after every single call.
// Starts: after two collections (library pools as empty as at process start), with a collection between A and
// the calls that follow, and (thorough tier) straight away. Large size classes (a library may keep buffers for long
// messages only): the same with A's message at a length from the menu of size_test.go - just below, just above and one block
// above a switch point 1 KiB .. 128 KiB, rotating - followed by calls of which every third has a large message too,
// straight away and (thorough tier) with the collections of the other starts.
// The functions that take a key or certificate document (keydoc_test.go) are first call without a content type (thorough: and
// with the document's own) and follow each A as a rotating sixth (thorough: half) of their base forms.
func TestSeqSweep(t *testing.T) {
	defer oneP()()
	sec := vk.Sec("SeqSweep")
	type tmpl struct {
		o    op
		c    memCase
		okay bool
		mi   int
	}
	var all []tmpl
	for _, o := range ops {
		for _, alg := range o.Algs {
			for mi, mode := range o.Modes(alg) {
				all = append(all, tmpl{o: o, c: template(o, alg, mode, len(all)), okay: mi == 0, mi: mi})
			}
		}
	}
	seqLens := sizeMenu(sizeThresholds, []int{-1, 1, 16})
	idx := 0
	for ai, A := range all {
		for variant := vk.Pick(1, 0); variant < vk.Pick(4, 6); variant++ {
			large := variant >= 3
			if large && (!A.o.sized(A.c.Alg, A.c.Mode) || !(A.okay || vk.Thorough())) {
				continue // quick tier: the first call with a large message on its successful path only
			}
			if A.o.Doc && A.mi > vk.Pick(0, 1) {
				continue // the functions that take a document are first call without a content type (thorough: and with the document's own); KeyDocSweep goes through the other content types
			}
			idx++
			if !vk.Mine(idx) {
				continue
			}
			s := seqCase{Keep: 12, Steps: []seqStep{{GC: []int{0, 2, 1}[variant%3], C: A.c}}}
			if large {
				s.Steps[0].C.Len = seqLens[ai%len(seqLens)]
			}
			for bi, B := range all {
				if !B.okay && !(vk.Thorough() && (ai+bi)%4 == 0) {
					continue
				}
				if B.o.Doc && (ai+bi)%vk.Pick(6, 2) != 0 {
					continue // the document forms: a rotating sixth (thorough: half) follows each A
				}
				if B.o.Heavy && (ai+bi)%vk.Pick(48, 4) != 0 {
					continue // the RSA private-key operations take milliseconds: a rotating subset follows each A
				}
				if strings.Contains(B.o.Name, "EncryptPublicKey") || strings.Contains(B.o.Name, "(rsa)") {
					if (ai+bi)%vk.Pick(8, 1) != 0 {
						continue // RSA public-key operations: 0.1 ms
					}
				}
				c := B.c
				c.Seed ^= uint64(idx) << 20
				if large && (ai+bi)%3 == 0 && B.o.sized(c.Alg, c.Mode) {
					c.Len = seqLens[(ai+bi)/3%len(seqLens)]
				}
				gc := 0
				if variant%3 == 2 && len(s.Steps) == 1 {
					gc = 1
				}
				s.Steps = append(s.Steps, seqStep{GC: gc, C: c})
			}
			msg, st := checkSeq(s, true)
			if msg != "" {
				t.Fatalf("C17 caller memory violated: %s\ncase: %s", msg, s)
			}
			if large {
				st.classes = append(st.classes, "seq.first-call-large")
			}
			sec.Case(st.nontrivial, s.fp(), st.classes...)
			sec.Sample(func() any {
				return fmt.Sprintf("seq{gc=%d %s; then %d calls (every function x algorithm, path ok; large messages among them: %v); keep=12 + first}", s.Steps[0].GC, s.Steps[0].C, len(s.Steps)-1, large)
			})
		}
	}
}

// TestSeqRapid: random sequences of 2..12 calls. The calls of one sequence come mostly from a small family
// (one function or a function and its inverse, a few algorithms), so that related calls - which share pools
// and scratch space, if the library has any - meet; each call draws its own path, sizes, spare capacities,
// argument layout, and the number of collections in front of it.
func TestSeqRapid(t *testing.T) {
	defer oneP()()
	sec := vk.Sec("SeqRapid")
	var light []op
	for _, o := range ops {
		if !o.Heavy {
			light = append(light, o)
		}
	}
	groups := [][]string{
		{"crypto.EncryptSymmetric", "crypto.Encrypt"}, {"crypto.DecryptSymmetric", "crypto.Decrypt"},
		{"crypto.EncryptSymmetric", "crypto.DecryptSymmetric"}, {"crypto.Encrypt", "crypto.Decrypt"},
		{"crypto.EncryptPublicKey", "crypto.Encrypt(rsa)", "crypto.DecryptPrivateKey"}, {"crypto.SignPrivateKey", "crypto.VerifyPublicKey"},
		{"aeskw.Wrap", "aeskw.Unwrap"}, {"padding.PadPKCS7", "padding.UnpadPKCS7"}, {"aescbcaead.Seal", "aescbcaead.Open"},
		{"crypto.ParseKey", "crypto.EncryptSymmetric"}, {"aescbcaead.Seal", "crypto.EncryptSymmetric", "padding.PadPKCS7"},
		{"aescbcaead.Open", "crypto.DecryptSymmetric", "padding.UnpadPKCS7", "aeskw.Unwrap"},
		{"crypto.ParseKey", "pem.DecodePEMPrivateKey", "pem.DecodePEMCertificates", "pem.DecodePEMCertificatesChain"}, {"crypto.ParseKey", "crypto.SerializeKey", "pem.EncodePrivateKey", "pem.PublicKeysEqual"},
		{"aescbcaead.New", "aescbcaead.Seal", "aescbcaead.Open"},
	}
	vk.Check(t, 2500, 300000, func(rt *rapid.T) {
		grp := rapid.SampledFrom(groups).Draw(rt, "family")
		type member struct {
			o    op
			algs []string
		}
		var fam []member
		for _, n := range grp {
			o := opByName(n)
			na := rapid.IntRange(1, min(4, len(o.Algs))).Draw(rt, "nAlgs")
			fam = append(fam, member{o: o, algs: rapid.Permutation(o.Algs).Draw(rt, "algs")[:na]})
		}
		n := rapid.IntRange(2, 12).Draw(rt, "steps")
		// the sizes of one sequence: mostly short messages, or mostly long ones (buffers kept for long messages meet long messages)
		big := rapid.SampledFrom([]int{1, 1, 1, 6}).Draw(rt, "largeWeight")
		s := seqCase{Keep: rapid.IntRange(1, 12).Draw(rt, "keep")}
		heavy := 0
		for i := 0; i < n; i++ {
			var o op
			var algs []string
			if rapid.IntRange(0, 9).Draw(rt, "outsider?") == 0 {
				o = light[rapid.IntRange(0, len(light)-1).Draw(rt, "op")]
				algs = o.Algs
			} else {
				m := fam[rapid.IntRange(0, len(fam)-1).Draw(rt, "member")]
				o, algs = m.o, m.algs
			}
			if o.Heavy {
				if heavy++; heavy > 2 {
					o, algs = opByName("padding.PadPKCS7"), padAlgs // at most two private-key operations per sequence (time)
				}
			}
			oo := o
			oo.Algs = algs
			gc := rapid.SampledFrom([]int{0, 0, 0, 0, 0, 1, 1, 2}).Draw(rt, "gc")
			s.Steps = append(s.Steps, seqStep{GC: gc, C: drawCase(rt, oo, big)})
		}
		msg, st := checkSeq(s, false)
		if msg != "" {
			rt.Fatalf("C17 caller memory violated: %s\ncase: %s", msg, s)
		}
		sec.Case(st.nontrivial, s.fp(), st.classes...)
		sec.Sample(func() any { return s.String() })
	})
}
