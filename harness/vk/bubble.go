package vk

import (
	"fmt"
	"os"
	"runtime"
	"strings"
	"sync"
	"sync/atomic"
	"syscall"
	"testing"
	"testing/synctest"
	"time"
)

// Errs collects failures from any goroutine of a case; the first one wins.
type Errs struct {
	mu  sync.Mutex
	err error
}

// Failf records a failure (only the first is kept).
func (e *Errs) Failf(format string, args ...any) {
	e.mu.Lock()
	if e.err == nil {
		e.err = fmt.Errorf(format, args...)
	}
	e.mu.Unlock()
}

// Err returns the first recorded failure.
func (e *Errs) Err() error { e.mu.Lock(); defer e.mu.Unlock(); return e.err }

// Go starts fn on a new goroutine and turns a panic in it into a recorded failure.
func (e *Errs) Go(fn func()) {
	go func() {
		defer func() {
			if r := recover(); r != nil {
				e.Failf("panic in harness goroutine: %v\n%s", r, stack())
			}
		}()
		fn()
	}()
}

func stack() string {
	b := make([]byte, 1<<16)
	return string(b[:runtime.Stack(b, false)])
}

// watchdog state: the journal of the case currently running in a bubble, so an
// out-of-bubble monitor (real time) can name the case if the bubble wedges on
// something synctest cannot see (a sync.Mutex held forever).
var (
	wdOnce    sync.Once
	wdCase    atomic.Pointer[string]
	wdStarted atomic.Int64 // unix nanos (real) when the current case began; 0 = idle
	wdSerial  atomic.Int64
)

// ExitDeadlock is the exit code of a process whose watchdog found a bubble with
// every goroutine blocked (a state predicate, not a timeout); ExitStuck means
// the case made no progress but something was still runnable (inconclusive).
const (
	ExitDeadlock = 3
	ExitStuck    = 4
)

func watchdogLimit() time.Duration {
	return time.Duration(envInt("VERIF_WATCHDOG_S", 30)) * time.Second
}

func startWatchdog() {
	go func() {
		var lastSerial int64 = -1
		var since time.Time
		for {
			time.Sleep(500 * time.Millisecond)
			st := wdStarted.Load()
			ser := wdSerial.Load()
			if st == 0 {
				lastSerial = -1
				continue
			}
			if ser != lastSerial {
				lastSerial = ser
				since = time.Now()
				continue
			}
			if time.Since(since) < watchdogLimit() {
				continue
			}
			a := allStacks()
			cpu0 := cpuTime()
			time.Sleep(2 * time.Second)
			if wdSerial.Load() != ser {
				continue
			}
			b := allStacks()
			busy := cpuTime()-cpu0 > 300*time.Millisecond // the process is computing (e.g. a long virtual-time loop): not a deadlock
			journal := ""
			if p := wdCase.Load(); p != nil {
				journal = *p
			}
			blocked := !busy && normalize(a) == normalize(b) && !strings.Contains(stripSelf(b), "[running]") && !strings.Contains(stripSelf(b), "[runnable]")
			if dir := os.Getenv("VERIF_WEDGE_DIR"); dir != "" {
				_ = os.WriteFile(dir+"/wedge.journal", []byte(journal), 0o644)
				_ = os.WriteFile(dir+"/wedge.stacks", []byte(b), 0o644)
			}
			if blocked {
				fmt.Printf("VERIF-DEADLOCK: every goroutine of the case is blocked (two identical snapshots); case journal:\n%s\n---- stacks ----\n%s\n", journal, b)
				os.Exit(ExitDeadlock)
			}
			fmt.Printf("VERIF-STUCK: no progress for %v but goroutines are runnable; inconclusive. journal:\n%s\n---- stacks ----\n%s\n", watchdogLimit(), journal, b)
			os.Exit(ExitStuck)
		}
	}()
}

// cpuTime is the CPU time (user+system) consumed by the process so far.
func cpuTime() time.Duration {
	var ru syscall.Rusage
	if err := syscall.Getrusage(syscall.RUSAGE_SELF, &ru); err != nil {
		return 0
	}
	return time.Duration(ru.Utime.Nano() + ru.Stime.Nano())
}

func allStacks() string {
	b := make([]byte, 8<<20)
	return string(b[:runtime.Stack(b, true)])
}

// stripSelf removes the watchdog goroutine (the one that is running) from a dump.
func stripSelf(dump string) string {
	parts := strings.Split(dump, "\n\n")
	var keep []string
	for _, p := range parts {
		if strings.Contains(p, "vk.startWatchdog") || strings.Contains(p, "vk.allStacks") {
			continue
		}
		keep = append(keep, p)
	}
	return strings.Join(keep, "\n\n")
}

func normalize(dump string) string {
	// drop "N minutes" annotations, which change between snapshots
	lines := strings.Split(stripSelf(dump), "\n")
	for i, l := range lines {
		if strings.HasPrefix(l, "goroutine ") {
			if j := strings.Index(l, ","); j > 0 && strings.HasSuffix(l, "]:") {
				lines[i] = l[:j] + "]:"
			}
		}
	}
	return strings.Join(lines, "\n")
}

// Bubble runs f inside a synctest bubble (virtual time; the bubble ends when f
// returns) and converts every way it can go wrong into an error: a panic in f,
// "all goroutines in bubble are blocked" (deadlock while f waits) and "blocked
// goroutines remain" (f returned but helpers are still parked: a leak). journal
// describes the case for the watchdog, which covers wedges on sync.Mutex.
func Bubble(t *testing.T, journal string, f func()) (err error) {
	wdOnce.Do(startWatchdog)
	wdCase.Store(&journal)
	wdSerial.Add(1)
	wdStarted.Store(time.Now().UnixNano())
	defer func() {
		wdStarted.Store(0)
		wdSerial.Add(1)
		if r := recover(); r != nil {
			err = fmt.Errorf("bubble: %v", r)
		}
	}()
	synctest.Test(t, func(*testing.T) {
		defer func() {
			if r := recover(); r != nil {
				err = fmt.Errorf("panic in case: %v\n%s", r, stack())
			}
		}()
		f()
	})
	return err
}

// Guard runs f outside any bubble under the same watchdog (for checks that use
// real goroutines and real time).
func Guard(journal string, f func()) {
	wdOnce.Do(startWatchdog)
	wdCase.Store(&journal)
	wdSerial.Add(1)
	wdStarted.Store(time.Now().UnixNano())
	defer func() {
		wdStarted.Store(0)
		wdSerial.Add(1)
	}()
	f()
}

// Progress tells the watchdog the current case is still advancing.
func Progress() { wdSerial.Add(1) }

// Wedged reports a deadlock that the harness has established as a state
// predicate (a settled snapshot with goroutines parked on a mutex that nothing
// can release) but from which the bubble cannot be recovered, so rapid cannot
// continue or shrink: the message (which must contain the whole case) is printed
// and the process exits with ExitDeadlock at once instead of waiting for the watchdog.
func Wedged(msg string) {
	fmt.Printf("VERIF-DEADLOCK: %s\n", msg)
	if dir := os.Getenv("VERIF_WEDGE_DIR"); dir != "" {
		_ = os.WriteFile(dir+"/wedge.journal", []byte(msg), 0o644)
		_ = os.WriteFile(dir+"/wedge.stacks", []byte(allStacks()), 0o644)
	}
	Flush()
	os.Exit(ExitDeadlock)
}
