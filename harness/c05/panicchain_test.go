package c05

import (
	"fmt"
	"sync"
	"testing"
	"time"

	"github.com/dapr/kit/cron"
	clocktesting "k8s.io/utils/clock/testing"
	"pgregory.net/rapid"

	"verifharness/vk"
)

// Jobs that PANIC on some of their activations, under a chain whose outermost wrapper is Recover (so the panic is
// swallowed) and whose inner wrapper may serialise the runs of one entry (DelayIfStillRunning / SkipIfStillRunning).
// The jobs return (or panic) at once, so no run is ever "still running" at the next activation: every activation must
// start the job exactly once, a recovered panic must not change what happens at the later activations, and the context
// returned by Stop must complete.
type panicCase struct {
	Chain   string // recover | recover+delay | recover+skip
	Secs    int    // virtual seconds stepped through, one at a time
	Entries []panicEntry
}

type panicEntry struct {
	Style  string // every | @every | */N
	Period int    // seconds
	Panics []int  // 1-based activation numbers on which the job panics
}

func (c panicCase) String() string {
	s := ""
	for i, e := range c.Entries {
		s += fmt.Sprintf(" e%d{%s %ds panics@%v}", i, e.Style, e.Period, e.Panics)
	}
	return fmt.Sprintf("cron.panicchain{chain=%s secs=%d entries=[%s ]}", c.Chain, c.Secs, s)
}

type panicOut struct {
	panicThenLater bool // some entry panicked on an activation that was followed by another one
	skipLost       bool // Recover+Skip: the activations after a panic were skipped (see below)
}

func runPanicChain(t *testing.T, c panicCase) (out panicOut, err error) {
	var errs vk.Errs
	berr := vk.Bubble(t, c.String(), func() {
		fake := clocktesting.NewFakeClock(time.Date(2024, 1, 1, 0, 0, 0, 0, time.UTC))
		ws := []cron.JobWrapper{cron.Recover(quietLogger{})}
		switch c.Chain {
		case "recover+delay":
			ws = append(ws, cron.DelayIfStillRunningWithClock(quietLogger{}, fake))
		case "recover+skip":
			ws = append(ws, cron.SkipIfStillRunning(quietLogger{}))
		}
		cr := cron.New(cron.WithClock(fake), cron.WithLocation(time.UTC), cron.WithLogger(quietLogger{}), cron.WithSeconds(), cron.WithChain(ws...))
		var mu sync.Mutex
		started := make([]int, len(c.Entries))
		for i, e := range c.Entries {
			bad := map[int]bool{}
			for _, k := range e.Panics {
				bad[k] = true
			}
			job := func() {
				mu.Lock()
				started[i]++
				k := started[i]
				mu.Unlock()
				if bad[k] {
					panic(fmt.Sprintf("entry %d: activation %d fails", i, k))
				}
			}
			switch e.Style {
			case "every":
				cr.Schedule(cron.Every(time.Duration(e.Period)*time.Second), cron.FuncJob(job))
			case "@every":
				if _, e2 := cr.AddFunc(fmt.Sprintf("@every %ds", e.Period), job); e2 != nil {
					errs.Failf("AddFunc: %v", e2)
					return
				}
			default:
				if _, e2 := cr.AddJob(fmt.Sprintf("*/%d * * * * *", e.Period), cron.FuncJob(job)); e2 != nil {
					errs.Failf("AddJob: %v", e2)
					return
				}
			}
		}
		settle := func() vk.Parked {
			p, e := vk.SettleStacks()
			if e != nil {
				errs.Failf("%v\n%s", e, p.Dump)
			}
			return p
		}
		cr.Start()
		settle()
		frozen := make([]int, len(c.Entries)) // Recover+Skip: starts at the entry's first panic (0 = none yet)
		ok := true
		for sec := 1; sec <= c.Secs && ok; sec++ {
			fake.Step(time.Second)
			p := settle()
			mu.Lock()
			for i, e := range c.Entries {
				want := sec / e.Period // activations due so far: at every multiple of the period
				got := started[i]
				if frozen[i] == 0 {
					for _, k := range e.Panics {
						if k <= want && (frozen[i] == 0 || k < frozen[i]) {
							frozen[i] = k
						}
					}
				}
				for _, k := range e.Panics {
					if k < want {
						out.panicThenLater = true
					}
				}
				if got == want {
					continue
				}
				// (SkipIfStillRunning used to keep its token after a recovered panic and skip every later activation: fix 1af4e5c)
				msg := fmt.Sprintf("C05 cron runner violated: after %d s the job of entry %d (period %d s, panics on activations %v, recovered by the outer Recover) has been started %d times, want %d: one start per activation, also after a recovered panic (goroutines parked on a lock: %d)", sec, i, e.Period, e.Panics, got, want, p.OnMutex)
				if p.OnMutex > 0 {
					mu.Unlock()
					vk.Wedged(msg + "\ncase: " + c.String())
				}
				errs.Failf("%s", msg)
				ok = false
				break
			}
			mu.Unlock()
		}
		ctx := cr.Stop()
		p := settle()
		select {
		case <-ctx.Done():
		default:
			msg := fmt.Sprintf("C05 cron runner violated: every started job has returned or panicked, but the context returned by Stop is not done (goroutines parked on a lock: %d)", p.OnMutex)
			if p.OnMutex > 0 {
				vk.Wedged(msg + "\ncase: " + c.String())
			}
			errs.Failf("%s", msg)
		}
	})
	if e := errs.Err(); e != nil {
		return out, e
	}
	return out, berr
}

func TestCronPanicUnderChain(t *testing.T) {
	sec := vk.Sec("CronPanicUnderChain")
	vk.Check(t, 300, 30000, func(rt *rapid.T) {
		c := panicCase{Chain: rapid.SampledFrom([]string{"recover", "recover+delay", "recover+delay", "recover+skip"}).Draw(rt, "chain")}
		n := rapid.IntRange(1, 3).Draw(rt, "entries")
		acts := rapid.IntRange(4, 8).Draw(rt, "activations")
		for i := 0; i < n; i++ {
			e := panicEntry{Style: rapid.SampledFrom([]string{"every", "@every", "*/N"}).Draw(rt, "style"), Period: rapid.IntRange(1, 3).Draw(rt, "period")}
			if i == 0 {
				c.Secs = acts * e.Period // entry 0 is activated 4..8 times
			}
			k := c.Secs / e.Period // activations of this entry
			for a := 1; a <= k; a++ {
				// entry 0 always panics on some activation that is followed by another one
				if (i == 0 && len(e.Panics) == 0 && a == k-1) || rapid.IntRange(0, 3).Draw(rt, "panics") == 0 {
					e.Panics = append(e.Panics, a)
				}
			}
			c.Entries = append(c.Entries, e)
		}
		out, err := runPanicChain(t, c)
		if err != nil {
			rt.Fatalf("C05 cron runner violated: %v\ncase: %s", err, c)
		}
		cls := []string{"panicchain." + c.Chain}
		if out.panicThenLater {
			cls = append(cls, "panicchain.activation-after-recovered-panic")
		}
		if out.skipLost {
			cls = append(cls, "panicchain.skip-loses-activations-after-panic")
		}
		sec.Case(out.panicThenLater && c.Chain != "recover", vk.FP(c.String()), cls...)
		sec.Sample(func() any { return c.String() })
	})
}
