package c17

import (
	"bytes"
	"encoding/binary"
	"fmt"
	"strings"
	"unsafe"

	"verifharness/vk"
)

const guardLen = 32

// expand is vk.Expand (same bytes for the same seed: splitmix64, little-endian words) writing a word at a time: the
// arguments of the large size classes are hundreds of kilobytes per case.
func expand(seed uint64, n int) []byte {
	out := make([]byte, n+8)
	x := seed
	for i := 0; i < n; i += 8 {
		x += 0x9e3779b97f4a7c15
		z := x
		z = (z ^ (z >> 30)) * 0xbf58476d1ce4e5b9
		z = (z ^ (z >> 27)) * 0x94d049bb133111eb
		z ^= z >> 31
		binary.LittleEndian.PutUint64(out[i:], z)
	}
	return out[:n:n]
}

// part is one argument inside a region: the function under test receives
// buf[off : off+n : capEnd].
type part struct {
	name     string
	off, n   int
	capEnd   int
	writable bool // explicit AEAD dst (or an argument the caller reuses as dst): bytes and spare may change during the call it is handed to
	wEnd     int  // if > 0: the dst the caller passes is capped here (x[:0:k]); what lies between wEnd and capEnd is the argument's spare capacity, not the destination's
}

// region is memory the caller owns: a backing buffer filled with canary bytes except
// for the argument bytes. Two layouts:
//
//	isolated: [ front guard | argument bytes (len) | spare capacity (cap-len) | back guard ]
//	packed:   [ front guard | arg A | gap | arg B | gap | arg C | tail | back guard ]
//
// In a packed region several arguments of ONE call are sub-slices of ONE buffer (the way a
// caller splits a received message nonce|ciphertext|tag): the gap may be 0 (adjacent), positive,
// or negative (the arguments overlap), and the capacity of each sub-slice ends at its length, at
// the next argument, or at the end of the usable buffer (two-index slicing: the spare capacity
// of an argument then covers the arguments behind it).
type region struct {
	name   string
	buf    []byte
	saved  []byte
	parts  []part
	lo, hi int // buf[lo:hi] holds arguments, gaps and spare capacity; the rest is guard
	packed bool
	f      *fence // memory kind fenced: the pages the buffer lives in (fence_test.go)
}

type arena struct {
	seed   uint64
	regs   []*region
	frozen bool // the call is over: every byte (the former dst too) is the caller's and must stay what it is
	// memory kind fenced (fence_test.go): the regions live in pages of their own, read-only during the call wherever the callee has no right to write
	fenced       bool
	capHint      bool    // the in-place dst of this call is capped at its length: the page boundary goes there
	fenceErr     error   // pages could not be had / protected: the case falls back to the comparison after the call
	faultMsg     string  // the call faulted writing memory of this arena
	foreignFault uintptr // the call faulted at an address outside this arena (a sequence looks for it in the arenas of the earlier calls)
}

func (a *arena) canary(name string, n int) []byte {
	return expand(a.seed^vk.FP("canary", name, len(a.regs)), n)
}

// cut makes the argument called name with the given content and spare capacity, in a region of its own.
func (a *arena) cut(name string, content []byte, spare int) []byte {
	return a.cutB(name, content, spare, guardLen+len(content)+spare, false)
}

// cutB is cut with the byte of the buffer named that starts a page when the memory is fenced (cut: the end of the capacity).
// hasDst: the region is, or will be made, a destination.
func (a *arena) cutB(name string, content []byte, spare, boundary int, hasDst bool) []byte {
	r := &region{name: name, lo: guardLen, hi: guardLen + len(content) + spare}
	img := a.canary(name, guardLen+len(content)+spare+guardLen)
	copy(img[guardLen:], content)
	r.saved = append([]byte{}, img...)
	r.buf, r.f = a.alloc(img, boundary, hasDst)
	r.parts = []part{{name: name, off: guardLen, n: len(content), capEnd: r.hi}}
	a.regs = append(a.regs, r)
	return r.buf[guardLen : guardLen+len(content) : r.hi]
}

// dst makes an explicit destination buffer (writable up to its capacity).
func (a *arena) dst(name string, content []byte, spare int) []byte {
	s := a.cutB(name, content, spare, guardLen+len(content)+spare, true)
	a.regs[len(a.regs)-1].parts[0].writable = true
	return s
}

// packItem is one argument of a packed region, in memory order.
type packItem struct {
	name     string
	content  []byte
	gap      int  // distance between the end of this argument and the start of the next one (last item: spare capacity behind it); negative: overlap
	writable bool // the caller also passes it as dst (x[:0])
}

// pack lays the items out in one buffer, in the given order, and returns the sub-slices.
// capMode: "len" (cap == len), "gap" (cap ends where the next argument starts), "end" (cap ends at
// the end of the usable buffer). A writable item never overlaps its neighbours and its capacity never
// covers them (cipher.AEAD: the remaining capacity of dst must not overlap the other arguments).
func (a *arena) pack(items []packItem, capMode string) [][]byte {
	n := len(items)
	offs := make([]int, n)
	off, end := guardLen, guardLen
	for i, it := range items {
		offs[i] = off
		end = max(end, off+len(it.content))
		if i == n-1 {
			end = max(end, off+len(it.content)+max(it.gap, 0))
			break
		}
		g := it.gap
		if g < 0 && (it.writable || items[i+1].writable) {
			g = 0
		}
		off = max(off, off+len(it.content)+g) // an overlapping argument never starts in front of the one before it
		if items[i+1].writable {
			off = max(off, end) // nothing that was laid out earlier reaches into a dst
		}
	}
	var names []string
	for _, it := range items {
		names = append(names, it.name)
	}
	r := &region{name: "packed(" + strings.Join(names, "|") + ")", lo: guardLen, hi: end, packed: true}
	// where the capacity of each sub-slice ends
	caps := make([]int, n)
	for i, it := range items {
		e := offs[i] + len(it.content)
		next := end // "gap": up to the next argument that starts at or behind the end of this one
		if i < n-1 {
			next = max(e, offs[i+1])
		}
		caps[i] = e
		switch capMode {
		case "gap":
			caps[i] = next
		case "end":
			caps[i] = end
		}
		if it.writable {
			caps[i] = min(caps[i], next)
		}
	}
	// fenced memory: the page boundary is where the memory the callee may write ends (the capacity of the in-place dst, or its
	// length when the caller caps it there); without a dst, at the end of the usable buffer
	boundary, hasDst := end, false
	for i, it := range items {
		if it.writable {
			if boundary, hasDst = caps[i], true; a.capHint {
				boundary = offs[i] + len(it.content)
			}
		}
	}
	img := a.canary(r.name, end+guardLen)
	for i, it := range items {
		copy(img[offs[i]:], it.content) // memory order: where two arguments overlap, the later one defines the bytes
	}
	r.saved = append([]byte{}, img...)
	r.buf, r.f = a.alloc(img, boundary, hasDst)
	out := make([][]byte, n)
	for i, it := range items {
		e := offs[i] + len(it.content)
		r.parts = append(r.parts, part{name: it.name, off: offs[i], n: len(it.content), capEnd: caps[i], writable: it.writable})
		out[i] = r.buf[offs[i]:e:caps[i]]
	}
	a.regs = append(a.regs, r)
	return out
}

// reuseAsDst marks the region of an argument as the destination too (the in-place
// forms the cipher.AEAD contract allows: Seal(plaintext[:0], ...), Open(ciphertext[:0], ...)).
func (a *arena) reuseAsDst(name string) {
	for _, r := range a.regs {
		for i := range r.parts {
			if r.parts[i].name == name {
				r.parts[i].writable = true
			}
		}
	}
}

// capDst records that the dst the caller passes for the in-place argument name is capped at its length
// (x[:0:len(x)]): the argument's spare capacity is then NOT part of the destination.
func (a *arena) capDst(name string) {
	for _, r := range a.regs {
		for i := range r.parts {
			if r.parts[i].name == name && r.parts[i].writable {
				r.parts[i].wEnd = r.parts[i].off + r.parts[i].n
			}
		}
	}
}

// freeze is called when the call has returned and its own comparison is done: the arena becomes
// the reference for later comparisons, and nothing in it - the former dst included - may change any more.
func (a *arena) freeze() {
	for _, r := range a.regs {
		copy(r.saved, r.buf)
	}
	a.frozen = true
	a.seal()
}

func (r *region) mayChange(i int) bool {
	for _, p := range r.parts {
		end := p.capEnd
		if p.wEnd > 0 {
			end = p.wEnd
		}
		if p.writable && i >= p.off && i < end {
			return true
		}
	}
	return false
}

// where describes byte i of the region in the terms of the caller.
func (r *region) where(i int) string {
	var roles []string
	for _, p := range r.parts {
		switch {
		case i >= p.off && i < p.off+p.n:
			roles = append(roles, fmt.Sprintf("the bytes of argument %q (len %d, cap %d) at offset %d", p.name, p.n, p.capEnd-p.off, i-p.off))
		case i >= p.off+p.n && i < p.capEnd:
			roles = append(roles, fmt.Sprintf("the spare capacity (behind len) of argument %q (len %d, cap %d) at offset %d", p.name, p.n, p.capEnd-p.off, i-p.off-p.n))
		}
	}
	if len(roles) > 0 {
		return strings.Join(roles, " = ")
	}
	switch {
	case i < r.lo:
		return fmt.Sprintf("the memory in front of %s at offset %d", r.name, i-r.lo)
	case i >= r.hi:
		return fmt.Sprintf("the memory behind the capacity of %s at offset %d", r.name, i-r.hi)
	}
	return fmt.Sprintf("the bytes between the arguments of %s at offset %d of the buffer", r.name, i-r.lo)
}

// diff returns "" when every byte the callee must not write is what it was, otherwise
// a description of the first difference.
func (a *arena) diff() string {
	for _, r := range a.regs {
		if bytes.Equal(r.buf, r.saved) {
			continue
		}
		for i := range r.buf {
			if r.buf[i] == r.saved[i] || (!a.frozen && r.mayChange(i)) {
				continue
			}
			j := i
			for j < len(r.buf) && r.buf[j] != r.saved[j] && j < i+40 {
				j++
			}
			lay := ""
			if r.packed {
				lay = " [layout " + r.layout() + "]"
			}
			return fmt.Sprintf("%s changed: was %x, is %x%s", r.where(i), r.saved[i:j], r.buf[i:j], lay)
		}
	}
	return ""
}

// layout prints a packed region as name[off:end:cap] in memory order (offsets inside the usable buffer).
func (r *region) layout() string {
	var s []string
	for _, p := range r.parts {
		w := ""
		if p.writable {
			w = "=dst"
		}
		s = append(s, fmt.Sprintf("%s[%d:%d:%d]%s", p.name, p.off-r.lo, p.off+p.n-r.lo, p.capEnd-r.lo, w))
	}
	return strings.Join(s, " ")
}

// aliases lists the regions the result slice points into.
func (a *arena) aliases(res []byte) []string {
	if cap(res) == 0 {
		return nil
	}
	p := uintptr(unsafe.Pointer(unsafe.SliceData(res)))
	var out []string
	for _, r := range a.regs {
		base := uintptr(unsafe.Pointer(unsafe.SliceData(r.buf)))
		if p >= base && p < base+uintptr(len(r.buf)) {
			out = append(out, r.name)
		}
	}
	return out
}

// anySpare reports whether some read-only argument has spare capacity.
func (a *arena) anySpare() bool {
	for _, r := range a.regs {
		for _, p := range r.parts {
			if p.capEnd > p.off+p.n && !p.writable {
				return true
			}
		}
	}
	return false
}

// longest returns the length of the longest argument of the call (-1: no argument) and whether that argument is read-only
// with spare capacity behind its length.
func (a *arena) longest() (n int, spare bool) {
	n = -1
	for _, r := range a.regs {
		for _, p := range r.parts {
			if p.n > n {
				n, spare = p.n, p.capEnd > p.off+p.n && !p.writable
			}
		}
	}
	return n, spare
}

// layoutClasses names the layout features of the case for the evidence.
func (a *arena) layoutClasses() []string {
	out := []string{"layout.isolated"}
	for _, r := range a.regs {
		if !r.packed {
			continue
		}
		out = []string{"layout.packed", fmt.Sprintf("layout.packed.%dargs", len(r.parts))}
		for i := 0; i+1 < len(r.parts); i++ {
			p, q := r.parts[i], r.parts[i+1]
			switch {
			case q.off == p.off+p.n && (p.n == 0 || q.n == 0):
				out = append(out, "layout.adjacent.empty-argument")
			case q.off == p.off+p.n:
				out = append(out, "layout.adjacent."+p.name+"|"+q.name)
				if p.capEnd >= q.off+q.n {
					out = append(out, "layout.adjacent-under-capacity."+p.name+"|"+q.name)
				}
			case q.off < p.off+p.n:
				out = append(out, "layout.overlap")
			default:
				out = append(out, "layout.gap")
			}
		}
		for _, p := range r.parts {
			if p.writable {
				out = append(out, "layout.packed.with-inplace-dst")
			}
		}
	}
	return out
}

// ------------------------------------------------------------------ memory of earlier calls

// ledger keeps the arenas of earlier calls of one sequence: memory handed to a call stays the
// caller's after the call has returned, so no LATER call may write it either.
type ledger struct {
	keep    int
	entries []ledgerEntry
}

type ledgerEntry struct {
	step   int
	what   string
	a      *arena
	pinned bool
}

func (l *ledger) add(step int, what string, a *arena, pinned bool) {
	a.freeze()
	l.entries = append(l.entries, ledgerEntry{step: step, what: what, a: a, pinned: pinned})
	n := 0
	for _, e := range l.entries {
		if !e.pinned {
			n++
		}
	}
	for i := 0; n > l.keep && i < len(l.entries); i++ {
		if !l.entries[i].pinned {
			l.entries[i].a.release() // forgotten: its pages go back
			l.entries = append(l.entries[:i], l.entries[i+1:]...)
			n--
			i--
		}
	}
}

// locate looks for the address of a fault in the memory of the remembered calls.
func (l *ledger) locate(addr uintptr) (step int, what, where string) {
	for _, e := range l.entries {
		if w := e.a.locate(addr); w != "" {
			return e.step, e.what, w
		}
	}
	return 0, "", ""
}

// verify compares the memory of every remembered call with what it was when that call returned.
func (l *ledger) verify() (step int, what, msg string) {
	for _, e := range l.entries {
		if m := e.a.diff(); m != "" {
			return e.step, e.what, m
		}
	}
	return 0, "", ""
}
