CFG = dict(
     claimed=True,
     rule="Cases: programs for 2..8 workers over 1..3 keys issued one operation at a time by a controller that waits until the "
          "worker has returned or is confirmed blocked (synctest.Wait for the channel-based primitives, a stop-the-world goroutine-"
          "state snapshot for cmap's sync.RWMutex). fifo.Mutex / fifo map: Lock/Unlock, plus parking a worker between counting itself "
          "and queueing on the key mutex (verif point); oracle = reference FIFO queue per key: exactly the predicted worker is "
          "granted, nobody out of turn, entry count (verif accessor) = keys with a holder/waiter. cmap per-key RW mutex: Lock/RLock/"
          "Unlock/RUnlock/DeleteUnlock/DeleteRUnlock plus parking a worker between look-up and lock (verif points); oracle = "
          "occupancy monitor inside critical sections and 'a key somebody waits for has a holder'. lock.Context: Lock/RLock with "
          "live, already-cancelled and cancelled-while-waiting contexts; oracle = one holder, a cancelled waiter returns an error and "
          "holds nothing, never idle while a live waiter exists. OuterCancel (virtual time): RLock/release/parent-cancel, Lock/"
          "unlock, clock advances around the grace period; oracle = writer granted exactly when every earlier reader released or "
          "at request+grace (readers then cancelled with the configured cause), no reader or second writer admitted meanwhile, "
          "reader contexts otherwise stay live, shutdown cancels. Only correctly paired, deadlock-free programs are generated. "
          "Non-trivial: an operation confirmed blocked and later granted, a cancellation hitting a waiter, a delete-and-release "
          "with a waiter, or operations while a worker is parked at a schedule point. Distinct by program.",
     technique="model-based property testing (rapid; controller/worker programs in testing/synctest bubbles; reference lock models, occupancy monitor; verif-tagged pause points; exhaustive miss-window sweep) + randomized real-thread stress with an atomic occupancy oracle",
     level_text="Generated programs against reference lock models with confirmed-blocked/returned observations after every step; "
                "exact virtual time for the outer-cancel grace period; few-instruction windows placed through verif points.",
     level_note="Trusts testing/synctest, runtime.Stack goroutine states, rapid. Exclusion across OuterCancel shutdown is not asserted "
                "(the statement scopes it to 'while it is running'); sync.RWMutex grant order is not asserted.",
     assumptions=["testing/synctest and runtime.Stack(all) snapshots are correct", "callers pair their calls correctly and avoid lock-order cycles"],
     timeout_quick=600, timeout_thorough=3000)
CFG["rule"] += ' TestFifoArrivalOrderOneP: one P; the second caller is started only after a stack census shows the first inside Lock (any state), with 0-6 extra scheduler turns at both places (exhaustive); the first must be granted first.'
