package c03

import (
	"bytes"
	"crypto/rsa"
	"crypto/x509"
	"encoding/pem"
	"os"
	"os/exec"
	"path/filepath"
	"runtime"
	"strings"
	"testing"

	"verifharness/refcrypto"
	"verifharness/vk"
)

// RSA private keys of a less common but legal STRUCTURE: only n, e and d (RFC 7518 section 6.3.2 makes p, q, dp, dq and qi
// optional; a key unwrapped from a hardware token or written by a minimal implementation looks like that). "Every key
// of the right kind" includes them.
//
// This one class cannot be examined in the harness process: the harness is built with the newer Go toolchain (it needs
// testing/synctest), and from Go 1.24 on crypto/rsa refuses the two zero primes that jwx puts into such a key ("modulus
// must be > 1") - with the toolchain dapr/kit pins (go 1.23) the same key works. So the cases are run by a small
// program that this test writes to a scratch directory and runs with the DEFAULT `go` of the machine, i.e. the
// repository's own toolchain, against the same working tree; the program prints one line per case and the oracle below
// judges the lines: kit's signature verifies under the standard library with the FULL key, kit decrypts what the
// standard library encrypted for the full key and vice versa, kit verifies its own signature.
const crtLessProgram = `package main

import (
	"crypto"
	"crypto/rand"
	"crypto/rsa"
	"crypto/sha1"
	"crypto/sha256"
	"crypto/sha512"
	"crypto/x509"
	"encoding/pem"
	"fmt"
	"hash"
	"os"

	kit "github.com/dapr/kit/crypto"
	"github.com/lestrrat-go/jwx/v2/jwk"
)

func main() {
	for _, path := range os.Args[1:] {
		raw, err := os.ReadFile(path)
		if err != nil {
			panic(err)
		}
		blk, _ := pem.Decode(raw)
		k8, err := x509.ParsePKCS8PrivateKey(blk.Bytes)
		if err != nil {
			panic(err)
		}
		full := k8.(*rsa.PrivateKey)
		bare := &rsa.PrivateKey{PublicKey: full.PublicKey, D: full.D}
		for _, form := range []string{"full", "n-e-d-only"} {
			src := full
			if form != "full" {
				src = bare
			}
			j, err := jwk.FromRaw(src)
			if err != nil {
				fmt.Printf("CASE key=%s form=%s op=jwk.FromRaw result=harness-error:%v\n", path, form, err)
				continue
			}
			for _, a := range []struct {
				name string
				h    crypto.Hash
				pss  bool
			}{{"RS256", crypto.SHA256, false}, {"RS384", crypto.SHA384, false}, {"RS512", crypto.SHA512, false}, {"PS256", crypto.SHA256, true}, {"PS384", crypto.SHA384, true}, {"PS512", crypto.SHA512, true}} {
				digest := make([]byte, a.h.Size())
				for i := range digest {
					digest[i] = byte(i*7 + len(a.name))
				}
				res := "ok"
				sig, err := safeSign(digest, a.name, j)
				switch {
				case err != nil:
					res = "sign-error:" + err.Error()
				default:
					var verr error
					if a.pss {
						verr = rsa.VerifyPSS(&full.PublicKey, a.h, digest, sig, &rsa.PSSOptions{SaltLength: rsa.PSSSaltLengthAuto})
					} else {
						verr = rsa.VerifyPKCS1v15(&full.PublicKey, a.h, digest, sig)
					}
					if verr != nil {
						res = "signature-does-not-verify-under-stdlib:" + verr.Error()
					} else if ok, err := kit.VerifyPublicKey(digest, sig, a.name, j); err != nil || !ok {
						res = fmt.Sprintf("kit-does-not-verify-own-signature:%v,%v", ok, err)
					}
				}
				fmt.Printf("CASE key=%s form=%s op=sign alg=%s result=%s\n", path, form, a.name, res)
			}
			for _, a := range []struct {
				name string
				h    func() hash.Hash
			}{{"RSA1_5", nil}, {"RSA-OAEP", sha1.New}, {"RSA-OAEP-256", sha256.New}, {"RSA-OAEP-384", sha512.New384}, {"RSA-OAEP-512", sha512.New}} {
				msg := []byte("a message of 29 bytes, exactly")
				label := []byte("lbl")
				var ct []byte
				var err error
				if a.h == nil {
					ct, err = rsa.EncryptPKCS1v15(rand.Reader, &full.PublicKey, msg)
					label = nil
				} else {
					ct, err = rsa.EncryptOAEP(a.h(), rand.Reader, &full.PublicKey, msg, label)
				}
				res := "ok"
				if err != nil {
					res = "harness-error:" + err.Error()
				} else if pt, err := safeDecrypt(ct, a.name, j, label); err != nil {
					res = "decrypt-error:" + err.Error()
				} else if string(pt) != string(msg) {
					res = "decrypts-to-another-message"
				} else if ct2, err := kit.EncryptPublicKey(msg, a.name, j, label); err != nil {
					res = "encrypt-error:" + err.Error()
				} else {
					var pt2 []byte
					if a.h == nil {
						pt2, err = rsa.DecryptPKCS1v15(nil, full, ct2)
					} else {
						pt2, err = rsa.DecryptOAEP(a.h(), nil, full, ct2, label)
					}
					if err != nil || string(pt2) != string(msg) {
						res = fmt.Sprintf("stdlib-cannot-decrypt-kit-ciphertext:%v", err)
					}
				}
				fmt.Printf("CASE key=%s form=%s op=decrypt alg=%s result=%s\n", path, form, a.name, res)
			}
		}
	}
	fmt.Println("DONE")
}

func safeSign(d []byte, alg string, k jwk.Key) (sig []byte, err error) {
	defer func() {
		if r := recover(); r != nil {
			err = fmt.Errorf("PANIC %v", r)
		}
	}()
	return kit.SignPrivateKey(d, alg, k)
}

func safeDecrypt(ct []byte, alg string, k jwk.Key, label []byte) (pt []byte, err error) {
	defer func() {
		if r := recover(); r != nil {
			err = fmt.Errorf("PANIC %v", r)
		}
	}()
	return kit.DecryptPrivateKey(ct, alg, k, label)
}
`

func TestRSAKeyStructuresUnderRepoToolchain(t *testing.T) {
	sec := vk.Sec("RSAKeyStructuresUnderRepoToolchain")
	if !vk.Mine(1) {
		return
	}
	repo := os.Getenv("VERIF_REPO")
	if repo == "" {
		repo = "/repo"
	}
	dir, err := os.MkdirTemp("", "verif-c03-repotoolchain-")
	if err != nil {
		t.Fatalf("C03 harness error: %v", err)
	}
	defer os.RemoveAll(dir)
	gomod, err := os.ReadFile(filepath.Join(repo, "go.mod"))
	if err != nil {
		t.Fatalf("C03 harness error: %v", err)
	}
	goLine := "go 1.23"
	for _, l := range strings.Split(string(gomod), "\n") {
		if strings.HasPrefix(l, "go ") {
			goLine = l
		}
	}
	sum, _ := os.ReadFile(filepath.Join(repo, "go.sum"))
	files := map[string][]byte{
		"go.mod":  []byte("module verifrepotoolchain\n\n" + goLine + "\n\nrequire github.com/dapr/kit v0.0.0\n\nreplace github.com/dapr/kit => " + repo + "\n"),
		"go.sum":  sum,
		"main.go": []byte(crtLessProgram),
	}
	ks := refcrypto.Keys()
	var args []string
	for name, k := range map[string]*rsa.PrivateKey{"rsa2048.pem": ks.RSA2048, "rsa3072.pem": ks.RSA3072, "rsa2047.pem": ks.RSA2047} {
		der, err := x509.MarshalPKCS8PrivateKey(k)
		if err != nil {
			t.Fatalf("C03 harness error: %v", err)
		}
		files[name] = pem.EncodeToMemory(&pem.Block{Type: "PRIVATE KEY", Bytes: der})
		args = append(args, name)
	}
	for n, b := range files {
		if err := os.WriteFile(filepath.Join(dir, n), b, 0o644); err != nil {
			t.Fatalf("C03 harness error: %v", err)
		}
	}
	// the machine's default go: the first "go" on PATH that is not the toolchain this test binary was built with
	// (`go test` puts its own GOROOT/bin in front of PATH and exports GOROOT)
	gobin := ""
	for _, d := range filepath.SplitList(os.Getenv("PATH")) {
		if d == "" || filepath.Clean(d) == filepath.Join(runtime.GOROOT(), "bin") {
			continue
		}
		if st, err := os.Stat(filepath.Join(d, "go")); err == nil && !st.IsDir() {
			gobin = filepath.Join(d, "go")
			break
		}
	}
	if gobin == "" {
		t.Skip("C03 inconclusive: no default go toolchain on PATH")
	}
	var env []string
	for _, e := range os.Environ() {
		if !strings.HasPrefix(e, "GOROOT=") && !strings.HasPrefix(e, "GOFLAGS=") && !strings.HasPrefix(e, "GOTOOLCHAIN=") {
			env = append(env, e)
		}
	}
	env = append(env, "GOFLAGS=-mod=mod", "GOPROXY=off", "GOSUMDB=off", "GOTOOLCHAIN=local", "GOWORK=off")
	vcmd := exec.Command(gobin, "env", "GOVERSION")
	vcmd.Env = env
	vout, _ := vcmd.Output()
	gover := strings.TrimSpace(string(vout))
	want := "go" + strings.Join(strings.SplitN(strings.TrimPrefix(goLine, "go "), ".", 3)[:2], ".")
	if !strings.HasPrefix(gover, want+".") && gover != want {
		t.Skipf("C03 inconclusive: the default go toolchain is %s, the repository's go.mod asks for %s: the class is only examined under the repository's own toolchain", gover, want)
	}
	cmd := exec.Command(gobin, append([]string{"run", "."}, args...)...)
	cmd.Dir = dir
	cmd.Env = env
	var out, errb bytes.Buffer
	cmd.Stdout, cmd.Stderr = &out, &errb
	if err := cmd.Run(); err != nil || !strings.Contains(out.String(), "DONE") {
		// the program could not be built or run with the repository's toolchain: nothing was examined (not a verdict)
		t.Skipf("C03 inconclusive: the case program did not run under the default go toolchain: %v\n%s", err, clipStr(errb.String(), 2000))
	}
	n := 0
	for _, line := range strings.Split(out.String(), "\n") {
		if !strings.HasPrefix(line, "CASE ") {
			continue
		}
		n++
		res := line[strings.Index(line, "result=")+len("result="):]
		if strings.HasPrefix(res, "harness-error") {
			t.Fatalf("C03 harness error: %s", line)
		}
		if res != "ok" {
			t.Fatalf("C03 asymmetric round trip / interoperability violated (run with the repository's own Go toolchain): %s\ncase: {%s}", res, strings.TrimPrefix(line[:strings.Index(line, " result=")], "CASE "))
		}
		cls := "rsa.structure.full"
		if strings.Contains(line, "form=n-e-d-only") {
			cls = "rsa.structure.n-e-d-only"
		}
		sec.Case(cls != "rsa.structure.full", vk.FP(line), cls)
		sec.Sample(func() any { return gover + ": " + line })
	}
	if n == 0 {
		t.Fatalf("C03 harness error: the case program printed no cases:\n%s", clipStr(out.String(), 1000))
	}
	sec.SetExhaustive()
}

func clipStr(s string, n int) string {
	if len(s) > n {
		return s[:n] + "..."
	}
	return s
}
