package refcrypto

import (
	"bytes"
	"crypto/sha256"
	"encoding/hex"
	"testing"
)

func unhex(t *testing.T, s string) []byte {
	t.Helper()
	b, err := hex.DecodeString(s)
	if err != nil {
		t.Fatal(err)
	}
	return b
}

// RFC 3394 §4.1 - §4.6.
func TestKeyWrapRFC3394Vectors(t *testing.T) {
	const data = "00112233445566778899AABBCCDDEEFF000102030405060708090A0B0C0D0E0F"
	const kek = "000102030405060708090A0B0C0D0E0F101112131415161718191A1B1C1D1E1F"
	for _, v := range []struct {
		name      string
		kek, data int
		out       string
	}{
		{"4.1", 16, 16, "1FA68B0A8112B447AEF34BD8FB5A7B829D3E862371D2CFE5"},
		{"4.2", 24, 16, "96778B25AE6CA435F92B5B97C050AED2468AB8A17AD84E5D"},
		{"4.3", 32, 16, "64E8C3F9CE0F5BA263E9777905818A2A93C8191E7D6E8AE7"},
		{"4.4", 24, 24, "031D33264E15D33268F24EC260743EDCE1C6C7DDEE725A936BA814915C6762D2"},
		{"4.5", 32, 24, "A8F9BC1612C68B3FF6E6F4FBE30E71E4769C8B80A32CB8958CD5D17D6B254DA1"},
		{"4.6", 32, 32, "28C9F404C4B810F4CBCCB35CFB87F8263F5786E2D80ED326CBC7F0E71A99F43BFB988B9B7A02DD21"},
	} {
		k, d, want := unhex(t, kek)[:v.kek], unhex(t, data)[:v.data], unhex(t, v.out)
		got, err := KeyWrap(k, d)
		if err != nil || !bytes.Equal(got, want) {
			t.Fatalf("RFC 3394 %s: wrap = %X, %v; want %X", v.name, got, err, want)
		}
		back, err := KeyUnwrap(k, want)
		if err != nil || !bytes.Equal(back, d) {
			t.Fatalf("RFC 3394 %s: unwrap = %X, %v; want %X", v.name, back, err, d)
		}
		for i := range want {
			m := append([]byte{}, want...)
			m[i] ^= 0x01
			if _, err := KeyUnwrap(k, m); err == nil {
				t.Fatalf("RFC 3394 %s: mutated byte %d accepted", v.name, i)
			}
		}
		for _, n := range []int{0, 1, 7, 8, 15, 16, 17, 23, len(want) - 1, len(want) + 1, len(want) + 7} {
			in := append(append([]byte{}, want...), make([]byte, 8)...)[:n]
			if _, err := KeyUnwrap(k, in); err == nil && n != len(want) {
				t.Fatalf("RFC 3394 %s: input of %d bytes accepted", v.name, n)
			}
		}
	}
	if _, err := KeyWrap(unhex(t, kek)[:16], make([]byte, 8)); err == nil {
		t.Fatal("n = 1 accepted")
	}
	if _, err := KeyWrap(unhex(t, kek)[:16], nil); err == nil {
		t.Fatal("n = 0 accepted")
	}
}

// RFC 7518 appendix B.1 - B.3 and draft-mcgrew-aead-aes-cbc-hmac-sha2-05 §5.3.
func TestCBCHMACVectors(t *testing.T) {
	k := unhex(t, "000102030405060708090a0b0c0d0e0f101112131415161718191a1b1c1d1e1f202122232425262728292a2b2c2d2e2f303132333435363738393a3b3c3d3e3f")
	p := []byte("A cipher system must not be required to be secret, and it must be able to fall into the hands of the enemy without inconvenience")
	iv := unhex(t, "1af38c2dc2b96ffdd86694092341bc04")
	a := []byte("The second principle of Auguste Kerckhoffs")
	for _, v := range []struct {
		p   CBCHMAC
		out string // E || T
	}{
		{A128CBCHS256, "c80edfa32ddf39d5ef00c0b468834279a2e46a1b8049f792f76bfe54b903a9c9a94ac9b47ad2655c5f10f9aef71427e2fc6f9b3f399a221489f16362c703233609d45ac69864e3321cf82935ac4096c86e133314c54019e8ca7980dfa4b9cf1b384c486f3a54c51078158ee5d79de59fbd34d848b3d69550a67646344427ade54b8851ffb598f7f80074b9473c82e2db652c3fa36b0a7c5b3219fab3a30bc1c4"},
		{A192CBCHS384, "ea65da6b59e61edb419be62d19712ae5d303eeb50052d0dfd6697f77224c8edb000d279bdc14c1072654bd30944230c657bed4ca0c9f4a8466f22b226d1746214bf8cfc2400add9f5126e479663fc90b3bed787a2f0ffcbf3904be2a641d5c2105bfe591bae23b1d7449e532eef60a9ac8bb6c6b01d35d49787bcd57ef484927f280adc91ac0c4e79c7b11efc60054e38490ac0e58949bfe51875d733f93ac2075168039ccc733d7"},
		{A256CBCHS384x, "893129b0f4ee9eb18d75eda6f2aaa9f3607c98c4ba0444d34162170d8961884e58f27d4a35a5e3e3234aa99404f327f5c2d78e986e5749858b88bcddc2ba05218f195112d6ad48fa3b1e89aa7f20d596682f10b3648d3bb0c983c3185f59e36d28f647c1c13988de8ea0d821198c150977e28ca768080bc78c35faed69d8c0b7d9f506232198a489a1a6ae03a319fb30dd131d05ab3467dd056f8e882bad70637f1e9a541d9c23e7"},
		{A256CBCHS512, "4affaaadb78c31c5da4b1b590d10ffbd3dd8d5d302423526912da037ecbcc7bd822c301dd67c373bccb584ad3e9279c2e6d12a1374b77f077553df829410446b36ebd97066296ae6427ea75c2e0846a11a09ccf5370dc80bfecbad28c73f09b3a3b75e662a2594410ae496b2e2e6609e31e6e02cc837f053d21f37ff4f51950bbe2638d09dd7a4930930806d0703b1f64dd3b4c088a7f45c216839645b2012bf2e6269a8c56a816dbc1b267761955bc5"},
	} {
		want := unhex(t, v.out)
		key := k[:v.p.KeyLen()]
		e, tag, err := v.p.Seal(key, iv, p, a)
		if err != nil || !bytes.Equal(append(append([]byte{}, e...), tag...), want) {
			t.Fatalf("%s: seal = %x %x, %v", v.p.Name, e, tag, err)
		}
		back, err := v.p.Open(key, iv, e, tag, a)
		if err != nil || !bytes.Equal(back, p) {
			t.Fatalf("%s: open = %q, %v", v.p.Name, back, err)
		}
		for i := range e {
			m := append([]byte{}, e...)
			m[i] ^= 0x80
			if _, err := v.p.Open(key, iv, m, tag, a); err == nil {
				t.Fatalf("%s: mutated ciphertext byte %d accepted", v.p.Name, i)
			}
		}
		if _, err := v.p.Open(key, iv, e, tag, a[1:]); err == nil {
			t.Fatalf("%s: changed associated data accepted", v.p.Name)
		}
	}
}

// PKCS#7: RFC 5652 §6.3 by exhaustive definition check; CBC against NIST SP 800-38A F.2.1.
func TestPadAndCBC(t *testing.T) {
	for block := 1; block <= 255; block++ {
		for n := 0; n <= 2*block+1; n += 1 + block/17 {
			in := bytes.Repeat([]byte{0xEE}, n)
			out := Pad(in, block)
			k := len(out) - n
			if len(out)%block != 0 || k < 1 || k > block || !bytes.Equal(out[:n], in) || !bytes.Equal(out[n:], bytes.Repeat([]byte{byte(k)}, k)) {
				t.Fatalf("pad(%d,%d) = %x", n, block, out)
			}
			back, err := Unpad(out, block)
			if err != nil || !bytes.Equal(back, in) {
				t.Fatalf("unpad(pad(%d,%d)) = %x, %v", n, block, back, err)
			}
		}
	}
	for _, bad := range [][]byte{{}, make([]byte, 16), bytes.Repeat([]byte{17}, 32), append(bytes.Repeat([]byte{3}, 14), 2, 3), make([]byte, 15)} {
		if _, err := Unpad(bad, 16); err == nil {
			t.Fatalf("unpad accepted %x", bad)
		}
	}
	key := unhex(t, "2b7e151628aed2a6abf7158809cf4f3c")
	iv := unhex(t, "000102030405060708090a0b0c0d0e0f")
	pt := unhex(t, "6bc1bee22e409f96e93d7e117393172aae2d8a571e03ac9c9eb76fac45af8e51")
	want := unhex(t, "7649abac8119b246cee98e9b12e9197d")
	ct, err := CBCEncrypt(key, iv, pt)
	if err != nil {
		t.Fatal(err)
	}
	if !bytes.Equal(ct[:16], want) {
		t.Fatalf("SP 800-38A F.2.1 block 1 = %x", ct[:16])
	}
	back, err := CBCDecrypt(key, iv, ct)
	if err != nil || !bytes.Equal(back, pt) {
		t.Fatalf("cbc round trip: %x %v", back, err)
	}
}

// The table agrees with itself and every family round-trips through the peers.
func TestSpecsRoundTrip(t *testing.T) {
	if len(SymSpecs) != 19 || len(RSAEncSpecs) != 5 || len(SigSpecs) != 10 {
		t.Fatal("algorithm tables incomplete")
	}
	for _, s := range SymSpecs {
		key := bytes.Repeat([]byte{7}, s.Key)
		nonce := bytes.Repeat([]byte{9}, max(s.Nonce, 0))
		for _, n := range []int{0, 16, 32, 48} {
			if !s.PlaintextOK(n) {
				continue
			}
			pt := bytes.Repeat([]byte{0x42}, n)
			ct, tag, err := s.Encrypt(key, nonce, pt, []byte("aad"))
			if err != nil {
				t.Fatalf("%s: %v", s.Name, err)
			}
			back, err := s.Decrypt(key, nonce, ct, tag, []byte("aad"))
			if err != nil || !bytes.Equal(back, pt) {
				t.Fatalf("%s: round trip %x %v", s.Name, back, err)
			}
			if s.AAD {
				if _, err := s.Decrypt(key, nonce, ct, tag, []byte("aae")); err == nil {
					t.Fatalf("%s: wrong aad accepted", s.Name)
				}
			}
		}
	}
	ks := Keys()
	for _, s := range RSAEncSpecs {
		ct, err := s.Encrypt(&ks.RSA2048.PublicKey, []byte("hello"), []byte("l"))
		if err != nil {
			t.Fatal(err)
		}
		pt, err := s.Decrypt(ks.RSA2048, ct, []byte("l"))
		if err != nil || string(pt) != "hello" {
			t.Fatalf("%s: %q %v", s.Name, pt, err)
		}
	}
	for _, s := range SigSpecs {
		var priv, pub any
		switch {
		case s.Family == "rs" || s.Family == "ps":
			priv, pub = ks.RSA2048, &ks.RSA2048.PublicKey
		case s.Name == "ES256":
			priv, pub = ks.P256, &ks.P256.PublicKey
		case s.Name == "ES384":
			priv, pub = ks.P384, &ks.P384.PublicKey
		case s.Name == "ES512":
			priv, pub = ks.P521, &ks.P521.PublicKey
		default:
			priv, pub = ks.Ed, ks.Ed.Public()
		}
		if !s.KeyOK(priv) || !s.KeyOK(pub) {
			t.Fatalf("%s: KeyOK", s.Name)
		}
		d := sha256.Sum256([]byte("x"))
		digest := bytes.Repeat(d[:], 2)[:max(s.DigestLen(), 5)]
		sig, err := s.Sign(priv, digest)
		if err != nil || !s.Verify(pub, digest, sig) {
			t.Fatalf("%s: sign/verify %v", s.Name, err)
		}
		digest[0] ^= 1
		if s.Verify(pub, digest, sig) {
			t.Fatalf("%s: changed digest accepted", s.Name)
		}
	}
}
