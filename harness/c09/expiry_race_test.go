package c09

import (
	"context"
	"fmt"
	"sync"
	"sync/atomic"
	"testing"
	"testing/synctest"
	"time"

	"github.com/dapr/kit/events/ratelimiting"
	clocktesting "k8s.io/utils/clock/testing"

	"verifharness/vk"
)

// The window expires and an Add arrives at the same instant, without quiescence in between: the run loop finds both
// its timer channel and its input channel ready and takes either first. Whichever it takes, "no Add is lost": once the
// clock has been stepped well beyond MaxDelay (twice, settled), the number of signals received after the racing Add
// was issued is at least one. Many rounds on one limiter, so both orders occur.
func TestCoalescingExpiryRacesAdd(t *testing.T) {
	sec := vk.Sec("CoalescingExpiryRacesAdd")
	for _, cp := range []int{0, 3} {
		for _, at := range []string{"end", "end+1ns", "end-1ns"} {
			name := fmt.Sprintf("coalescing.expiry-races-add{cap=%d step-to=%s rounds=%d}", cp, at, vk.Pick(1500, 12000))
			var errs vk.Errs
			berr := vk.Bubble(t, name, func() {
				init, max := 10*time.Millisecond, 40*time.Millisecond
				opts := ratelimiting.OptionsCoalescing{InitialDelay: &init, MaxDelay: &max}
				if cp > 0 {
					c := cp
					opts.MaxPendingEvents = &c
				}
				rl, err := ratelimiting.NewCoalescing(opts)
				if err != nil {
					errs.Failf("NewCoalescing: %v", err)
					return
				}
				fake := clocktesting.NewFakeClock(time.Date(2024, 1, 1, 0, 0, 0, 0, time.UTC))
				rl.(ratelimiting.RateLimiterWithTicker).WithTicker(fake)
				ch := make(chan struct{})
				ctx, cancel := context.WithCancel(context.Background())
				defer cancel()
				var got atomic.Int64
				stop := make(chan struct{})
				var wg sync.WaitGroup
				wg.Add(2)
				go func() { defer wg.Done(); _ = rl.Run(ctx, ch) }()
				go func() {
					defer wg.Done()
					for {
						select {
						case <-ch:
							got.Add(1)
						case <-stop:
							return
						}
					}
				}()
				synctest.Wait()
				for round := 0; round < vk.Pick(1500, 12000) && errs.Err() == nil; round++ {
					rl.Add() // idle: signalled at once, window of InitialDelay opens
					synctest.Wait()
					d := init
					switch at {
					case "end+1ns":
						d++
					case "end-1ns":
						d--
					}
					before := got.Load()
					// the window's timer fires (or is one nanosecond from firing) and 1-3 Adds arrive, all released by one
					// gate from goroutines of their own: nothing is settled in between, the run loop may see them in any order
					gate := make(chan struct{})
					var rw sync.WaitGroup
					rw.Add(1)
					go func() { defer rw.Done(); <-gate; fake.Step(d) }()
					for k := 0; k < 1+round%3; k++ {
						rw.Add(1)
						go func() { defer rw.Done(); <-gate; rl.Add() }()
					}
					synctest.Wait()
					close(gate)
					rw.Wait()
					synctest.Wait()
					for k := 0; k < 2; k++ {
						fake.Step(max + time.Millisecond)
						synctest.Wait()
					}
					if got.Load() == before {
						errs.Failf("round %d: an Add issued at the instant the window's timer fired (clock stepped by %v, no quiescence in between) was never followed by a signal although the clock then went %v past it, settled", round, d, 2*(max+time.Millisecond))
					}
				}
				close(stop)
				cancel()
				rl.Close()
				wg.Wait()
			})
			if e := errs.Err(); e != nil {
				t.Fatalf("C09 coalescing rate limiter violated: %v\ncase: %s", e, name)
			}
			if berr != nil {
				t.Fatalf("C09 coalescing rate limiter violated: %v\ncase: %s", berr, name)
			}
			sec.Case(true, vk.FP(name), "expiry-races-add."+at)
			sec.Sample(func() any { return name })
		}
	}
}
