package c08

import (
	"fmt"
	"sync"
	"sync/atomic"
	"testing"

	"github.com/dapr/kit/logger"
	"pgregory.net/rapid"

	"verifharness/vk"
)

// The logger registry is package-level state used by two kinds of callers at once: code that creates loggers
// (NewLogger, any goroutine, any time) and the one place that configures all of them (ApplyOptionsToLoggers). Both are
// documented entry points; running them together must be free of data races (race build), must not crash the process
// (a Go map written while it is iterated is a fatal error), and afterwards every logger that was registered before the
// last Apply call carries the level that call applied. Concurrent first look-ups of one name yield one logger.
type regCase struct {
	Creators, PerCreator, Appliers, SameName int
}

func (c regCase) String() string { return fmt.Sprintf("logger.registry%+v", regPlain(c)) }

type regPlain regCase

var regSerial atomic.Int64

func runRegistry(c regCase) error {
	run := regSerial.Add(1)
	var wg sync.WaitGroup
	var done atomic.Bool
	created := make([][]logger.Logger, c.Creators)
	shared := make([][]logger.Logger, c.Creators)
	start := make(chan struct{})
	for g := 0; g < c.Creators; g++ {
		wg.Add(1)
		go func() {
			defer wg.Done()
			<-start
			for i := 0; i < c.PerCreator; i++ {
				// (the new logger is not configured or used here: a logger's own setters are not claimed to be safe
				// against the configuration call touching the same object; the shared state in question is the registry)
				l := logger.NewLogger(fmt.Sprintf("c08.reg.%d.%d.%d", run, g, i))
				created[g] = append(created[g], l)
				if i < c.SameName {
					// the same new name asked for by every creator at about the same time
					shared[g] = append(shared[g], logger.NewLogger(fmt.Sprintf("c08.reg.%d.shared.%d", run, i)))
				}
			}
		}()
	}
	var awg sync.WaitGroup
	for a := 0; a < c.Appliers; a++ {
		awg.Add(1)
		go func() {
			defer awg.Done()
			<-start
			for n := 0; !done.Load(); n++ {
				o := logger.DefaultOptions()
				o.OutputLevel = []string{"debug", "info", "warn"}[(n+a)%3]
				o.JSONFormatEnabled = n%2 == 0
				if err := logger.ApplyOptionsToLoggers(&o); err != nil {
					panic(err)
				}
			}
		}()
	}
	close(start)
	wg.Wait()
	done.Store(true)
	awg.Wait()
	for i := 0; i < c.SameName; i++ {
		for g := 1; g < c.Creators; g++ {
			if shared[g][i] != shared[0][i] {
				return fmt.Errorf("concurrent first look-ups of the name c08.reg.%d.shared.%d returned different loggers", run, i)
			}
		}
	}
	o := logger.DefaultOptions()
	o.OutputLevel = "error"
	if err := logger.ApplyOptionsToLoggers(&o); err != nil {
		return err
	}
	check := func(l logger.Logger, what string) error {
		if l.IsOutputLevelEnabled(logger.WarnLevel) || !l.IsOutputLevelEnabled(logger.ErrorLevel) {
			return fmt.Errorf("%s was registered before ApplyOptionsToLoggers(level=error) but does not carry that level", what)
		}
		return nil
	}
	for g := range created {
		for i, l := range created[g] {
			if err := check(l, fmt.Sprintf("logger c08.reg.%d.%d.%d", run, g, i)); err != nil {
				return err
			}
		}
		for i, l := range shared[g] {
			if err := check(l, fmt.Sprintf("the logger creator %d got for c08.reg.%d.shared.%d", g, run, i)); err != nil {
				return err
			}
		}
	}
	// leave the registry's loggers quiet for whatever runs next in this process
	o.OutputLevel = "info"
	return logger.ApplyOptionsToLoggers(&o)
}

func TestLoggerRegistry(t *testing.T) {
	sec := vk.Sec("LoggerRegistry")
	vk.Check(t, 10, 400, func(rt *rapid.T) {
		c := regCase{Creators: rapid.IntRange(2, 8).Draw(rt, "creators"), PerCreator: rapid.SampledFrom([]int{10, 40, 100}).Draw(rt, "perCreator"), Appliers: 1}
		c.SameName = rapid.IntRange(0, min(c.PerCreator, 40)).Draw(rt, "sameName")
		var err error
		vk.Guard("C08 logger registry: "+c.String(), func() { err = runRegistry(c) })
		if err != nil {
			rt.Fatalf("C08 interference through the logger registry violated: %v\ncase: %s", err, c)
		}
		sec.Case(true, vk.FP(c.String()), "logger-registry.create||apply")
		sec.Sample(func() any { return c.String() })
	})
}
