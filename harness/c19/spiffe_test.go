package c19

import (
	"context"
	"crypto/ecdsa"
	"crypto/elliptic"
	"crypto/rand"
	"crypto/x509"
	"crypto/x509/pkix"
	"encoding/pem"
	"errors"
	"fmt"
	"io"
	"math/big"
	"net"
	"net/url"
	"os"
	"path/filepath"
	"strings"
	"sync"
	"testing"
	"time"

	"github.com/dapr/kit/crypto/spiffe"
	"github.com/dapr/kit/logger"
	"github.com/spiffe/go-spiffe/v2/bundle/x509bundle"
	"github.com/spiffe/go-spiffe/v2/spiffeid"
	"github.com/spiffe/go-spiffe/v2/svid/x509svid"
	"pgregory.net/rapid"

	"verifharness/vk"
)

// ---- a small CA (one per process)
var (
	caOnce sync.Once
	caKey  *ecdsa.PrivateKey
	caCert *x509.Certificate
	qlog   logger.Logger
	// keys of the intermediate CAs of chain answers (the certificates are made per answer, with the scripted windows)
	intKeys [2]*ecdsa.PrivateKey
)

func ca() {
	caOnce.Do(func() {
		var err error
		caKey, err = ecdsa.GenerateKey(elliptic.P256(), rand.Reader)
		if err != nil {
			panic(err)
		}
		tmpl := &x509.Certificate{SerialNumber: big.NewInt(1), Subject: pkix.Name{CommonName: "verif-ca"}, NotBefore: time.Unix(0, 0), NotAfter: time.Date(2200, 1, 1, 0, 0, 0, 0, time.UTC),
			IsCA: true, KeyUsage: x509.KeyUsageCertSign, BasicConstraintsValid: true}
		der, err := x509.CreateCertificate(rand.Reader, tmpl, tmpl, &caKey.PublicKey, caKey)
		if err != nil {
			panic(err)
		}
		caCert, _ = x509.ParseCertificate(der)
		for i := range intKeys {
			if intKeys[i], err = ecdsa.GenerateKey(elliptic.P256(), rand.Reader); err != nil {
				panic(err)
			}
		}
		qlog = logger.NewLogger("verif-c19")
		qlog.SetOutput(io.Discard)
	})
}

type response struct {
	Fail      bool
	Err       string        // which error VALUE a failing request returns (Fail, and the trust-anchor source for anchors-fail): see errKinds
	Bad       string        // the issuer answers, but with something the client must refuse: empty | noid | badid | twoids | anchors-fail (the trust-anchor source fails for this fetch; only consulted with an identity directory)
	NotBefore time.Duration // offset of NotBefore from the instant of the request (may be negative)
	Validity  time.Duration
	// Chain: the issuer answers with a real chain - the leaf followed by these intermediate CA certificates (the first one
	// signed the leaf, each next one signed the one before it, the last one is signed by the root). Their validity windows
	// are given relative to the leaf's and differ from it.
	Chain []chainLink
}

// chainLink is the validity window of one intermediate certificate relative to the leaf it comes with:
// NotBefore = leaf.NotBefore + StartOff, NotAfter = leaf.NotAfter + EndOff.
type chainLink struct{ StartOff, EndOff time.Duration }

func (l chainLink) String() string { return fmt.Sprintf("ca(start%+v,end%+v)", l.StartOff, l.EndOff) }

func (r response) String() string {
	if r.Fail {
		return "fail(" + r.errKind() + ")"
	}
	if r.Bad == "anchors-fail" {
		return "bad(anchors-fail:" + r.errKind() + ")"
	}
	if r.Bad != "" {
		return "bad(" + r.Bad + ")"
	}
	if len(r.Chain) > 0 {
		return fmt.Sprintf("cert(nb%+v,valid=%v,chain=%v)", r.NotBefore, r.Validity, r.Chain)
	}
	return fmt.Sprintf("cert(nb%+v,valid=%v)", r.NotBefore, r.Validity)
}

func (r response) errKind() string {
	if r.Err == "" {
		return "new"
	}
	return r.Err
}

// errKinds is the menu of error VALUES a failing issuer request (or trust-anchor read) returns. A failed fetch is a
// failed fetch whatever its error looks like: in particular one that "is" context.Canceled / context.DeadlineExceeded
// (the requester's own per-request timeout, an HTTP client's *url.Error, a joined error, an error type with an Is
// method) says nothing about the context that was given to Run.
var errKinds = []string{"new", "ctx-deadline", "ctx-canceled", "wrapped-ctx-deadline", "wrapped-ctx-canceled", "request-timeout", "request-canceled",
	"request-cause", "url-error-deadline", "url-error-canceled", "joined-canceled", "custom-is-ctx", "custom-unwrap-ctx", "custom-timeout", "eof", "unexpected-eof",
	"os-deadline", "net-timeout", "net-closed"}

// isCtxErr is an error of a caller's own type that claims to be both context errors and a timeout.
type isCtxErr struct{}

func (isCtxErr) Error() string {
	return "verif: issuer unavailable (own error type, Is(context.Canceled|DeadlineExceeded))"
}
func (isCtxErr) Is(t error) bool {
	return t == context.Canceled || t == context.DeadlineExceeded
}
func (isCtxErr) Timeout() bool   { return true }
func (isCtxErr) Temporary() bool { return true }

// multiErr unwraps to several errors, a context error among them.
type multiErr struct{ errs []error }

func (m multiErr) Error() string   { return fmt.Sprintf("verif: issuer failed: %v", m.errs) }
func (m multiErr) Unwrap() []error { return m.errs }

// timeoutErr is a plain timeout of a caller's own type (net.Error) that is no context error.
type timeoutErr struct{}

func (timeoutErr) Error() string   { return "verif: i/o timeout talking to the issuer" }
func (timeoutErr) Timeout() bool   { return true }
func (timeoutErr) Temporary() bool { return true }

// scriptedErr makes the error value of kind for a request that was made with ctx.
func scriptedErr(ctx context.Context, kind string) error {
	switch kind {
	case "ctx-deadline":
		return context.DeadlineExceeded
	case "ctx-canceled":
		return context.Canceled
	case "wrapped-ctx-deadline":
		return fmt.Errorf("verif: sign request to issuer failed: %w", context.DeadlineExceeded)
	case "wrapped-ctx-canceled":
		return fmt.Errorf("verif: sign request to issuer failed: %w", context.Canceled)
	case "request-timeout": // the requester's own per-request deadline (already elapsed: no time passes)
		rctx, cancel := context.WithDeadline(ctx, time.Unix(0, 0))
		defer cancel()
		<-rctx.Done()
		return fmt.Errorf("verif: sign request to issuer failed: %w", rctx.Err())
	case "request-canceled": // the requester gave up on its own request
		rctx, cancel := context.WithCancel(ctx)
		cancel()
		<-rctx.Done()
		return fmt.Errorf("verif: sign request to issuer abandoned: %w", rctx.Err())
	case "request-cause":
		rctx, cancel := context.WithCancelCause(ctx)
		cancel(errors.New("verif: issuer connection reset"))
		<-rctx.Done()
		return fmt.Errorf("verif: %w (%w)", context.Cause(rctx), rctx.Err())
	case "url-error-deadline": // what net/http's client returns for its own Timeout
		return &url.Error{Op: "Post", URL: "https://issuer.example.org/sign", Err: context.DeadlineExceeded}
	case "url-error-canceled":
		return &url.Error{Op: "Post", URL: "https://issuer.example.org/sign", Err: context.Canceled}
	case "joined-canceled":
		return errors.Join(errors.New("verif: issuer a refused"), context.Canceled, io.EOF)
	case "custom-is-ctx":
		return isCtxErr{}
	case "custom-unwrap-ctx":
		return multiErr{[]error{io.ErrUnexpectedEOF, context.DeadlineExceeded}}
	case "custom-timeout":
		return timeoutErr{}
	case "eof":
		return io.EOF
	case "unexpected-eof":
		return io.ErrUnexpectedEOF
	case "os-deadline":
		return os.ErrDeadlineExceeded
	case "net-timeout":
		return &net.OpError{Op: "read", Net: "tcp", Err: os.ErrDeadlineExceeded}
	case "net-closed":
		return &net.OpError{Op: "write", Net: "tcp", Err: net.ErrClosed}
	}
	return errors.New("verif: scripted issuer failure")
}

// ctxFlavoured tells whether an error of that kind satisfies errors.Is(err, context.Canceled|DeadlineExceeded).
func ctxFlavoured(kind string) bool {
	e := scriptedErr(context.Background(), kind)
	return errors.Is(e, context.Canceled) || errors.Is(e, context.DeadlineExceeded)
}

type request struct {
	at      time.Time
	pub     *ecdsa.PublicKey
	ok      bool
	serial  int64
	nb, na  time.Time
	anchors string
	chain   []*x509.Certificate // the answer as issued (leaf first)
	// answered: the issuer has given its answer to this request (set at the instant its function returns). Until then the
	// fetch this request belongs to cannot have finished.
	answered bool
}

type issuer struct {
	src     x509svid.Source // if set, renewal requests consult the SVID source (as a real issuer client does for mTLS)
	srcErrs []string
	mu      sync.Mutex
	script  []response
	reqs    []request
	gate    chan struct{} // if non-nil the first request blocks on it
	serial  int64
	dirMode bool // an identity directory is configured (so the trust anchors are fetched with every certificate)
	hammer  int  // consumers started from inside each renewal request
	honours bool // the issuer honours the context of the request: it stops waiting when that context ends and a request made with a context that is done fails with that context's error
	hwg     sync.WaitGroup
}

func (is *issuer) fn(ctx context.Context, csrDER []byte) ([]*x509.Certificate, error) {
	csr, err := x509.ParseCertificateRequest(csrDER)
	if err != nil {
		return nil, err
	}
	pub, _ := csr.PublicKey.(*ecdsa.PublicKey)
	is.mu.Lock()
	idx := len(is.reqs)
	is.reqs = append(is.reqs, request{at: time.Now(), pub: pub})
	is.mu.Unlock()
	chain, err := is.answer(ctx, idx, pub)
	is.mu.Lock()
	is.reqs[idx].answered = true
	is.mu.Unlock()
	return chain, err
}

// inFlight tells whether the issuer has been asked for the initial certificate and has not answered yet.
func (is *issuer) inFlight() bool {
	is.mu.Lock()
	defer is.mu.Unlock()
	return len(is.reqs) > 0 && !is.reqs[0].answered
}

func (is *issuer) answer(ctx context.Context, idx int, pub *ecdsa.PublicKey) ([]*x509.Certificate, error) {
	is.mu.Lock()
	gate := is.gate
	is.mu.Unlock()
	if idx == 0 && gate != nil {
		if is.honours {
			select {
			case <-gate:
			case <-ctx.Done():
			}
		} else {
			<-gate
		}
	}
	if is.honours && ctx.Err() != nil {
		return nil, fmt.Errorf("verif: sign request to issuer failed: %w", ctx.Err())
	}
	if idx > 0 && is.src != nil && is.hammer > 0 {
		for r := 0; r < is.hammer; r++ {
			is.hwg.Add(1)
			go func() {
				defer is.hwg.Done()
				for k := 0; k < 1000; k++ { // long enough to be still running when the renewal takes the write lock
					if sv, err := is.src.GetX509SVID(); err != nil || sv == nil {
						is.mu.Lock()
						is.srcErrs = append(is.srcErrs, fmt.Sprintf("a consumer busy during renewal request %d got (%v, %v) from GetX509SVID", idx, sv, err))
						is.mu.Unlock()
						return
					}
				}
			}()
		}
	}
	if idx > 0 && is.src != nil {
		// A renewal request is made with the identity currently served: the source must answer while it is in flight.
		sv, err := is.src.GetX509SVID()
		if err != nil || sv == nil {
			is.mu.Lock()
			is.srcErrs = append(is.srcErrs, fmt.Sprintf("request %d: GetX509SVID during the renewal request returned (%v, %v)", idx, sv, err))
			is.mu.Unlock()
		}
	}
	resp := response{Validity: 10 * 365 * 24 * time.Hour}
	if idx < len(is.script) {
		resp = is.script[idx]
	}
	if resp.Fail {
		return nil, scriptedErr(ctx, resp.Err)
	}
	if resp.Bad == "empty" {
		return []*x509.Certificate{}, nil
	}
	now := time.Now()
	is.mu.Lock()
	is.serial++
	serial := is.serial
	is.mu.Unlock()
	id, _ := url.Parse("spiffe://example.org/ns/verif/app")
	uris := []*url.URL{id}
	switch resp.Bad {
	case "noid":
		uris = nil
	case "badid":
		u, _ := url.Parse("https://example.org/ns/verif/app")
		uris = []*url.URL{u}
	case "twoids":
		u, _ := url.Parse("spiffe://example.org/ns/verif/other")
		uris = []*url.URL{id, u}
	}
	if resp.Validity == 0 {
		resp.Validity = time.Hour
	}
	tmpl := &x509.Certificate{SerialNumber: big.NewInt(serial), NotBefore: now.Add(resp.NotBefore), NotAfter: now.Add(resp.NotBefore + resp.Validity), URIs: uris,
		KeyUsage: x509.KeyUsageDigitalSignature}
	// the intermediates, from the one under the root down to the one that signs the leaf
	if len(resp.Chain) > len(intKeys) {
		return nil, fmt.Errorf("harness: chain of %d intermediates", len(resp.Chain))
	}
	parent, parentKey := caCert, caKey
	var inters []*x509.Certificate
	for k := len(resp.Chain) - 1; k >= 0; k-- {
		l := resp.Chain[k]
		it := &x509.Certificate{SerialNumber: big.NewInt(1<<40 + serial*8 + int64(k)), Subject: pkix.Name{CommonName: fmt.Sprintf("verif-intermediate-%d", k)},
			NotBefore: tmpl.NotBefore.Add(l.StartOff), NotAfter: tmpl.NotAfter.Add(l.EndOff),
			IsCA: true, KeyUsage: x509.KeyUsageCertSign, BasicConstraintsValid: true}
		ider, err := x509.CreateCertificate(rand.Reader, it, parent, &intKeys[k].PublicKey, parentKey)
		if err != nil {
			return nil, err
		}
		ic, err := x509.ParseCertificate(ider)
		if err != nil {
			return nil, err
		}
		inters = append([]*x509.Certificate{ic}, inters...)
		parent, parentKey = ic, intKeys[k]
	}
	der, err := x509.CreateCertificate(rand.Reader, tmpl, parent, pub, parentKey)
	if err != nil {
		return nil, err
	}
	leaf, err := x509.ParseCertificate(der)
	if err != nil {
		return nil, err
	}
	chain := append([]*x509.Certificate{leaf}, inters...)
	accepted := resp.Bad == "" || (resp.Bad == "anchors-fail" && !is.dirMode)
	is.mu.Lock()
	is.reqs[idx].ok, is.reqs[idx].serial, is.reqs[idx].nb, is.reqs[idx].na = accepted, serial, leaf.NotBefore, leaf.NotAfter
	is.reqs[idx].chain = append([]*x509.Certificate(nil), chain...)
	is.mu.Unlock()
	return chain, nil
}

func (is *issuer) snapshot() []request {
	is.mu.Lock()
	defer is.mu.Unlock()
	return append([]request(nil), is.reqs...)
}

// anchors is a scripted trust-anchor source: the bundle text changes with every fetch.
type anchors struct{ is *issuer }

func (a anchors) GetX509BundleForTrustDomain(spiffeid.TrustDomain) (*x509bundle.Bundle, error) {
	return nil, errors.New("not used")
}
func (a anchors) CurrentTrustAnchors(ctx context.Context) ([]byte, error) {
	a.is.mu.Lock()
	defer a.is.mu.Unlock()
	if i := len(a.is.reqs) - 1; i < len(a.is.script) && a.is.script[i].Bad == "anchors-fail" {
		if a.is.script[i].Err == "" {
			return nil, errors.New("verif: scripted trust-anchor failure")
		}
		return nil, scriptedErr(ctx, a.is.script[i].Err)
	}
	v := fmt.Sprintf("trust-anchors-for-request-%d\n", len(a.is.reqs)-1)
	a.is.reqs[len(a.is.reqs)-1].anchors = v
	return []byte(v), nil
}
func (a anchors) Watch(context.Context, chan<- []byte) {}
func (a anchors) Run(context.Context) error            { return nil }

// settleStacks is vk.SettleStacks with patience: a goroutine of the case that sits in a raw system call (the identity
// directory's symlink / rename / remove on a busy file system) is "running" for as long as the kernel takes, which on a
// loaded machine has been seen to outlast one full round of snapshots. Not settling is only reported after three rounds.
func settleStacks() (p vk.Parked, err error) {
	for round := 0; round < 3; round++ {
		if p, err = vk.SettleStacks(); err == nil {
			return p, nil
		}
	}
	return p, err
}

// ---------------------------------------------------------------- (A) readiness

type readyCase struct {
	// Order: permutation of run, ready, get, get2 and - further calls of Run on the same object while the first one is at
	// work, which are refused - run2, run3 (the Run calls are named by their position: the first one issued is "run").
	Order     []string
	InitialOK bool
	Gate      bool // the initial fetch blocks until every call has been issued
	// RunCtx: the state of the context Run is called with. "" = live until the end of the case; "cancelled" = cancelled
	// before Run is called; "expired" = its deadline has passed before Run is called; "relay-cancelled" = a context of
	// the caller's own type whose parent was cancelled before Run is called; "cancelled-in-fetch" = cancelled while the
	// initial fetch is held at the gate (Gate only).
	RunCtx  string
	Honours bool   // the issuer honours the request's context (see issuer.honours)
	ErrKind string // error value of the failing initial fetch (errKinds)
}

func (c readyCase) String() string {
	rc := c.RunCtx
	if rc == "" {
		rc = "live"
	}
	ek := ""
	if !c.InitialOK {
		ek = " initialError=" + response{Err: c.ErrKind}.errKind()
	}
	return fmt.Sprintf("spiffe.ready{order=%v initialOK=%v%s gateInitialFetch=%v runContext=%s issuerHonoursContext=%v}", c.Order, c.InitialOK, ek, c.Gate, rc, c.Honours)
}

// readyOutcome says what a readiness case reached.
type readyOutcome struct {
	parkedBeforeRun   bool // a consumer was issued before Run
	extraRunInFlight  bool // a further Run was issued (and refused) while the issuer had been asked for the initial certificate and had not answered
	extraRunObserved  bool // ... and a Ready / GetX509SVID call was waiting at that instant or was issued before the issuer answered
	extraRunAfterDone bool // a further Run was issued after the initial fetch had finished
}

func isExtraRun(call string) bool { return call == "run2" || call == "run3" }

// nameRuns renames the Run calls of an order by position: the first is "run" (the one that does the work), the later
// ones "run2", "run3".
func nameRuns(order []string) []string {
	out := append([]string(nil), order...)
	n := 0
	for i, call := range out {
		if call == "run" || isExtraRun(call) {
			out[i] = []string{"run", "run2", "run3"}[n]
			n++
		}
	}
	return out
}

func runReady(t *testing.T, c readyCase) (out readyOutcome, err error) {
	ca()
	vk.KeepDumps = true
	var errs vk.Errs
	berr := vk.Bubble(t, c.String(), func() {
		is := &issuer{honours: c.Honours}
		if !c.InitialOK {
			is.script = []response{{Fail: true, Err: c.ErrKind}}
		}
		if c.Gate {
			is.gate = make(chan struct{})
		}
		s := spiffe.New(spiffe.Options{Log: qlog, RequestSVIDFn: is.fn})
		src := s.SVIDSource()
		settle := func() bool {
			p, e := settleStacks()
			if e != nil {
				errs.Failf("%v\n%s", e, p.Dump)
				return false
			}
			return true
		}
		base, cancel := context.WithCancel(context.Background())
		defer cancel()
		var ctx context.Context = base
		switch c.RunCtx {
		case "cancelled":
			cancel()
		case "expired":
			var stop context.CancelFunc
			ctx, stop = context.WithTimeout(base, time.Second)
			defer stop()
			time.Sleep(2 * time.Second)
		case "relay-cancelled":
			cancel()
			ctx = vk.NewRelayCtx(base, 3)
			if !settle() {
				return
			}
		}
		if c.RunCtx == "cancelled" || c.RunCtx == "expired" || c.RunCtx == "relay-cancelled" {
			if ctx.Err() == nil {
				errs.Failf("harness: the context for Run is not done")
				return
			}
		}
		ctxEnds := c.RunCtx != "" // Run's context is done by the time the case looks at the outcome
		var mu sync.Mutex
		done := map[string]bool{}
		results := map[string]error{}
		var wg sync.WaitGroup
		runIssued := false
		// Nobody gets through before the initial fetch has finished: at a settled point at which no Run has been issued
		// yet, or the issuer has been asked for the initial certificate and has not answered, no Ready / GetX509SVID
		// call has returned - whatever else has been called on the object meanwhile (a further Run that is refused).
		premature := func(when string) bool {
			if runIssued && !is.inFlight() {
				return false
			}
			state := "no Run has been called yet"
			if runIssued {
				state = "the issuer has been asked for the initial certificate and has not answered yet"
			}
			mu.Lock()
			defer mu.Unlock()
			for _, call := range c.Order {
				if done[call] && !isExtraRun(call) && call != "run" {
					what := "Ready"
					if call != "ready" {
						what = "GetX509SVID"
					}
					errs.Failf("%s (call %q) returned (%v) %s although the initial fetch has not finished: %s", what, call, results[call], when, state)
					return true
				}
			}
			return false
		}
		// release lets everything run to its end after a failure found while the initial fetch is held (goroutines parked
		// on the SPIFFE lock cannot be abandoned: the bubble would never end)
		gateOpen := false
		release := func() {
			if c.Gate && !gateOpen {
				gateOpen = true
				close(is.gate)
			}
			cancel()
			settle()
		}
		consumersIssued := 0
		for _, call := range c.Order {
			if (call == "get" || call == "get2" || call == "ready") && !runIssued {
				out.parkedBeforeRun = true
			}
			if isExtraRun(call) {
				if !runIssued {
					errs.Failf("harness: %s before run in %v", call, c.Order)
					return
				}
				if is.inFlight() {
					out.extraRunInFlight = true
					if consumersIssued > 0 {
						out.extraRunObserved = true
					}
				} else {
					out.extraRunAfterDone = true
				}
			} else if call != "run" {
				consumersIssued++
				if out.extraRunInFlight && is.inFlight() {
					out.extraRunObserved = true
				}
			}
			wg.Add(1)
			errs.Go(func() {
				defer wg.Done()
				var e error
				switch call {
				case "run", "run2", "run3":
					e = s.Run(ctx)
				case "ready":
					e = s.Ready(context.Background())
				default:
					var sv any
					sv, e = src.GetX509SVID()
					if e == nil && sv == nil {
						e = errors.New("nil SVID without error")
					}
				}
				mu.Lock()
				done[call], results[call] = true, e
				mu.Unlock()
			})
			if call == "run" {
				runIssued = true
			}
			if !settle() {
				return
			}
			if premature(fmt.Sprintf("after %q was called", call)) {
				release()
				return
			}
			if isExtraRun(call) {
				// a Run call that finds the object already running is refused: it returns an error (and does not wait)
				mu.Lock()
				d, e := done[call], results[call]
				mu.Unlock()
				if !d || e == nil {
					errs.Failf("a further Run call (%q) made while the first one is at work was not refused with an error (returned=%v err=%v)", call, d, e)
					release()
					return
				}
			}
		}
		if c.RunCtx == "cancelled-in-fetch" {
			cancel()
			if !settle() {
				return
			}
			if premature("after Run's context was cancelled") {
				release()
				return
			}
		}
		if c.Gate {
			gateOpen = true
			close(is.gate)
		}
		if !settle() {
			return
		}
		// Once the initial fetch has finished - and all the more once Run has returned, whatever it returned - Ready and
		// GetX509SVID return. (Run itself is expected back only when its context is done.)
		mu.Lock()
		var stuck []string
		for _, call := range c.Order {
			if !done[call] && (call != "run" || ctxEnds) {
				stuck = append(stuck, call)
			}
		}
		runReturned, runResult := done["run"], results["run"]
		mu.Unlock()
		reqs := is.snapshot()
		served := len(reqs) > 0 && reqs[0].ok // the issuer was asked and answered with a certificate
		if len(stuck) > 0 {
			p, _ := vk.SettleStacks()
			msg := fmt.Sprintf("calls %v have not returned at a settled point after the initial fetch was let through (Run returned=%v result=%v; issuer requests=%d; goroutines parked on the SPIFFE lock: %d): they wait for a readiness signal / a lock that nothing is left to give", stuck, runReturned, runResult, len(reqs), p.OnMutex)
			if p.OnMutex > 0 {
				// goroutines parked on a mutex cannot be abandoned (the bubble would never end)
				for i, d := range vk.LastDumps {
					fmt.Println("=== accepted snapshot", i)
					fmt.Println(d)
				}
				vk.Wedged(fmt.Sprintf("C19 SPIFFE violated: %s\ncase: %s", msg, c))
			}
			errs.Failf("%s", msg)
			return // the stuck calls are abandoned; the bubble reports them once more
		}
		mu.Lock()
		for _, call := range c.Order {
			switch call {
			case "ready":
				if results[call] != nil {
					errs.Failf("Ready returned %v", results[call])
				}
			case "get", "get2":
				if served && results[call] != nil {
					errs.Failf("GetX509SVID returned %v although the initial fetch succeeded", results[call])
				}
				if !served && results[call] == nil {
					errs.Failf("GetX509SVID returned an SVID although the initial fetch failed (issuer requests=%d)", len(reqs))
				}
			case "run":
				if ctxEnds {
					break // Run has returned (checked above); what it returns at shutdown is not part of the property
				}
				if !c.InitialOK && (!done[call] || results[call] == nil) {
					errs.Failf("Run did not report the failed initial fetch (returned=%v err=%v)", done[call], results[call])
				}
				if c.InitialOK && done[call] {
					errs.Failf("Run returned (%v) although the initial fetch succeeded and its context is live", results[call])
				}
			}
		}
		mu.Unlock()
		if !ctxEnds && served != c.InitialOK {
			errs.Failf("harness: the initial fetch was scripted initialOK=%v but the issuer recorded %v", c.InitialOK, reqs)
		}
		if e := s.Run(ctx); e == nil {
			errs.Failf("a second Run did not fail")
		}
		cancel()
		if !settle() {
			return
		}
		wg.Wait()
		if served && results["run"] != nil {
			errs.Failf("Run returned %v after its context was cancelled", results["run"])
		}
	})
	if e := errs.Err(); e != nil {
		return out, e
	}
	return out, berr
}

func (o readyOutcome) classes() []string {
	var cls []string
	if o.extraRunInFlight {
		cls = append(cls, "further-Run-refused.while-initial-fetch-in-flight")
	}
	if o.extraRunObserved {
		cls = append(cls, "further-Run-refused.while-initial-fetch-in-flight.with-consumer-waiting-or-arriving")
	}
	if o.extraRunAfterDone {
		cls = append(cls, "further-Run-refused.after-initial-fetch")
	}
	return cls
}

func (c readyCase) classes() []string {
	cls := []string{"readiness"}
	runs := 0
	for _, call := range c.Order {
		if call == "run" || isExtraRun(call) {
			runs++
		}
	}
	if runs > 1 {
		cls = append(cls, fmt.Sprintf("run-calls.%d", runs))
	}
	if c.RunCtx != "" {
		cls = append(cls, "run-context."+c.RunCtx)
		if c.Honours {
			cls = append(cls, "run-context-done.issuer-honours-it")
		} else {
			cls = append(cls, "run-context-done.issuer-ignores-it")
		}
	}
	if !c.InitialOK {
		cls = append(cls, "initial-failure."+response{Err: c.ErrKind}.errKind())
	}
	return cls
}

// runCtxVariants lists (state of Run's context, issuer honours it) for a case with / without the gate. With a live
// context an issuer that honours it and one that does not behave alike.
func runCtxVariants(gate bool) [][2]any {
	v := [][2]any{{"", false}, {"cancelled", false}, {"cancelled", true}, {"expired", false}, {"expired", true}}
	if gate {
		v = append(v, [2]any{"cancelled-in-fetch", false}, [2]any{"cancelled-in-fetch", true})
	}
	return v
}

func permutations(xs []string) [][]string {
	if len(xs) <= 1 {
		return [][]string{append([]string(nil), xs...)}
	}
	var out [][]string
	for i := range xs {
		rest := append(append([]string(nil), xs[:i]...), xs[i+1:]...)
		for _, p := range permutations(rest) {
			out = append(out, append([]string{xs[i]}, p...))
		}
	}
	return out
}

// runOrders lists the distinct orders of a set of calls in which "run" may occur several times (the Run calls are then
// named by position, see nameRuns).
func runOrders(set []string) [][]string {
	var out [][]string
	seen := map[string]bool{}
	for _, p := range permutations(set) {
		o := nameRuns(p)
		if k := strings.Join(o, ","); !seen[k] {
			seen[k] = true
			out = append(out, o)
		}
	}
	return out
}

// TestReadinessOrders enumerates every order of the first calls to Run, Ready and GetX509SVID (twice), with the
// initial fetch succeeding or failing, returning at once or only after all calls were issued, and with Run's context
// live / already cancelled / already expired at the call / cancelled during the fetch, the issuer honouring it or not;
// and every order of those calls with a SECOND call of Run (which is refused) among them.
func TestReadinessOrders(t *testing.T) {
	sec := vk.Sec("ReadinessOrders")
	idx := 0
	one := func(c readyCase) {
		idx++
		if !vk.Mine(idx) {
			return
		}
		out, err := runReady(t, c)
		if err != nil {
			t.Fatalf("C19 SPIFFE violated: %v\ncase: %s", err, c)
		}
		sec.Case(out.parkedBeforeRun || out.extraRunObserved, vk.FP(c.String()), append(c.classes(), out.classes()...)...)
		sec.Sample(func() any { return c.String() })
	}
	for _, set := range [][]string{{"run", "ready", "get"}, {"run", "ready", "get", "get2"}, {"run", "get"}, {"run", "ready"}} {
		for _, order := range permutations(set) {
			for _, ok := range []bool{true, false} {
				for _, gate := range []bool{false, true} {
					for _, rc := range runCtxVariants(gate) {
						one(readyCase{Order: order, InitialOK: ok, Gate: gate, RunCtx: rc[0].(string), Honours: rc[1].(bool)})
					}
				}
			}
		}
	}
	// Two calls of Run: the second one finds the first at work - held in the initial fetch (gate), or past it - and is
	// refused; it must not let anybody through. (Three calls of Run and the other context states: ReadinessContexts.)
	for _, set := range [][]string{{"run", "run", "ready", "get"}, {"run", "run", "ready"}, {"run", "run", "get"}} {
		for _, order := range runOrders(set) {
			for _, ok := range []bool{true, false} {
				one(readyCase{Order: order, InitialOK: ok})
				for _, rc := range [][2]any{{"", false}, {"cancelled", false}, {"cancelled-in-fetch", false}, {"cancelled-in-fetch", true}} {
					one(readyCase{Order: order, InitialOK: ok, Gate: true, RunCtx: rc[0].(string), Honours: rc[1].(bool)})
				}
			}
		}
	}
	sec.SetExhaustive()
}

// TestReadinessContexts draws from the wider space: the same orders, with the error VALUE of a failing initial fetch
// from the menu (errKinds) and Run's context also of a caller's own type.
func TestReadinessContexts(t *testing.T) {
	sec := vk.Sec("ReadinessContexts")
	sets := [][]string{{"run", "ready", "get"}, {"run", "ready", "get", "get2"}, {"run", "get"}, {"run", "ready"},
		{"run", "run", "ready", "get"}, {"run", "run", "ready"}, {"run", "run", "get"}, {"run", "run", "run", "ready", "get"}, {"run", "run", "ready", "get", "get2"}, {"run", "run", "run", "ready"}}
	vk.Check(t, 300, 20000, func(rt *rapid.T) {
		set := sets[rapid.IntRange(0, len(sets)-1).Draw(rt, "set")]
		c := readyCase{Order: nameRuns(rapid.Permutation(set).Draw(rt, "order")), InitialOK: rapid.Bool().Draw(rt, "initialOK"), Gate: rapid.Bool().Draw(rt, "gate")}
		kinds := []string{"", "", "cancelled", "expired", "relay-cancelled"}
		if c.Gate {
			kinds = append(kinds, "cancelled-in-fetch")
		}
		c.RunCtx = rapid.SampledFrom(kinds).Draw(rt, "runContext")
		c.Honours = rapid.Bool().Draw(rt, "issuerHonoursContext")
		if !c.InitialOK {
			c.ErrKind = rapid.SampledFrom(errKinds).Draw(rt, "initialError")
		}
		out, err := runReady(t, c)
		if err != nil {
			rt.Fatalf("C19 SPIFFE violated: %v\ncase: %s", err, c)
		}
		sec.Case(out.parkedBeforeRun || out.extraRunObserved, vk.FP(c.String()), append(c.classes(), out.classes()...)...)
		sec.Sample(func() any { return c.String() })
	})
}

// ---------------------------------------------------------------- (B) renewal

type renewCase struct {
	Script []response
	Steps  []time.Duration
	Dir    bool
	Hammer int // that many goroutines start asking the SVID source (1000 calls each) from inside every renewal request, so that consumers are busy on the source while the renewal completes and the new SVID is installed
}

func (c renewCase) String() string {
	var s []string
	for _, r := range c.Script {
		s = append(s, r.String())
	}
	return fmt.Sprintf("spiffe.renew{script=[%s] steps=%v dir=%v hammer=%d}", strings.Join(s, " "), c.Steps, c.Dir, c.Hammer)
}

type renewOutcome struct{ failures, successes, requests int }

func runRenew(t *testing.T, c renewCase) (out renewOutcome, err error) {
	ca()
	vk.KeepDumps = true
	var errs vk.Errs
	var scratch string
	if c.Dir {
		scratch, _ = os.MkdirTemp("", "verif-c19-")
		defer os.RemoveAll(scratch)
	}
	berr := vk.Bubble(t, c.String(), func() {
		is := &issuer{script: c.Script, dirMode: c.Dir, hammer: c.Hammer}
		opts := spiffe.Options{Log: qlog, RequestSVIDFn: is.fn}
		target := ""
		if c.Dir {
			target = filepath.Join(scratch, "identity")
			opts.WriteIdentityToFile = &target
			opts.TrustAnchors = anchors{is}
		}
		s := spiffe.New(opts)
		src := s.SVIDSource()
		is.src = src
		ctx, cancel := context.WithCancel(context.Background())
		defer cancel()
		var runErr error
		runDone := make(chan struct{})
		errs.Go(func() { runErr = s.Run(ctx); close(runDone) })
		settle := func() bool {
			p, e := settleStacks()
			if e != nil {
				errs.Failf("%v\n%s", e, p.Dump)
				return false
			}
			if p.OnMutex > 0 {
				vk.Wedged(fmt.Sprintf("C19 SPIFFE violated: at a quiescent point %d goroutine(s) are parked on the SPIFFE lock (a renewal request that consults the SVID source, or a consumer, can never proceed): deadlock\ncase: %s", p.OnMutex, c))
			}
			return true
		}
		check := func(step string) bool {
			now := time.Now()
			is.mu.Lock()
			srcErrs := append([]string(nil), is.srcErrs...)
			is.mu.Unlock()
			if len(srcErrs) > 0 {
				errs.Failf("after %s: %s", step, srcErrs[0])
				return false
			}
			reqs := is.snapshot()
			if len(reqs) == 0 {
				errs.Failf("after %s: no certificate was ever requested", step)
				return false
			}
			if !reqs[0].ok {
				// the initial fetch failed: Run has returned an error, nothing is served
				select {
				case <-runDone:
				default:
					errs.Failf("after %s: the initial fetch failed but Run is still running", step)
					return false
				}
				if runErr == nil {
					errs.Failf("after %s: the initial fetch failed but Run returned nil", step)
					return false
				}
				if _, e := src.GetX509SVID(); e == nil {
					errs.Failf("after %s: an SVID is served although the initial fetch failed", step)
					return false
				}
				if len(reqs) != 1 {
					errs.Failf("after %s: %d requests although the initial fetch failed", step, len(reqs))
					return false
				}
				return true
			}
			// the initial fetch succeeded and Run's context is live: the renewal loop is at work, Run has not returned
			select {
			case <-runDone:
				errs.Failf("after %s: Run returned (%v) although the initial fetch succeeded and its context is live (issuer requests so far: %d): nothing renews the SVID any more", step, runErr, len(reqs))
				return false
			default:
			}
			// fresh key per fetch
			for i := range reqs {
				for j := i + 1; j < len(reqs); j++ {
					if reqs[i].pub.Equal(reqs[j].pub) {
						errs.Failf("after %s: requests %d and %d used the same private key", step, i, j)
						return false
					}
				}
			}
			// the SVID served is the most recently fetched one, with the key of that request
			last := -1
			for i, r := range reqs {
				if r.ok {
					last = i
				}
			}
			svid, e := src.GetX509SVID()
			if e != nil {
				errs.Failf("after %s: GetX509SVID failed: %v", step, e)
				return false
			}
			if got := svid.Certificates[0].SerialNumber.Int64(); got != reqs[last].serial {
				dump := ""
				if len(vk.LastDumps) > 0 {
					dump = "\nlast accepted quiescence snapshot:\n" + vk.LastDumps[len(vk.LastDumps)-1]
				}
				errs.Failf("after %s: the served SVID has serial %d, the most recently fetched certificate (request %d) has serial %d%s", step, got, last, reqs[last].serial, dump)
				return false
			}
			if pk, ok := svid.PrivateKey.Public().(*ecdsa.PublicKey); !ok || !pk.Equal(reqs[last].pub) {
				errs.Failf("after %s: the served private key does not belong to the request that produced the served certificate", step)
				return false
			}
			// ... with its certificate chain as issued: the leaf followed by the intermediates, in that order
			if d := chainDiff(svid.Certificates, reqs[last].chain); d != "" {
				errs.Failf("after %s: the served SVID does not carry the certificate chain of the most recent fetch (request %d) as issued: %s", step, last, d)
				return false
			}
			// renewal no later than one minute after half-life; failed renewals retried after 10 s
			cur := reqs[last]
			half := cur.nb.Add(cur.na.Sub(cur.nb) / 2)
			deadline := half
			if cur.at.After(deadline) {
				deadline = cur.at
			}
			deadline = deadline.Add(time.Minute)
			if last == len(reqs)-1 {
				if now.After(deadline) {
					errs.Failf("after %s: the served certificate (request %d at +%v) passed half of its validity at +%v; now is +%v and no renewal has been requested (limit: one minute after half-life)", step, last, cur.at.Sub(reqs[0].at), half.Sub(reqs[0].at), now.Sub(reqs[0].at))
					return false
				}
			} else {
				first := reqs[last+1]
				if first.at.After(deadline) {
					errs.Failf("after %s: the renewal of the certificate from request %d was requested at +%v, more than one minute after its half-life +%v", step, last, first.at.Sub(reqs[0].at), half.Sub(reqs[0].at))
					return false
				}
				for i := last + 1; i < len(reqs); i++ { // all failures
					var next time.Time
					if i+1 < len(reqs) {
						next = reqs[i+1].at
					}
					want := reqs[i].at.Add(10 * time.Second)
					if next.IsZero() {
						if now.After(want) {
							errs.Failf("after %s: the renewal failed at +%v and has not been retried %v later (retry interval 10s)", step, reqs[i].at.Sub(reqs[0].at), now.Sub(reqs[i].at))
							return false
						}
					} else if !next.Equal(want) {
						errs.Failf("after %s: the renewal failed at +%v and was retried %v later, want 10s", step, reqs[i].at.Sub(reqs[0].at), next.Sub(reqs[i].at))
						return false
					}
				}
			}
			// failures between successes are also 10 s apart
			for i := 1; i+1 < len(reqs) && i < last; i++ {
				if !reqs[i].ok && !reqs[i+1].at.Equal(reqs[i].at.Add(10*time.Second)) {
					errs.Failf("after %s: request %d failed at +%v and the next request came %v later, want 10s", step, i, reqs[i].at.Sub(reqs[0].at), reqs[i+1].at.Sub(reqs[i].at))
					return false
				}
			}
			if c.Dir {
				key, e1 := os.ReadFile(filepath.Join(target, "key.pem"))
				cert, e2 := os.ReadFile(filepath.Join(target, "cert.pem"))
				anch, e3 := os.ReadFile(filepath.Join(target, "ca.pem"))
				if e1 != nil || e2 != nil || e3 != nil {
					errs.Failf("after %s: identity directory incomplete: %v %v %v", step, e1, e2, e3)
					return false
				}
				kb, _ := pem.Decode(key)
				cb, _ := pem.Decode(cert)
				var fileChain []*x509.Certificate
				for rest := cert; ; {
					var b *pem.Block
					if b, rest = pem.Decode(rest); b == nil {
						break
					}
					fc, e := x509.ParseCertificate(b.Bytes)
					if e != nil {
						errs.Failf("after %s: cert.pem of the identity directory holds a block that is no certificate: %v", step, e)
						return false
					}
					fileChain = append(fileChain, fc)
				}
				if kb == nil || cb == nil {
					errs.Failf("after %s: identity directory holds no PEM", step)
					return false
				}
				leaf, e4 := x509.ParseCertificate(cb.Bytes)
				var pub *ecdsa.PublicKey
				if k, e := x509.ParsePKCS8PrivateKey(kb.Bytes); e == nil {
					if ek, ok := k.(*ecdsa.PrivateKey); ok {
						pub = &ek.PublicKey
					}
				} else if ek, e := x509.ParseECPrivateKey(kb.Bytes); e == nil {
					pub = &ek.PublicKey
				}
				if e4 != nil || pub == nil {
					errs.Failf("after %s: cannot parse the identity directory (%v)", step, e4)
					return false
				}
				if leaf.SerialNumber.Int64() != reqs[last].serial || !pub.Equal(reqs[last].pub) || string(anch) != reqs[last].anchors {
					errs.Failf("after %s: the identity directory is not the file set of the most recent fetch (request %d): cert serial %d (want %d), key matches=%v, anchors %q (want %q)", step, last, leaf.SerialNumber.Int64(), reqs[last].serial, pub.Equal(reqs[last].pub), anch, reqs[last].anchors)
					return false
				}
				if d := chainDiff(fileChain, reqs[last].chain); d != "" {
					errs.Failf("after %s: cert.pem of the identity directory is not the certificate chain of the most recent fetch (request %d) as issued: %s", step, last, d)
					return false
				}
			}
			return true
		}
		if !settle() || !check("Run") {
			return
		}
		for i, d := range c.Steps {
			time.Sleep(d)
			if !settle() || !check(fmt.Sprintf("step %d (+%v)", i, d)) {
				return
			}
		}
		reqs := is.snapshot()
		out.requests = len(reqs)
		for _, r := range reqs[1:] {
			if r.ok {
				out.successes++
			} else {
				out.failures++
			}
		}
		cancel()
		if !settle() {
			return
		}
		select {
		case <-runDone:
		default:
			errs.Failf("Run did not return after its context was cancelled")
		}
	})
	if e := errs.Err(); e != nil {
		return out, e
	}
	return out, berr
}

// chainDiff compares a certificate chain with the one the issuer answered with ("" = the same certificates in the same order).
func chainDiff(got, want []*x509.Certificate) string {
	desc := func(cs []*x509.Certificate) string {
		var s []string
		for _, c := range cs {
			if c == nil {
				s = append(s, "<nil>")
				continue
			}
			s = append(s, fmt.Sprintf("%s#%v", c.Subject.CommonName, c.SerialNumber))
		}
		return "[" + strings.Join(s, " ") + "]"
	}
	same := len(got) == len(want)
	for i := 0; same && i < len(got); i++ {
		same = got[i] != nil && got[i].Equal(want[i])
	}
	if same {
		return ""
	}
	return fmt.Sprintf("got %s, issued %s (subject#serial, leaf first)", desc(got), desc(want))
}

func TestRenewal(t *testing.T) {
	sec := vk.Sec("Renewal")
	durs := []time.Duration{time.Second, 5 * time.Second, 10 * time.Second, 30 * time.Second, time.Minute, 90 * time.Second, 10 * time.Minute, time.Hour, 12 * time.Hour, 24 * time.Hour}
	valid := []time.Duration{20 * time.Second, time.Minute, 2 * time.Minute, 3 * time.Minute, 10 * time.Minute, time.Hour, 24 * time.Hour, 365 * 24 * time.Hour}
	vk.Check(t, 1500, 400000, func(rt *rapid.T) {
		c := renewCase{Dir: rapid.IntRange(0, 3).Draw(rt, "dir") == 0, Hammer: rapid.SampledFrom([]int{0, 0, 2, 8}).Draw(rt, "hammer")}
		n := rapid.IntRange(0, 6).Draw(rt, "nscript")
		for i := 0; i < n; i++ {
			if rapid.IntRange(0, 2).Draw(rt, "fail") == 0 {
				if rapid.Bool().Draw(rt, "refusedAnswer") {
					r := response{Bad: rapid.SampledFrom([]string{"empty", "noid", "badid", "twoids", "anchors-fail"}).Draw(rt, "bad"), Validity: rapid.SampledFrom(valid).Draw(rt, "badValidity")}
					if r.Bad == "anchors-fail" {
						r.Err = rapid.SampledFrom(errKinds).Draw(rt, "anchorsError")
					}
					c.Script = append(c.Script, r)
				} else {
					c.Script = append(c.Script, response{Fail: true, Err: rapid.SampledFrom(errKinds).Draw(rt, "error")})
				}
				continue
			}
			v := rapid.SampledFrom(valid).Draw(rt, "validity")
			var nb time.Duration
			switch rapid.IntRange(0, 5).Draw(rt, "nbClass") {
			case 0:
				nb = -v / 4 // issued a while ago
			case 1:
				if !c.Dir {
					nb = -v * 3 / 4 // already past half-life: renewed at once (same instant, so not with the directory)
				}
			case 2:
				nb = v / 10 // not yet valid
			}
			r := response{NotBefore: nb, Validity: v}
			// the answer is a real chain: the leaf and 1..2 intermediates whose validity differs from the leaf's - they
			// started (long) before the leaf or only after it, they outlive it (by an hour .. 10 years) or expire before it.
			// The renewal law is about the current certificate - the leaf.
			for k := rapid.SampledFrom([]int{0, 0, 1, 1, 2}).Draw(rt, "intermediates"); k > 0; k-- {
				r.Chain = append(r.Chain, chainLink{
					StartOff: rapid.SampledFrom([]time.Duration{-10 * 365 * 24 * time.Hour, -30 * 24 * time.Hour, -time.Hour, -time.Second, 0, v / 4, v / 2}).Draw(rt, "caStart"),
					EndOff:   rapid.SampledFrom([]time.Duration{10 * 365 * 24 * time.Hour, 365 * 24 * time.Hour, 24 * time.Hour, time.Hour, 4 * v, v, 0, -v / 8, -v / 4}).Draw(rt, "caEnd"),
				})
			}
			c.Script = append(c.Script, r)
		}
		m := rapid.IntRange(1, 12).Draw(rt, "nsteps")
		for i := 0; i < m; i++ {
			c.Steps = append(c.Steps, rapid.SampledFrom(durs).Draw(rt, "step"))
		}
		out, err := runRenew(t, c)
		if err != nil {
			rt.Fatalf("C19 SPIFFE violated: %v\ncase: %s", err, c)
		}
		var cls []string
		if out.failures > 0 {
			cls = append(cls, "renewal-failure")
		}
		for i, r := range c.Script {
			if r.Bad != "" {
				cls = append(cls, "issuer-answer-refused."+r.Bad)
			}
			// error values of the failures that were actually returned to a renewal (request 0 is the initial fetch)
			if i < out.requests && (r.Fail || (r.Bad == "anchors-fail" && c.Dir)) {
				where := "renewal"
				if i == 0 {
					where = "initial"
				}
				cls = append(cls, where+"-failure-error."+r.errKind())
				if ctxFlavoured(r.errKind()) {
					cls = append(cls, where+"-failure-error-is-a-context-error")
				}
			}
		}
		for i, r := range c.Script {
			if len(r.Chain) == 0 || r.Fail || r.Bad != "" || i >= out.requests {
				continue
			}
			// chains that were issued (and accepted); ".renewed": the certificate was current until its renewal was requested
			cls = append(cls, fmt.Sprintf("issuer-chain.%d-intermediates", len(r.Chain)))
			renewed := ""
			if i+1 < out.requests {
				renewed = ".renewed"
				cls = append(cls, "issuer-chain.renewed")
			}
			for _, l := range r.Chain {
				switch {
				case l.EndOff > 0:
					cls = append(cls, "issuer-chain.intermediate-outlives-leaf"+renewed)
				case l.EndOff < 0:
					cls = append(cls, "issuer-chain.intermediate-expires-before-leaf"+renewed)
				}
				switch {
				case l.StartOff > 0:
					cls = append(cls, "issuer-chain.intermediate-starts-after-leaf"+renewed)
				case l.StartOff < 0:
					cls = append(cls, "issuer-chain.intermediate-starts-before-leaf"+renewed)
				}
			}
		}
		if out.successes >= 2 {
			cls = append(cls, ">=2-renewals")
		}
		if c.Dir {
			cls = append(cls, "identity-directory")
		}
		if c.Hammer > 0 {
			cls = append(cls, "consumers-busy-during-renewal")
		}
		sec.Case(out.failures >= 1 && out.successes >= 2, vk.FP(c.String()), cls...)
		sec.Sample(func() any { return c.String() })
	})
}
