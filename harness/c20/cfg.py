CFG = dict(
     claimed=True,
     rule="Cases: pools of 0..4 initial contexts (each live or already ended) x histories of up to 10 operations {end member i, "
          "Add(live|ended context), Cancel, Size, race(end member i || Add from two goroutines at one instant)} x finish "
          "{end all members | Cancel}, run inside a synctest bubble with a settle (synctest.Wait) after every step and compared "
          "with a reference model of tracked members (pool done <=> all tracked ended or Cancel; Size = tracked, 0 after Cancel; "
          "late contexts ignored; watcher goroutine gone at bubble exit). Exhaustive sweep of all histories of <=4 (thorough 5) ops "
          "from a 7-op menu. Non-trivial: an Add accepted while the pool was live, or a raced Add. Distinct by full history.",
     technique="model-based property testing (rapid, scripted histories in testing/synctest bubbles) + exhaustive short-history enumeration",
     level_text="Generated histories against a reference model with exact equality at every settled point; when an Add races the end "
                "of the last live member both outcomes the statement allows are accepted and told apart through Size. Schedule "
                "coverage of the racing pair is the Go scheduler's (statistical); everything else is deterministic.",
     level_note="Trusts testing/synctest (go1.26.8), the Go runtime and rapid. The watcher's exit is observed through the bubble's "
                "leftover-goroutine detection.",
     assumptions=["testing/synctest virtual time and Wait() are correct", "contexts are created with context.WithCancel"],
     timeout_quick=300, timeout_thorough=2400)
CFG["rule"] += ' One case in four is a large pool (up to 40 initial members, 70 operations).'
