package vk

import (
	"flag"
	"fmt"
	"strconv"
	"testing"

	"pgregory.net/rapid"
)

// SeedFor derives the non-zero rapid seed of a test from VERIF_SEED, the shard
// and the test name (rapid treats 0 as "random").
func SeedFor(name string) uint64 {
	s := FP("seed", Seed(), Shard(), name)
	s &= (1 << 62) - 1
	if s == 0 {
		s = 0x9e3779b97f4a7c
	}
	return s
}

// Check runs a rapid property with a case count that depends on the tier and is
// divided among the shards, under a seed that is a pure function of VERIF_SEED.
// A replay (-rapid.failfile given on the command line) is left alone.
func Check(t *testing.T, quickN, thoroughN int, prop func(*rapid.T)) {
	t.Helper()
	n := Pick(quickN, thoroughN)
	n = (n + Shards() - 1) / Shards()
	if n < 1 {
		n = 1
	}
	if f := flag.Lookup("rapid.failfile"); f != nil && f.Value.String() != "" {
		rapid.Check(t, prop)
		return
	}
	must(flag.Set("rapid.checks", strconv.Itoa(n)))
	must(flag.Set("rapid.seed", strconv.FormatUint(SeedFor(t.Name()), 10)))
	if f := flag.Lookup("rapid.shrinktime"); f != nil && f.Value.String() == "30s" {
		must(flag.Set("rapid.shrinktime", "20s"))
	}
	Sec(t.Name()).Requested = int64(n)
	fmt.Printf("VERIF-EXPECT test=%s checks=%d seed=%d\n", t.Name(), n, SeedFor(t.Name()))
	rapid.Check(t, prop)
}

func must(err error) {
	if err != nil {
		panic(err)
	}
}

// Expand deterministically expands a 64-bit value into n pseudo-random bytes
// (splitmix64). Bulk content is drawn as one value so shrinking stays cheap.
func Expand(seed uint64, n int) []byte {
	out := make([]byte, n)
	x := seed
	for i := 0; i < n; i += 8 {
		x += 0x9e3779b97f4a7c15
		z := x
		z = (z ^ (z >> 30)) * 0xbf58476d1ce4e5b9
		z = (z ^ (z >> 27)) * 0x94d049bb133111eb
		z ^= z >> 31
		for j := 0; j < 8 && i+j < n; j++ {
			out[i+j] = byte(z >> (8 * j))
		}
	}
	return out
}
