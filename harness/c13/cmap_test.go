package c13

import (
	"fmt"
	"strings"
	"sync/atomic"
	"testing"

	"github.com/dapr/kit/concurrency/cmap"
	"pgregory.net/rapid"

	"verifharness/vk"
)

type mop struct {
	Kind  string // lock rlock unlock delunlock arm resume
	W     int
	Key   int
	Point string
}

type cmapCase struct {
	Workers, Keys int
	Ops           []mop
}

func (c cmapCase) String() string {
	var p []string
	for _, o := range c.Ops {
		switch o.Kind {
		case "arm":
			p = append(p, "arm("+o.Point+")")
		case "resume":
			p = append(p, "resume")
		default:
			p = append(p, fmt.Sprintf("%s(w%d,k%d)", o.Kind, o.W, o.Key))
		}
	}
	return fmt.Sprintf("cmap{workers=%d keys=%d ops=[%s]}", c.Workers, c.Keys, strings.Join(p, " "))
}

var cmapPauser atomic.Pointer[pauser]

func init() {
	h := func(point string) {
		if g := cmapGate.Load(); g != nil && point == "acquire.missed" {
			if i := int(g.n.Add(1)) - 1; i < len(g.chs) {
				<-g.chs[i]
			}
			return
		}
		p := cmapPauser.Load()
		if p == nil {
			return
		}
		a := p.armed.Load()
		if a == nil || *a != point {
			return
		}
		if !p.armed.CompareAndSwap(a, nil) {
			return
		}
		ch := *p.resumeCh.Load()
		p.parkedW.Store(1)
		<-ch
	}
	cmap.VerifHook.Store(&h)
}

type cmapOutcome struct {
	blockedThenGranted, deleteWithWaiter, pausedWithOps bool
}

func runCmap(t *testing.T, c cmapCase) (out cmapOutcome, err error) {
	var errs vk.Errs
	berr := vk.Bubble(t, c.String(), func() {
		ws := newWorkers(c.Workers, &errs)
		defer ws.stop()
		settle := stackSettle(&errs)
		mon := newMonitor(&errs, "cmap per-key mutex")
		m := cmap.NewMutex[int]()
		ps := &pauser{}
		ps.parkedW.Store(-1)
		cmapPauser.Store(ps)
		defer cmapPauser.Store(nil)
		type wstate struct {
			holding  map[int]string // key -> "w"|"r"
			waitKey  int            // key of the call in progress (-1 none)
			waitMode string
		}
		st := make([]*wstate, c.Workers)
		for i := range st {
			st[i] = &wstate{holding: map[int]string{}, waitKey: -1}
		}
		pausedW := -1
		absorb := func(step string) bool {
			for w, s := range st {
				if s.waitKey < 0 || !ws.returned(w) {
					continue
				}
				s.holding[s.waitKey] = s.waitMode
				s.waitKey = -1
				out.blockedThenGranted = true
			}
			if errs.Err() != nil {
				return false
			}
			// liveness: a key on which somebody waits must have a holder that can release it (or the waiter is the parked one)
			for k := 0; k < c.Keys; k++ {
				var waiters []int
				for w, s := range st {
					if s.waitKey == k && w != pausedW {
						waiters = append(waiters, w)
					}
				}
				if len(waiters) == 0 {
					continue
				}
				held := false
				for _, s := range st {
					if s.holding[k] != "" {
						held = true
					}
				}
				if !held {
					errs.Failf("after %s: workers %v wait for key k%d which nobody holds: they can never be granted (lost lock)", step, waiters, k)
					return false
				}
			}
			return true
		}
		for n, o := range c.Ops {
			w, k := o.W%c.Workers, o.Key%c.Keys
			s := st[w]
			step := fmt.Sprintf("op %d %s(w%d,k%d)", n, o.Kind, w, k)
			switch o.Kind {
			case "lock", "rlock":
				if ws.ws[w].busy || s.waitKey >= 0 || s.holding[k] != "" {
					continue
				}
				// deadlock-free programs only: a worker that may have to wait holds no other key
				if len(s.holding) > 0 {
					continue
				}
				write := o.Kind == "lock"
				s.waitKey, s.waitMode = k, "r"
				if write {
					s.waitMode = "w"
				}
				armed := ps.armed.Load() != nil
				if pausedW >= 0 {
					out.pausedWithOps = true
				}
				ws.issue(w, func() {
					if write {
						m.Lock(k)
					} else {
						m.RLock(k)
					}
					mon.enter(k, write, w)
				})
				if !settle() {
					return
				}
				if armed && ps.parkedW.Load() == 1 {
					pausedW = w
					ps.parkedW.Store(2)
				}
			case "unlock", "delunlock":
				mode := s.holding[k]
				if ws.ws[w].busy || mode == "" {
					continue
				}
				if o.Kind == "delunlock" {
					for _, o2 := range st {
						if o2.waitKey == k {
							out.deleteWithWaiter = true
						}
					}
				}
				if pausedW >= 0 {
					out.pausedWithOps = true
				}
				delete(s.holding, k)
				del := o.Kind == "delunlock"
				ws.issue(w, func() {
					mon.exit(k, mode == "w")
					switch {
					case mode == "w" && del:
						m.DeleteUnlock(k)
					case mode == "w":
						m.Unlock(k)
					case del:
						m.DeleteRUnlock(k)
					default:
						m.RUnlock(k)
					}
				})
				if !settle() {
					return
				}
				if !ws.returned(w) {
					errs.Failf("after %s: the release call itself is blocked", step)
					return
				}
			case "arm":
				if pausedW >= 0 {
					continue
				}
				pt := o.Point
				ch := make(chan struct{})
				ps.resumeCh.Store(&ch)
				ps.armed.Store(&pt)
				continue
			case "resume":
				ps.armed.Store(nil)
				if pausedW >= 0 {
					pausedW = -1
					ps.parkedW.Store(-1)
					close(*ps.resumeCh.Load())
					if !settle() {
						return
					}
				}
			}
			if !absorb(step) {
				return
			}
		}
		ps.armed.Store(nil)
		if pausedW >= 0 {
			pausedW = -1
			close(*ps.resumeCh.Load())
			if !settle() || !absorb("final resume") {
				return
			}
		}
		// wind down: everybody releases; all waiters must get through
		for guard := 0; guard < 1000; guard++ {
			progress := false
			for w, s := range st {
				if ws.ws[w].busy {
					continue
				}
				for k, mode := range s.holding {
					delete(s.holding, k)
					ws.issue(w, func() {
						mon.exit(k, mode == "w")
						if mode == "w" {
							m.Unlock(k)
						} else {
							m.RUnlock(k)
						}
					})
					if !settle() {
						return
					}
					ws.returned(w)
					progress = true
					if !absorb(fmt.Sprintf("final unlock(w%d,k%d)", w, k)) {
						return
					}
					break
				}
			}
			if !progress {
				break
			}
		}
		for w, s := range st {
			if s.waitKey >= 0 {
				errs.Failf("at the end w%d still waits for k%d although everything was released", w, s.waitKey)
				return
			}
		}
	})
	if e := errs.Err(); e != nil {
		return out, e
	}
	return out, berr
}

func TestCmapMutex(t *testing.T) {
	sec := vk.Sec("CmapMutex")
	vk.Check(t, 4000, 700000, func(rt *rapid.T) {
		c := cmapCase{Workers: rapid.IntRange(2, 8).Draw(rt, "workers"), Keys: rapid.IntRange(1, 3).Draw(rt, "keys")}
		n := rapid.IntRange(1, 30).Draw(rt, "nops")
		for i := 0; i < n; i++ {
			w, key := rapid.IntRange(0, 7).Draw(rt, "w"), rapid.IntRange(0, 2).Draw(rt, "key")
			switch k := rapid.IntRange(0, 13).Draw(rt, "kind"); {
			case k <= 3:
				c.Ops = append(c.Ops, mop{Kind: "lock", W: w, Key: key})
			case k <= 5:
				c.Ops = append(c.Ops, mop{Kind: "rlock", W: w, Key: key})
			case k <= 8:
				c.Ops = append(c.Ops, mop{Kind: "unlock", W: w, Key: key})
			case k <= 10:
				c.Ops = append(c.Ops, mop{Kind: "delunlock", W: w, Key: key})
			case k == 11:
				c.Ops = append(c.Ops, mop{Kind: "arm", Point: rapid.SampledFrom([]string{"lock.found", "rlock.found", "lock.created", "rlock.created"}).Draw(rt, "point")})
			default:
				c.Ops = append(c.Ops, mop{Kind: "resume"})
			}
		}
		out, err := runCmap(t, c)
		if err != nil {
			rt.Fatalf("C13 locks violated: %v\ncase: %s", err, c)
		}
		var cls []string
		if out.deleteWithWaiter {
			cls = append(cls, "cmap.delete-and-release-with-waiter")
		}
		if out.pausedWithOps {
			cls = append(cls, "cmap.ops-while-paused-after-lookup")
		}
		sec.Case(out.blockedThenGranted || out.deleteWithWaiter || out.pausedWithOps, vk.FP(c.String()), cls...)
		sec.Sample(func() any { return c.String() })
	})
}
