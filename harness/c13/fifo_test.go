package c13

import (
	"fmt"
	"strings"
	"sync/atomic"
	"testing"

	"github.com/dapr/kit/concurrency/fifo"
	"pgregory.net/rapid"

	"verifharness/vk"
)

type fop struct {
	Kind  string // lock unlock arm resume
	W     int
	Key   int
	Point string
}

type fifoCase struct {
	Map     bool // fifo.Map (per key) or a single fifo.Mutex
	Workers int
	Keys    int
	Ops     []fop
}

func (c fifoCase) String() string {
	var p []string
	for _, o := range c.Ops {
		switch o.Kind {
		case "lock", "unlock":
			p = append(p, fmt.Sprintf("%s(w%d,k%d)", o.Kind, o.W, o.Key))
		case "arm":
			p = append(p, "arm("+o.Point+")")
		default:
			p = append(p, o.Kind)
		}
	}
	return fmt.Sprintf("fifo{map=%v workers=%d keys=%d ops=[%s]}", c.Map, c.Workers, c.Keys, strings.Join(p, " "))
}

// pause controller shared by the fifo and cmap hooks
type pauser struct {
	armed    atomic.Pointer[string]
	parkedW  atomic.Int64 // -1: nobody
	resumeCh atomic.Pointer[chan struct{}]
	curW     func() int
}

var fifoPause atomic.Pointer[pauser]

func init() {
	h := func(point string) {
		p := fifoPause.Load()
		if p == nil {
			return
		}
		a := p.armed.Load()
		if a == nil || *a != point {
			return
		}
		if !p.armed.CompareAndSwap(a, nil) {
			return
		}
		ch := *p.resumeCh.Load()
		p.parkedW.Store(1)
		<-ch
	}
	fifo.VerifHook.Store(&h)
}

type fifoOutcome struct {
	blockedThenGranted bool
	pausedWithOps      bool
	maxQueue           int
}

func runFifo(t *testing.T, c fifoCase) (out fifoOutcome, err error) {
	var errs vk.Errs
	berr := vk.Bubble(t, c.String(), func() {
		ws := newWorkers(c.Workers, &errs)
		defer ws.stop()
		mon := newMonitor(&errs, "fifo lock")
		var mtx *fifo.Mutex
		var mp fifo.Map[int]
		if c.Map {
			mp = fifo.NewMap[int]()
		} else {
			mtx = fifo.New()
		}
		lock := func(k int) {
			if c.Map {
				mp.Lock(k)
			} else {
				mtx.Lock()
			}
		}
		unlock := func(k int) {
			if c.Map {
				mp.Unlock(k)
			} else {
				mtx.Unlock()
			}
		}
		ps := &pauser{}
		ps.parkedW.Store(-1)
		fifoPause.Store(ps)
		defer fifoPause.Store(nil)

		// model
		holder := map[int]int{} // key -> worker (absent: free)
		queue := map[int][]int{}
		holds := map[int]map[int]bool{} // worker -> keys held
		waiting := map[int]int{}        // worker -> key it is queued on
		pausedW, pausedKey := -1, -1    // worker parked at map.lock.counted (counted, not yet queued)
		for w := 0; w < c.Workers; w++ {
			holds[w] = map[int]bool{}
		}
		expectLen := func() int {
			n := 0
			for k := 0; k < c.Keys; k++ {
				_, h := holder[k]
				if h || len(queue[k]) > 0 || pausedKey == k {
					n++
				}
			}
			return n
		}
		check := func(step string) bool {
			if errs.Err() != nil {
				return false
			}
			for w := 0; w < c.Workers; w++ {
				ret := ws.returned(w)
				_, isWaiting := waiting[w]
				if isWaiting && ret {
					errs.Failf("after %s: w%d was granted k%d out of turn (holder w%d, queue %v)", step, w, waiting[w], holder[waiting[w]], queue[waiting[w]])
					return false
				}
				if !isWaiting && w != pausedW && !ret && ws.ws[w].busy {
					errs.Failf("after %s: w%d is blocked although the model says its operation must return (holder map %v)", step, w, holder)
					return false
				}
			}
			if c.Map {
				if n := fifo.VerifMapLen(mp); n != expectLen() {
					errs.Failf("after %s: the map holds %d per-key entries, %d keys have a holder or waiter", step, n, expectLen())
					return false
				}
			}
			for k, q := range queue {
				if len(q) > out.maxQueue {
					out.maxQueue = len(q)
				}
				_ = k
			}
			return true
		}
		acquireOp := func(w, k int) func() {
			return func() {
				lock(k)
				mon.enter(k, true, w)
			}
		}
		// arrive: worker w reaches the key mutex of k (model)
		arrive := func(w, k int) {
			if _, held := holder[k]; !held {
				holder[k] = w
				holds[w][k] = true
			} else {
				queue[k] = append(queue[k], w)
				waiting[w] = k
			}
		}
		for n, o := range c.Ops {
			step := fmt.Sprintf("op %d %s", n, o.Kind)
			switch o.Kind {
			case "lock":
				w, k := o.W%c.Workers, o.Key%c.Keys
				if ws.ws[w].busy || holds[w][k] || w == pausedW {
					continue
				}
				armed := ps.armed.Load() != nil && c.Map
				// only deadlock-free programs: a worker that may have to wait holds no other key
				if _, held := holder[k]; (held || armed || pausedKey == k) && len(holds[w]) > 0 {
					continue
				}
				step = fmt.Sprintf("op %d lock(w%d,k%d)", n, w, k)
				ws.issue(w, acquireOp(w, k))
				waitSettle()
				if armed && ps.parkedW.Load() == 1 {
					// w is parked between counting itself and queueing on the key's mutex
					pausedW, pausedKey = w, k
					ps.parkedW.Store(2)
				} else {
					arrive(w, k)
				}
			case "unlock":
				w, k := o.W%c.Workers, o.Key%c.Keys
				if ws.ws[w].busy || !holds[w][k] {
					continue
				}
				step = fmt.Sprintf("op %d unlock(w%d,k%d)", n, w, k)
				if pausedW >= 0 {
					out.pausedWithOps = true
				}
				ws.issue(w, func() {
					mon.exit(k, true)
					unlock(k)
				})
				delete(holds[w], k)
				delete(holder, k)
				if q := queue[k]; len(q) > 0 {
					next := q[0]
					queue[k] = q[1:]
					delete(waiting, next)
					holder[k] = next
					holds[next][k] = true
					out.blockedThenGranted = true
				}
				waitSettle()
			case "arm":
				if !c.Map || pausedW >= 0 {
					continue
				}
				pt := o.Point
				ch := make(chan struct{})
				ps.resumeCh.Store(&ch)
				ps.armed.Store(&pt)
			case "resume":
				ps.armed.Store(nil)
				if pausedW >= 0 {
					w, k := pausedW, pausedKey
					pausedW, pausedKey = -1, -1
					ps.parkedW.Store(-1)
					close(*ps.resumeCh.Load())
					waitSettle()
					arrive(w, k)
				}
			}
			if !check(step) {
				return
			}
		}
		// wind down: resume, then release everything in grant order
		ps.armed.Store(nil)
		if pausedW >= 0 {
			w, k := pausedW, pausedKey
			pausedW, pausedKey = -1, -1
			close(*ps.resumeCh.Load())
			waitSettle()
			arrive(w, k)
			if !check("final resume") {
				return
			}
		}
		for guard := 0; guard < 1000; guard++ {
			progress := false
			for k := 0; k < c.Keys; k++ {
				w, held := holder[k]
				if !held || ws.ws[w].busy {
					continue
				}
				progress = true
				ws.issue(w, func() {
					mon.exit(k, true)
					unlock(k)
				})
				delete(holds[w], k)
				delete(holder, k)
				if q := queue[k]; len(q) > 0 {
					next := q[0]
					queue[k] = q[1:]
					delete(waiting, next)
					holder[k] = next
					holds[next][k] = true
				}
				waitSettle()
				if !check(fmt.Sprintf("final unlock(w%d,k%d)", w, k)) {
					return
				}
			}
			if !progress {
				break
			}
		}
		if len(holder) != 0 {
			errs.Failf("harness: could not release everything: %v", holder)
		}
	})
	if e := errs.Err(); e != nil {
		return out, e
	}
	return out, berr
}

func genFifo(rt *rapid.T) fifoCase {
	c := fifoCase{Map: rapid.IntRange(0, 3).Draw(rt, "map") != 0, Workers: rapid.IntRange(2, 8).Draw(rt, "workers")}
	c.Keys = 1
	if c.Map {
		c.Keys = rapid.IntRange(1, 3).Draw(rt, "keys")
	}
	n := rapid.IntRange(1, 30).Draw(rt, "nops")
	for i := 0; i < n; i++ {
		switch k := rapid.IntRange(0, 11).Draw(rt, "kind"); {
		case k <= 5:
			c.Ops = append(c.Ops, fop{Kind: "lock", W: rapid.IntRange(0, 7).Draw(rt, "w"), Key: rapid.IntRange(0, 2).Draw(rt, "key")})
		case k <= 9:
			c.Ops = append(c.Ops, fop{Kind: "unlock", W: rapid.IntRange(0, 7).Draw(rt, "w"), Key: rapid.IntRange(0, 2).Draw(rt, "key")})
		case k == 10:
			c.Ops = append(c.Ops, fop{Kind: "arm", Point: "map.lock.counted"})
		default:
			c.Ops = append(c.Ops, fop{Kind: "resume"})
		}
	}
	return c
}

func TestFifo(t *testing.T) {
	sec := vk.Sec("Fifo")
	vk.Check(t, 12000, 4000000, func(rt *rapid.T) {
		c := genFifo(rt)
		out, err := runFifo(t, c)
		if err != nil {
			rt.Fatalf("C13 locks violated: %v\ncase: %s", err, c)
		}
		var cls []string
		if out.blockedThenGranted {
			cls = append(cls, "fifo.blocked-then-granted")
		}
		if out.pausedWithOps {
			cls = append(cls, "fifo.ops-while-paused-after-count")
		}
		if out.maxQueue >= 2 {
			cls = append(cls, "fifo.queue>=2")
		}
		sec.Case(out.blockedThenGranted || out.pausedWithOps, vk.FP(c.String()), cls...)
		sec.Sample(func() any { return c.String() })
	})
}
