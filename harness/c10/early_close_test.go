package c10

import (
	"context"
	"fmt"
	"runtime"
	"testing"
	"time"

	"github.com/dapr/kit/events/batcher"

	"verifharness/vk"
)

// Close at once: subscribers are added, keys are batched, and the batcher is closed before its goroutines may have
// executed their first instruction. At the instant Close returns no goroutine created by the batcher or its queue may
// be parked or unstarted, and every subscriber channel is closed.
func TestCloseRightAfterSubscribe(t *testing.T) {
	sec := vk.Sec("CloseRightAfterSubscribe")
	for _, procs := range []int{1, 0} {
		for _, subs := range []int{1, 4, 40} {
			for _, keys := range []int{0, 2} {
				name := fmt.Sprintf("earlyclose{gomaxprocs=%d channels=%d keys=%d}", procs, subs, keys)
				var errs vk.Errs
				berr := vk.Bubble(t, name, func() {
					if procs > 0 {
						defer runtime.GOMAXPROCS(runtime.GOMAXPROCS(procs))
					}
					for i := 0; i < vk.Pick(150, 3000); i++ {
						b := batcher.New[int, int](10 * time.Millisecond)
						ctx, cancel := context.WithCancel(context.Background())
						chans := make([]chan int, subs)
						send := make([]chan<- int, subs)
						for k := range chans {
							chans[k] = make(chan int, 4)
							send[k] = chans[k]
						}
						b.Subscribe(ctx, send...)
						for k := 0; k < keys; k++ {
							b.Batch(k, k+1)
						}
						b.Close()
						for _, pkg := range []string{"events/batcher.", "events/queue."} {
							if c, st := vk.HelpersParked(pkg); c > 0 {
								errs.Failf("round %d: Close returned while a goroutine of %s has not exited (parked or not even started):\n%s", i, pkg, st)
								cancel()
								return
							}
						}
						for k, ch := range chans {
							closed := false
							for !closed {
								select {
								case _, ok := <-ch:
									closed = !ok
								default:
									errs.Failf("round %d: when Close returned the channel of subscriber %d was not closed", i, k)
									cancel()
									return
								}
							}
						}
						cancel()
					}
				})
				if e := errs.Err(); e != nil {
					t.Fatalf("C10 batcher violated: %v\ncase: %s", e, name)
				}
				if berr != nil {
					t.Fatalf("C10 batcher violated: %v\ncase: %s", berr, name)
				}
				sec.Case(true, vk.FP(name), "close-right-after-subscribe")
				sec.Sample(func() any { return name })
			}
		}
	}
}
