// Package enckit holds the small kit-facing helpers shared by the enc/v1 checks
// (c01, c02): driving kit's Encrypt / Decrypt with scripted sources and
// consumers under the hang watchdog. No oracle lives here.
package enckit

import (
	"bytes"
	"fmt"
	"io"

	enc "github.com/dapr/kit/schemes/enc/v1"

	"verifharness/vk"
)

// Consume reads r to its end. sizes == nil is io.ReadAll; [-1] is io.Copy into
// a buffer; otherwise the buffer sizes are cycled (vk.Consume). A clean EOF is
// reported as a nil error.
func Consume(r io.Reader, sizes []int) ([]byte, error) {
	if sizes == nil {
		return io.ReadAll(r)
	}
	if len(sizes) == 1 && sizes[0] == -1 {
		var b bytes.Buffer
		_, err := io.Copy(&b, r)
		return b.Bytes(), err
	}
	return vk.Consume(r, sizes)
}

// Encrypt runs kit's Encrypt over src and reads the returned stream to its end
// with the consumer script. callErr is the error returned by Encrypt itself,
// streamErr the terminal error of the stream (nil for a clean EOF).
func Encrypt(journal string, src io.Reader, opts enc.EncryptOptions, cons []int) (out []byte, callErr, streamErr error) {
	vk.Guard("enc/v1 Encrypt "+journal, func() {
		var r io.Reader
		r, callErr = enc.Encrypt(src, opts)
		if callErr != nil {
			return
		}
		if r == nil {
			callErr = fmt.Errorf("verif: Encrypt returned a nil stream and a nil error")
			return
		}
		out, streamErr = Consume(r, cons)
	})
	return out, callErr, streamErr
}

// Decrypt runs kit's Decrypt over src and reads the returned stream to its end
// with the consumer script. callErr is the error returned by Decrypt itself,
// streamErr the terminal error of the stream (nil for a clean EOF).
func Decrypt(journal string, src io.Reader, opts enc.DecryptOptions, cons []int) (out []byte, callErr, streamErr error) {
	vk.Guard("enc/v1 Decrypt "+journal, func() {
		var r io.Reader
		r, callErr = enc.Decrypt(src, opts)
		if callErr != nil {
			return
		}
		if r == nil {
			callErr = fmt.Errorf("verif: Decrypt returned a nil stream and a nil error")
			return
		}
		out, streamErr = Consume(r, cons)
	})
	return out, callErr, streamErr
}

// IdentityWrap is the wrap function kit's own suite uses (the wrapped key is
// the file key); it stores a copy of the file key in *capture.
func IdentityWrap(capture *[]byte) enc.WrapKeyFn {
	return func(plaintextKey []byte, algorithm, keyName string, nonce []byte) ([]byte, []byte, error) {
		*capture = bytes.Clone(plaintextKey)
		return bytes.Clone(plaintextKey), nil, nil
	}
}

// IdentityUnwrap returns the wrapped key as the file key.
func IdentityUnwrap(wrappedKey []byte, algorithm, keyName string, nonce, tag []byte) ([]byte, error) {
	return bytes.Clone(wrappedKey), nil
}

// SegClass names the position of a plaintext length relative to the 64 KiB
// segment grid.
func SegClass(n int) string {
	switch {
	case n == 0:
		return "len.0"
	case n == 1:
		return "len.1"
	case n%65536 == 0:
		return fmt.Sprintf("len.%dseg", n/65536)
	case n%65536 == 65535:
		return fmt.Sprintf("len.%dseg-1", n/65536+1)
	case n%65536 == 1:
		return fmt.Sprintf("len.%dseg+1", n/65536)
	case n < 65536:
		return "len.<1seg"
	default:
		return fmt.Sprintf("len.%d-%dseg", n/65536, n/65536+1)
	}
}
